"""C10 — cancelling or timing out a receive never loses data.

Protocol level (mode 0): the REAL StreamReaderBufferedProtocol of /repo on a deterministic loop whose ready queue is
explicit (StepLoop: callbacks scheduled during an iteration run in the next one, FIFO), a stub transport, and a
scripted label sequence over {recv(k), recv_into(k), data(bytes), eof, lost(exc), cancel, wake, turn} — the alphabet of
coq/Conc/SockReader.v.  input = [0, fx, labels]; fx = 2 means "the variant /repo has" (Gen/ParamsC10.repo_fixed, found
by replaying the F4 witnesses on every run).
"""
from __future__ import annotations

import ast
import asyncio
import collections
import contextlib
import errno
import itertools
import os
import zlib

from common import detloop, runner

PROPERTY_ID = "C10"
RUN_MODULE = "Run.C10"
PROPS_FILE = "Props/C10.v"
ALLOWED_AXIOMS = []
SOCKET_PY = "src/easynetwork/lowlevel/api_async/backend/_asyncio/stream/socket.py"
BLOCKING_PY = "src/easynetwork/lowlevel/api_sync/endpoints/stream.py"
ANCHORS = [
    (SOCKET_PY, "StreamReaderBufferedProtocol.get_buffer"),
    (SOCKET_PY, "StreamReaderBufferedProtocol.buffer_updated"),
    (SOCKET_PY, "StreamReaderBufferedProtocol.eof_received"),
    (SOCKET_PY, "StreamReaderBufferedProtocol.connection_lost"),
    (SOCKET_PY, "StreamReaderBufferedProtocol.receive_data"),
    (SOCKET_PY, "StreamReaderBufferedProtocol.receive_data_into"),
    (SOCKET_PY, "StreamReaderBufferedProtocol._wait_for_data"),
    (SOCKET_PY, "StreamReaderBufferedProtocol.__keep_data_of_cancelled_reader"),
    (SOCKET_PY, "StreamReaderBufferedProtocol._read_waiter_fut"),
    (SOCKET_PY, "StreamReaderBufferedProtocol._wakeup_read_waiter"),
    (SOCKET_PY, "StreamReaderBufferedProtocol._check_for_connection_lost"),
    (SOCKET_PY, "StreamReaderBufferedProtocol._maybe_pause_transport"),
    (SOCKET_PY, "StreamReaderBufferedProtocol._maybe_resume_transport"),
    (SOCKET_PY, "StreamReaderBufferedProtocol._compute_read_buffer_limits"),
    (BLOCKING_PY, "_BufferedReceiverImpl.receive"),
    (SOCKET_PY, "AsyncioTransportStreamSocketAdapter.recv"),
    (SOCKET_PY, "AsyncioTransportStreamSocketAdapter.recv_into"),
    ("src/easynetwork/lowlevel/api_async/backend/_asyncio/tasks.py", "TaskUtils.coro_yield"),
    (BLOCKING_PY, "_DataReceiverImpl.receive"),
    ("src/easynetwork/clients/_iter.py", "AsyncClientRecvIterator.__anext__"),
    ("src/easynetwork/lowlevel/api_async/endpoints/stream.py", "_DataReceiverImpl.receive"),
    ("src/easynetwork/lowlevel/api_async/endpoints/stream.py", "_BufferedReceiverImpl.receive"),
    ("src/easynetwork/lowlevel/api_async/servers/stream.py", "_RequestReceiver.next"),
    ("src/easynetwork/lowlevel/api_async/servers/stream.py", "_BufferedRequestReceiver.next"),
    ("src/easynetwork/lowlevel/api_async/transports/tls.py", "_IncomingDataReader.readinto"),
    ("src/easynetwork/lowlevel/api_async/transports/tls.py", "AsyncTLSStreamTransport._retry_ssl_method"),
    ("src/easynetwork/lowlevel/api_async/transports/tls.py", "AsyncTLSStreamTransport.recv"),
    ("src/easynetwork/lowlevel/api_async/transports/tls.py", "AsyncTLSStreamTransport.recv_into"),
]
RULE = ("protocol level: every sequence of enabled labels up to length 4 (quick) / 5 (thorough) over {recv(2), "
        "recv_into(2), data(1 byte), data(3 bytes), eof, lost(None), lost(exc), cancel, wake, turn} and up to length 6 / 7 "
        "over the race alphabet {recv_into(2), data(3), cancel, wake, turn} (enabledness is "
        "decided by the implementation's own answers, a disabled label prunes the branch), each followed by a fixed "
        "drain suffix that reads back what is parked; plus seeded random sequences of 8-24 labels with sizes 1-9; plus "
        "label traces recorded from AsyncStreamEndpoint.recv_packet, the server request receivers and TLS over the "
        "socket adapter on the ordinary event loop (timeout / move_on_after / task.cancel, read events 0.25 ns before, "
        "at and after each deadline so both same-iteration orders occur). "
        "All delivered bytes are distinct so loss, duplication and reordering are attributable. Non-trivial = the "
        "sequence contains a cancellation request issued while a receive is in flight, or a connection loss / EOF "
        "while a receive is in flight.")
TRUSTED = [
    "model of StreamReaderBufferedProtocol + asyncio task wake-up rule hand-written in coq/Conc/SockReader.v",
    "StepLoop (harness/c10.py): explicit two-level FIFO ready queue replacing BaseEventLoop._run_once for the "
    "protocol-level replay (asyncio.Task/Future are the real CPython 3.12 ones)",
]
ASSUMPTIONS = [
    "single consumer: receives are issued sequentially by one task (a concurrent call only gets RuntimeError)",
    "the transport never calls buffer_updated/eof_received after eof_received/connection_lost (asyncio contract)",
    "fill level stays below the 192 KiB high-water mark: read flow control (pause_reading) is outside the model",
]

KNOWN_SIGNATURE = "recv_into-cancelled-in-same-window-as-read-event"

# ------------------------------------------------------------------------------------------------ labels
L_RECV, L_INTO, L_DATA, L_EOF, L_LOST, L_CANCEL, L_WAKE, L_TURN = range(8)
L_RECVPKT = 8        # recorded traces only: recv_packet() / receiver.next() starts
L_BIGDATA = 10       # mode 7 only: [10, n, seed] = a read event of n generated bytes
L_TLSOP = 9          # recorded traces only: a retry loop of the TLS transport starts (handshake / recv / recv_into)
DISABLED = [-1]


def params():
    """max_size from the class body (AST, fail closed) + which variant of the protocol /repo has (witness replay)."""
    path = os.path.join(runner.REPO, SOCKET_PY)
    try:
        tree = ast.parse(open(path).read())
    except Exception as exc:
        raise runner.TranslateError(f"cannot parse {SOCKET_PY}: {exc}")
    value = None
    for node in tree.body:
        if isinstance(node, ast.ClassDef) and node.name == "StreamReaderBufferedProtocol":
            for st in node.body:
                if isinstance(st, ast.AnnAssign) and isinstance(st.target, ast.Name) and st.target.id == "max_size":
                    value = _const_int(st.value)
                elif isinstance(st, ast.Assign) and any(isinstance(t, ast.Name) and t.id == "max_size" for t in st.targets):
                    value = _const_int(st.value)
    if value is None or value < 4096:
        raise runner.TranslateError("StreamReaderBufferedProtocol.max_size is not a literal integer expression >= 4096")
    fixed = detect_fixed()
    return ("From Coq Require Import ZArith.\n"
            f"Definition max_size : Z := {value}%Z.\n"
            f"Definition repo_fixed : bool := {'true' if fixed else 'false'}.\n")


def _const_int(node):
    if isinstance(node, ast.Constant) and isinstance(node.value, int) and not isinstance(node.value, bool):
        return node.value
    if isinstance(node, ast.BinOp) and isinstance(node.op, (ast.Mult, ast.Add, ast.LShift)):
        a, b = _const_int(node.left), _const_int(node.right)
        if a is None or b is None:
            return None
        return a * b if isinstance(node.op, ast.Mult) else a + b if isinstance(node.op, ast.Add) else a << b
    return None


# ------------------------------------------------------------------------------------------------ the loop
class StepLoop(detloop.DetLoop):
    """DetLoop whose ready queue is explicit while `manual` is set: call_soon() appends to `nxt`; the driver runs the
    callbacks of `cur` one at a time (`wake`) and starts the next iteration (`turn`: cur := nxt) exactly like
    BaseEventLoop._run_once does (an iteration runs the callbacks that were queued before it started, in order).
    Callbacks that are not steps of a task (e.g. traceback.clear_frames) are run in order but are not counted."""

    def __init__(self):
        super().__init__(max_steps=10000)
        self.manual = False
        self.cur = collections.deque()
        self.nxt = collections.deque()

    def call_soon(self, callback, *args, context=None):
        if self.manual:
            handle = asyncio.Handle(callback, args, self, context)
            is_step = isinstance(getattr(callback, "__self__", None), asyncio.Future)
            self.nxt.append((is_step, handle))
            return handle
        return super().call_soon(callback, *args, context=context)

    def flush_aux(self):
        while self.cur and (not self.cur[0][0] or self.cur[0][1].cancelled()):
            _, h = self.cur.popleft()
            if not h.cancelled():
                h._run()

    def run_one(self):
        self.flush_aux()
        if not self.cur:
            return False
        _, h = self.cur.popleft()
        h._run()
        self.flush_aux()
        return True

    def next_iteration(self):
        self.flush_aux()
        if self.cur:
            return False
        self.cur, self.nxt = self.nxt, collections.deque()
        self.flush_aux()
        return True


@contextlib.contextmanager
def _step_loop():
    loop = StepLoop()
    try:
        asyncio.set_event_loop(loop)
        yield loop
    finally:
        asyncio.set_event_loop(None)
        loop.close()


class EnvError(OSError):
    """the exception the loop passes to connection_lost()"""


class StubTransport(asyncio.Transport):
    def __init__(self):
        super().__init__(extra={})
        self.closed = False

    def is_closing(self):
        return self.closed

    def close(self):
        self.closed = True

    def pause_reading(self):
        raise AssertionError("pause_reading() called: read flow control is outside the C10 model")

    def resume_reading(self):
        raise AssertionError("resume_reading() called: read flow control is outside the C10 model")


def _protocol_class():
    from easynetwork.lowlevel.api_async.backend._asyncio.stream.socket import StreamReaderBufferedProtocol
    return StreamReaderBufferedProtocol


class FlowTransport(StubTransport):
    """stub transport that honours pause_reading()/resume_reading() (mode 5)"""

    def __init__(self):
        super().__init__()
        self.paused = False

    def pause_reading(self):
        assert not self.paused
        self.paused = True

    def resume_reading(self):
        assert self.paused
        self.paused = False


_small_cls = None


def _small_protocol_class():
    """the real protocol with a 2 KiB buffer: high-water mark 1024, low-water mark 256"""
    global _small_cls
    if _small_cls is None:
        class SmallBufferProtocol(_protocol_class()):
            __slots__ = ()
            max_size = 2048
        _small_cls = SmallBufferProtocol
    return _small_cls


class ProtoDriver:
    """Plays the loop, the transport and the consumer around one real protocol object."""

    def __init__(self, loop, flow=False):
        self.loop = loop
        self.flow = flow
        self.proto = (_small_protocol_class() if flow is True else _protocol_class())(loop=loop)
        self.transport = FlowTransport() if flow else StubTransport()
        self.proto.connection_made(self.transport)
        self.env_exc = EnvError(errno.EPIPE, "scripted connection loss")
        self.env_eof = self.env_lost = False
        self.task = None          # the reader task while it is inside a receive
        self.task_buf = None      # its bytearray for recv_into
        self.task_cancel_requested = False
        self.delivered = bytearray()
        self.returned = bytearray()
        self.exposed = set()         # positions (in `delivered`) of bytes written into the buffer of a recv_into
                                     # that has a cancellation requested before its wake-up
        self.pending_ext = []        # positions written into the current reader's buffer (it has not returned yet)
        self.error_seen = False
        self.eof_returned = False
        self._last_size = 0
        self.foreign_suspended = None
        self.fatal = None
        self.unexpected = None

    # -- helpers
    def _result(self, task, buf):
        if task.cancelled():
            return [1]
        exc = task.exception()
        if exc is None:
            res = task.result()
            data = bytes(buf[:res]) if buf is not None else bytes(res)
            self.returned += data
            return [0, data]
        if exc is self.env_exc:
            self.error_seen = True
            return [2, 0]
        if isinstance(exc, OSError) and exc.errno == errno.ECONNRESET:
            self.error_seen = True
            return [2, 1]
        if isinstance(exc, RuntimeError):
            return [3]
        self.unexpected = f"a receive ended with {type(exc).__name__}: {exc}"
        return [9, zlib.crc32(type(exc).__name__.encode()) & 0xFFFF]

    def _finish_reader_if_done(self):
        if self.task is not None and self.task.done():
            task, buf = self.task, self.task_buf
            out = self._result(task, buf)
            if self.pending_ext and (out[0] != 0) and self.task_cancel_requested:
                self.exposed.update(self.pending_ext)
            if out[0] == 0 and not out[1] and self._last_size > 0:
                self.eof_returned = True
            self.task = self.task_buf = None
            self.pending_ext = []
            self.task_cancel_requested = False
            return out
        return []

    # -- labels
    def call(self, into, k):
        buf = bytearray(k) if into else None
        coro = self.proto.receive_data_into(buf) if into else self.proto.receive_data(k)
        task = asyncio.Task(coro, loop=self.loop, eager_start=True)
        if self.task is None:
            self._last_size = k
            if task.done():
                out = self._result(task, buf)
                if out[0] == 0 and not out[1] and k > 0:
                    self.eof_returned = True
                return out
            self.task, self.task_buf = task, buf
            return []
        # foreign caller while the reader task is inside a receive: must fail or return at once
        if task.done():
            return self._result(task, buf)
        task.cancel()
        self.foreign_suspended = task
        return [8]

    def data(self, payload):
        if self.env_lost or self.env_eof or not payload or (self.flow and self.transport.paused):
            return DISABLED
        buf = self.proto.get_buffer(-1)
        view = memoryview(buf)
        room = view.nbytes
        if room == 0:
            # _SelectorSocketTransport._read_ready__get_buffer: RuntimeError('get_buffer() returned an empty buffer')
            # -> _fatal_error -> connection_lost(exc): whatever is parked is dropped
            view.release()
            self.fatal = "get_buffer() returned an empty buffer to a transport that was not paused"
            self.env_lost = True
            self.proto.connection_lost(self.env_exc)
            return [4, 0, 0]
        n = min(room, len(payload))
        view[:n] = payload[:n]
        external = self.task_buf is not None and view.obj is self.task_buf
        view.release()
        positions = range(len(self.delivered), len(self.delivered) + n)
        self.delivered += payload[:n]
        if external:
            if self.task_cancel_requested:
                self.exposed.update(positions)
            else:
                self.pending_ext.extend(positions)
        self.proto.buffer_updated(n)
        return [4, n, room]

    def eof(self):
        if self.env_lost or (self.flow and self.transport.paused):
            return DISABLED
        self.env_eof = True
        self.proto.eof_received()
        return []

    def lost(self, with_exc):
        self.env_lost = True
        self.proto.connection_lost(self.env_exc if with_exc else None)
        return []

    def cancel(self):
        if self.task is None:
            return DISABLED
        self.task.cancel()
        self.task_cancel_requested = True
        return []

    def wake(self):
        if not self.loop.run_one():
            return DISABLED
        return self._finish_reader_if_done()

    def turn(self):
        if not self.loop.next_iteration():
            return DISABLED
        return self._finish_reader_if_done()

    def do(self, lab):
        kind = lab[0]
        self.loop.flush_aux()
        if kind == L_RECV:
            return self.call(False, lab[1])
        if kind == L_INTO:
            return self.call(True, lab[1])
        if kind == L_DATA:
            return self.data(lab[1])
        if kind == L_BIGDATA:
            return self.data(gen_bytes(lab[1], lab[2]))
        if kind == L_EOF:
            return self.eof()
        if kind == L_LOST:
            return self.lost(bool(lab[1]))
        if kind == L_CANCEL:
            return self.cancel()
        if kind == L_WAKE:
            return self.wake()
        if kind == L_TURN:
            return self.turn()
        raise ValueError(f"bad label {lab!r}")

    def settle(self, rounds=4):
        """run the loop until nothing is scheduled any more"""
        for _ in range(rounds):
            while self.loop.run_one():
                self._finish_reader_if_done()
            if not self.loop.nxt:
                break
            self.loop.next_iteration()
            self._finish_reader_if_done()

    def cleanup(self):
        if self.task is not None and not self.task.done():
            self.task.cancel()
        self.settle(rounds=6)
        if not self.env_lost:
            self.proto.connection_lost(None)
            self.settle(rounds=3)


def with_driver(fn, flow=False):
    """Run fn(driver) inside a callback of a running StepLoop (so eager tasks start at once); return its result."""
    box = {}
    with _step_loop() as loop:
        def drive():
            loop.manual = True
            drv = None
            try:
                drv = ProtoDriver(loop, flow=flow)
                box["value"] = fn(drv)
            except BaseException as exc:   # noqa: BLE001 - re-raised outside the loop
                box["error"] = exc
            finally:
                try:
                    if drv is not None:
                        drv.cleanup()
                except BaseException as exc:   # noqa: BLE001
                    box.setdefault("error", exc)
                finally:
                    loop.manual = False
                    loop.stop()
        loop.call_soon(drive)
        loop.run_forever()
    if "error" in box:
        raise box["error"]
    return box["value"]


def replay(labels):
    def body(drv):
        obs = [drv.do(lab) for lab in labels]
        return [obs, bytes(drv.delivered), bytes(drv.returned)]
    return with_driver(body)


def gen_bytes(n, seed):
    return bytes((seed + i) % 251 + 1 for i in range(n))


def cksum(data):
    a = 0
    for x in data:
        a = (a * 31 + x) % 65521
    return a


def replay_flow_real(labels):
    """mode 7: the real protocol class (256 KiB buffer), flow control honoured, compact observables"""
    def body(drv):
        low, high = drv.proto._get_read_buffer_limits()
        out = []
        for lab in labels:
            o = drv.do(lab)
            if o and o[0] == 0:
                o = [0, len(o[1]), cksum(o[1])]
            out.append([o, int(drv.transport.paused)])
        return ([out, [len(drv.delivered), cksum(drv.delivered)], [len(drv.returned), cksum(drv.returned)]],
                [drv.proto.max_size, high, low])
    return with_driver(body, flow="real")


def _real_size_cases(thorough=True):
    """caller buffers of capacity-1, capacity, capacity+1 and 4x the protocol's own buffer, filled by one read event,
    the reader cancelled around that read event (both orders), then more data and reads to the end"""
    cap = _protocol_class().max_size
    for k in ((cap - 1, cap, cap + 1, 4 * cap) if thorough else (cap - 1, cap, cap + 1)):
        for order in (0, 1):
            race = [[L_BIGDATA, k, 3], [L_CANCEL]] if order == 0 else [[L_CANCEL], [L_BIGDATA, k, 3]]
            labels = [[L_INTO, k]] + race + [[L_TURN], [L_WAKE], [L_BIGDATA, 5000, 9], [L_TURN], [L_WAKE],
                                             [L_RECV, 8 * cap], [L_TURN], [L_WAKE], [L_BIGDATA, 777, 1],
                                             [L_RECV, 8 * cap], [L_TURN], [L_WAKE]]
            out, params_ = replay_flow_real(labels)
            _cache["F" + repr(labels)] = out
            yield dict(input=[7, 2, params_, labels], tags=["flow-control", "real-buffer-size", "capacity-boundary"],
                       nontrivial=True)


def replay_flow(labels):
    """mode 5: small buffer, flow control honoured; -> [[obs, paused] per label, delivered, returned], (max, high, low)"""
    def body(drv):
        low, high = drv.proto._get_read_buffer_limits()
        out = []
        for lab in labels:
            o = drv.do(lab)
            out.append([o, int(drv.transport.paused)])
        return [out, bytes(drv.delivered), bytes(drv.returned)], [drv.proto.max_size, high, low]
    return with_driver(body, flow=True)


def _flow_cases(thorough, rng):
    sizes = [100, 300, 300, 600, 700, 1000, 1100, 2100, 2047, 2048, 2049, 8192]
    ks = [0, 50, 200, 500, 900, 3000, 2047, 2048, 2049, 8192]
    # caller buffers of capacity-1, capacity, capacity+1 and 4x, each filled by ONE read, reader cancelled around that
    # read event (both orders), then more data and a drain
    for k in (2047, 2048, 2049, 8192):
        for order in (0, 1):
            for extra_n in (0, 1, 600):
                big = bytes(i % 251 + 1 for i in range(k))
                race = [[L_DATA, big], [L_CANCEL]] if order == 0 else [[L_CANCEL], [L_DATA, big]]
                labels = [[L_INTO, k]] + race + [[L_TURN], [L_WAKE]]
                if extra_n:
                    labels += [[L_DATA, bytes((i * 7) % 251 + 1 for i in range(extra_n))], [L_TURN], [L_WAKE]]
                labels += [[L_RECV, 100000], [L_TURN], [L_WAKE], [L_DATA, bytes(range(1, 100))], [L_RECV, 100000], [L_TURN], [L_WAKE]]
                out, params_ = replay_flow(labels)
                _cache["f" + repr(labels)] = out
                yield dict(input=[5, 2, params_, labels], tags=["flow-control", "capacity-boundary"], nontrivial=True)
    weights = [(L_RECV, 4), (L_INTO, 4), (L_DATA, 7), (L_EOF, 1), (L_LOST, 1), (L_CANCEL, 2), (L_WAKE, 5), (L_TURN, 5)]
    kinds = [k for k, w in weights for _ in range(w)]
    for _ in range(1200 if thorough else 240):
        labels, pos = [], 0
        for _ in range(rng.randint(6, 16)):
            k = rng.choice(kinds)
            if k in (L_RECV, L_INTO):
                labels.append([k, rng.choice(ks)])
            elif k == L_DATA:
                n = rng.choice(sizes)
                labels.append([k, bytes((pos + i) % 251 + 1 for i in range(n))])
                pos += n
            elif k == L_LOST:
                labels.append([k, rng.randint(0, 1)])
            else:
                labels.append([k])
        labels += [[L_TURN], [L_WAKE], [L_RECV, 4000], [L_TURN], [L_WAKE], [L_DATA, bytes(range(1, 200))], [L_TURN], [L_WAKE]]
        out, params_ = replay_flow(labels)
        _cache["f" + repr(labels)] = out
        paused_seen = any(o[1] for o in out[0])
        resumed = any(a[1] and not b[1] for a, b in zip(out[0], out[0][1:]))
        tags = ["flow-control"] + (["paused"] if paused_seen else []) + (["resumed"] if resumed else []) + \
            (["truncated-read-event"] if any(o[0] and o[0][0] == 4 and o[0][1] < len(lab[1])
                                             for o, lab in zip(out[0], labels) if lab[0] == L_DATA) else [])
        yield dict(input=[5, 2, params_, labels], tags=tags, nontrivial=paused_seen)


# ------------------------------------------------------------------------------------------------ the property
def property_failure(labels, flow=False):
    """The property, stated on the implementation: replay the labels, then read the connection to its end.
    Successful receives must return the delivered stream in order, without loss or duplication; only a reported
    connection error may cut the tail."""
    def body(drv):
        for lab in labels:
            drv.do(lab)
        drv.settle()
        if flow:
            # read until the transport is resumed (a paused transport delivers neither data nor EOF)
            for _ in range(8):
                if not drv.transport.paused or drv.error_seen:
                    break
                if drv.task is None:
                    drv.call(False, 1 << 22)
                drv.settle()
        if not drv.env_lost and not drv.env_eof and not (flow and drv.transport.paused):
            drv.data(b"\xfe")            # something for a still-suspended receive, then a clean end of stream
            drv.settle()
            drv.eof()
        drv.settle()
        for _ in range(8):
            if drv.error_seen or drv.eof_returned:
                break
            if drv.task is None:
                drv.call(False, 1 << 22)
            drv.settle()
        return (bytes(drv.delivered), bytes(drv.returned), set(drv.exposed), drv.error_seen, drv.eof_returned,
                drv.fatal, drv.unexpected, flow and drv.transport.paused and not drv.env_lost)
    delivered, returned, exposed, error_seen, eof_returned, fatal, unexpected, stuck = with_driver(body, flow=flow)
    if fatal:
        return f"UNEXPLAINED: {fatal}: asyncio aborts the connection and the parked bytes are dropped"
    if unexpected:
        return f"UNEXPLAINED: {unexpected}"
    if stuck:
        return "UNEXPLAINED: the transport stays paused although the application has read everything (deadlock)"
    if delivered.startswith(returned) and (error_seen or returned == delivered):
        if not error_seen and not eof_returned:
            return "UNEXPLAINED: the stream was never read to its end (a receive stays suspended after EOF)"
        return None
    # attribute the damage: leftmost embedding of `returned` into `delivered` (delivered bytes are distinct in generated cases)
    missing, pos = [], 0
    subsequence = True
    for b in returned:
        while pos < len(delivered) and delivered[pos] != b:
            missing.append(pos)
            pos += 1
        if pos >= len(delivered):
            subsequence = False
            break
        pos += 1
    tail = list(range(pos, len(delivered)))          # delivered after the last byte any receive returned
    if subsequence and error_seen:
        tail = []                                    # a reported connection error may cut the tail
    missing.extend(tail)
    lost = bytes(delivered[i] for i in missing)
    if subsequence and not missing:
        return None
    if subsequence and missing and all(i in exposed for i in missing):
        return (f"F4: bytes {lost!r} written into the buffer of a recv_into whose task was cancelled before it was "
                f"woken up are lost: delivered {delivered!r}, receives returned {returned!r}")
    if subsequence:
        return (f"UNEXPLAINED: bytes {lost!r} missing: delivered {delivered!r}, receives returned {returned!r} "
                f"(error reported: {error_seen})")
    return (f"UNEXPLAINED: duplicated or reordered: delivered {delivered!r}, receives returned {returned!r} "
            f"(error reported: {error_seen})")


WITNESS_A = [[L_INTO, 8], [L_DATA, b"hello"], [L_CANCEL], [L_TURN], [L_WAKE]]     # read event, then cancel
WITNESS_B = [[L_INTO, 8], [L_CANCEL], [L_DATA, b"hello"], [L_TURN], [L_WAKE]]     # cancel, then read event
_fixed = None


def detect_fixed():
    """True iff neither F4 witness loses anything on the implementation under test."""
    global _fixed
    if _fixed is None:
        fa, fb = property_failure(WITNESS_A), property_failure(WITNESS_B)
        _fixed = fa is None and fb is None
    return _fixed


_corpus_inputs = None


def _is_corpus_input(inp):
    global _corpus_inputs
    if _corpus_inputs is None:
        import json
        from common import sx
        d = os.path.join(runner.VERIF, "corpus", PROPERTY_ID)
        _corpus_inputs = set()
        for f in sorted(os.listdir(d)) if os.path.isdir(d) else []:
            if f.endswith(".json"):
                _corpus_inputs.add(sx.to_text(sx.from_text(json.load(open(os.path.join(d, f)))["input_sx"])))
    from common import sx
    return sx.to_text(inp) in _corpus_inputs


_f4_reported = set()


def oracle(inp):
    failure = _oracle(inp)
    if failure and failure.startswith("F4:"):
        # F4 is reported once per run, through its corpus witnesses (KNOWN-FINDING while it is listed, VIOLATION
        # otherwise); anywhere else a loss that F4 explains completely must not hide a different failure from the
        # runner's search, which stops at the first failing input
        key = repr(inp[2]) if _is_corpus_input(inp) else None
        if key is None or key in _f4_reported:
            return None
        _f4_reported.add(key)
    return failure


def _oracle(inp):
    if inp[0] == 0:
        return property_failure(inp[2])
    if inp[0] in (1, 4):
        return blocking_failure(inp)
    if inp[0] == 5:
        return property_failure(inp[3], flow=True)
    if inp[0] == 7:
        return property_failure(inp[3], flow="real")
    if inp[0] == 3:
        return _oracle([2, 2, None, inp[4]])
    if inp[0] == 6:
        return _oracle([2, 2, None, inp[3]])
    if inp[0] == 2:
        labels, _obs, _delivered, _returned, packets_ok, results = run_scenario(inp[3])
        if not packets_ok:
            return f"UNEXPLAINED: the layer above the transport lost or invented packets: {results!r}"
        return property_failure(labels)
    return None


def signature(inp, failure):
    if failure.startswith("F4:"):
        return KNOWN_SIGNATURE
    return "other:" + failure.split(":")[0]


def shrink(inp):
    if inp[0] == 5:
        labels = inp[3]
        for i in range(len(labels)):
            yield [5, inp[1], inp[2], labels[:i] + labels[i + 1:]]
        return
    if inp[0] != 0:
        return
    labels = inp[2]
    for i in range(len(labels)):
        yield [0, inp[1], labels[:i] + labels[i + 1:]]
    for i, lab in enumerate(labels):
        if lab[0] == L_DATA and len(lab[1]) > 1:
            yield [0, inp[1], labels[:i] + [[L_DATA, lab[1][:-1]]] + labels[i + 1:]]


# ------------------------------------------------------------------------------------------------ cases
_cache = {}


def run_impl(inp):
    if inp[0] == 0:
        key = repr(inp[2])
        if key in _cache:
            return _cache.pop(key)
        return replay(inp[2])
    if inp[0] == 1:
        return run_blocking(inp[1], inp[2], inp[3], inp[4])
    if inp[0] == 4:
        return run_blocking(inp[1], inp[2], inp[3], inp[4], buffered=True)
    if inp[0] == 7:
        key = "F" + repr(inp[3])
        if key in _cache:
            return _cache.pop(key)
        return replay_flow_real(inp[3])[0]
    if inp[0] == 5:
        key = "f" + repr(inp[3])
        if key in _cache:
            return _cache.pop(key)
        out, params_ = replay_flow(inp[3])
        if list(params_) != list(inp[2]):
            raise RuntimeError(f"buffer limits changed: {params_} vs {inp[2]}")
        return out
    if inp[0] == 6:
        key = "t" + repr(runner_norm(inp[3]))
        if key in _cache:
            return _cache.pop(key)[1]
        _labels, _obs, _d, _r, _ok, results = run_scenario(inp[3])
        tlabels, answers, nfed = run_scenario.last_tls
        if [lab[0] for lab in tlabels] != [lab[0] for lab in inp[1]] or runner_norm(answers) != runner_norm(inp[2]):
            raise RuntimeError("the TLS scenario did not reproduce its recorded trace / SSL answers")
        return [_tls_results(results), nfed]
    if inp[0] == 3:
        key = "e" + repr(runner_norm(inp[4]))
        if key in _cache:
            return _cache.pop(key)
        _labels, _obs, _d, _r, _ok, results = run_scenario(inp[4])
        if runner_norm(run_scenario.last_elabels) != runner_norm(inp[3]):
            raise RuntimeError("the scenario did not reproduce its recorded label trace (non-deterministic harness)")
        return _endpoint_results(results)
    if inp[0] == 2:
        key = repr(runner_norm(inp[3]))
        if key in _cache:
            return _cache.pop(key)
        labels, out = _scenario_output(inp[3])
        if runner_norm(labels) != runner_norm(inp[2]):
            raise RuntimeError("the scenario did not reproduce its recorded label trace (non-deterministic harness)")
        return out
    raise ValueError(f"unknown mode {inp[0]}")


def runner_norm(v):
    from common import sx
    return sx.norm(v)


class Bytes:
    """hands out distinct byte values"""

    def __init__(self):
        self.n = 0x41

    def take(self, k):
        out = bytes((self.n + i - 1) % 253 + 1 for i in range(k))
        self.n += k
        return out


def concretise(shape):
    """shape: labels with data sizes -> labels with distinct payload bytes"""
    gen = Bytes()
    return [[L_DATA, gen.take(lab[1])] if lab[0] == L_DATA else list(lab) for lab in shape]


SUFFIX_SHAPE = [[L_TURN], [L_WAKE], [L_DATA, 2], [L_TURN], [L_WAKE], [L_RECV, 64], [L_TURN], [L_WAKE],
                [L_INTO, 64], [L_TURN], [L_WAKE]]
ALPHABET = [[L_RECV, 2], [L_INTO, 2], [L_DATA, 1], [L_DATA, 3], [L_EOF], [L_LOST, 0], [L_LOST, 1], [L_CANCEL],
            [L_WAKE], [L_TURN]]


def _tags(shape, obs):
    tags = {f"len{len(shape)}"}
    in_flight = False
    cancel_in_flight = False
    nontrivial = False
    window = False      # a cancellation request and a read event between one suspension and its wake-up
    saw_data = saw_cancel = False
    for lab, o in zip(shape, obs):
        k = lab[0]
        if k in (L_RECV, L_INTO):
            if o == [] and not in_flight:
                in_flight = True
                saw_data = saw_cancel = False
                into = k == L_INTO
            elif o == [3]:
                tags.add("busy-probe")
        elif k == L_CANCEL and o == []:
            tags.add("cancel")
            nontrivial = True
            saw_cancel = True
        elif k == L_DATA and o != DISABLED and in_flight:
            saw_data = True
            tags.add("data-in-flight")
        elif k in (L_EOF, L_LOST) and o == [] and in_flight:
            tags.add("eof-in-flight" if k == L_EOF else "lost-in-flight")
            nontrivial = True
        if in_flight and saw_data and saw_cancel:
            tags.add("cancel+data-in-one-window" + ("-recv_into" if into else "-recv"))
        if o and o[0] in (0, 1, 2) and k in (L_WAKE, L_TURN):
            in_flight = False
        if o and o[0] == 1:
            tags.add("cancelled-result")
        if o and o[0] == 2:
            tags.add("error-result")
    return sorted(tags), nontrivial


def _enumerate(depth, alphabet=None, min_len=1):
    """DFS over label shapes; a label the implementation reports as disabled prunes the branch."""
    out = []
    alphabet = alphabet or ALPHABET

    def rec(prefix):
        if prefix:
            labels = concretise(prefix + SUFFIX_SHAPE)
            res = replay(labels)
            obs = res[0][:len(prefix)]
            if obs[-1] == DISABLED:
                return
            if len(prefix) >= min_len:
                out.append((prefix, labels, res))
        if len(prefix) >= depth:
            return
        for lab in alphabet:
            rec(prefix + [lab])
    rec([])
    return out


def cases(tier, rng, escalate):
    thorough = tier == "thorough" or escalate
    depth = int(os.environ.get("VERIF_C10_DEPTH", "5" if thorough else "4"))
    seen = set()
    race = [[L_INTO, 2], [L_DATA, 3], [L_CANCEL], [L_WAKE], [L_TURN]]
    plans = [(depth, ALPHABET, 1, "exhaustive"), (7 if thorough else 6, race, depth + 1, "exhaustive-race-alphabet")]
    if thorough:
        plans.append((6, race + [[L_RECV, 2]], depth + 1, "exhaustive-race-alphabet+recv"))
    for d, alphabet, min_len, tag in plans:
        for shape, labels, res in _enumerate(d, alphabet, min_len):
            key = repr(labels)
            if key in seen:
                continue
            seen.add(key)
            tags, nontrivial = _tags(shape, res[0])
            _cache[key] = res
            yield dict(input=[0, 2, labels], tags=["proto", tag] + tags, nontrivial=nontrivial)
    n_random = 6000 if thorough else 1500
    weights = [(L_RECV, 3), (L_INTO, 4), (L_DATA, 5), (L_EOF, 1), (L_LOST, 1), (L_CANCEL, 4), (L_WAKE, 5), (L_TURN, 5)]
    kinds = [k for k, w in weights for _ in range(w)]
    for _ in range(n_random):
        shape = []
        for _ in range(rng.randint(8, 24)):
            k = rng.choice(kinds)
            if k in (L_RECV, L_INTO):
                shape.append([k, rng.choice([0, 1, 2, 3, 5, 9])])
            elif k == L_DATA:
                shape.append([k, rng.randint(1, 9)])
            elif k == L_LOST:
                shape.append([k, rng.randint(0, 1)])
            else:
                shape.append([k])
        labels = concretise(shape + SUFFIX_SHAPE)
        res = replay(labels)
        tags, nontrivial = _tags(shape, res[0])
        _cache[repr(labels)] = res
        yield dict(input=[0, 2, labels], tags=["proto", "random"] + tags, nontrivial=nontrivial)
    yield from _mode2_cases(thorough, rng)
    yield from _flow_cases(thorough, rng)
    yield from _real_size_cases(thorough)
    for inp, origin in _blocking_cases(thorough, rng):
        has_timeout = any(e[0] == 2 for e in inp[4]) or any(inp[3])
        yield dict(input=inp, tags=["blocking", origin] + (["timeout-event"] if has_timeout else []), nontrivial=has_timeout)
        yield dict(input=[4] + inp[1:], tags=["blocking-buffered", origin] + (["timeout-event"] if has_timeout else []),
                   nontrivial=has_timeout)


# =====================================================================================================================
# mode 2: higher layers on the ORDINARY event loop (DetLoop: BaseEventLoop._run_once, real timers, virtual clock).
#   The protocol-level label trace of the run is RECORDED (receive calls and their completion, read events, EOF,
#   task.cancel() on the reader while it is inside a receive, iteration boundaries) and replayed by the model.
#   input = [2, fx, recorded_labels, scenario]; scenario = [layer, consumer, cancel_kind, late_feed, ops, events]
#     layer       0 AsyncStreamEndpoint.recv_packet | 1 server request receiver .next(timeout) | 2 TLS over the adapter
#     consumer    0 StreamProtocol (recv) | 1 BufferedStreamProtocol (recv_into)
#     cancel_kind 0 backend.timeout(d) | 1 backend.move_on_after(d) | 2 task.cancel() by another task
#     ops         [[delay_before, budget], ...]   one receive attempt each; times in quarter-nanosecond-free units:
#                 a time is [ticks, sub] = ticks * 1.0 s + sub * 0.25 ns (sub orders callbacks inside one iteration,
#                 because the loop runs every timer due within its 1 ns clock resolution in deadline order)
#     events      [[time, kind, payload]]   kind 0 data | 1 eof
# =====================================================================================================================
SUB = 0.25e-9
SEP = b"\n"


def _t(time):
    return time[0] * 1.0 + time[1] * SUB


class Recorder:
    def __init__(self, loop):
        self.loop = loop
        self.labels = []
        self.obs = []
        self.last_steps = loop.steps
        self.reader = None
        self.in_receive = False
        self.call_steps = -1
        self.call_buf = None
        self.stray_cancels = 0
        self.delivered = bytearray()
        self.returned = bytearray()

    def _turns(self):
        d = self.loop.steps - self.last_steps
        self.labels.extend([[L_TURN]] * min(d, 2))
        self.last_steps = self.loop.steps

    def event(self, label, obs=None):
        self._turns()
        self.labels.append(label)
        if obs:
            self.obs.append(obs)

    def call(self, into, k):
        self.event([L_INTO if into else L_RECV, k])
        self.reader = asyncio.current_task()
        self.in_receive = True
        self.call_steps = self.loop.steps
        if getattr(self.reader, "_must_cancel", False):
            # a cancellation requested while the task was running: it takes effect at the first suspension
            self.labels.append([L_CANCEL])

    def done(self, obs):
        self.in_receive = False
        if self.loop.steps == self.call_steps:
            self.obs.append(obs)            # returned / raised without suspending: outcome of the call label
        else:
            self.event([L_WAKE], obs)
        if obs[0] == 0:
            self.returned += obs[1]


def _rec_protocol_class():
    base = _protocol_class()

    class RecProtocol(base):
        __slots__ = ("rec", "env_exc")

        async def receive_data(self, bufsize, /):
            self.rec.call(False, bufsize)
            try:
                data = await super().receive_data(bufsize)
            except BaseException as exc:  # noqa: BLE001
                self.rec.done(_exc_obs(exc, self.env_exc))
                raise
            self.rec.done([0, bytes(data)])
            return data

        async def receive_data_into(self, buffer, /):
            with memoryview(buffer) as view:
                k = view.nbytes
            self.rec.call(True, k)
            try:
                n = await super().receive_data_into(buffer)
            except BaseException as exc:  # noqa: BLE001
                self.rec.done(_exc_obs(exc, self.env_exc))
                raise
            with memoryview(buffer) as view:
                self.rec.done([0, bytes(view.cast("B")[:n])])
            return n

    return RecProtocol


def _exc_obs(exc, env_exc):
    if isinstance(exc, asyncio.CancelledError):
        return [1]
    if exc is env_exc:
        return [2, 0]
    if isinstance(exc, OSError) and exc.errno == errno.ECONNRESET:
        return [2, 1]
    if isinstance(exc, RuntimeError):
        return [3]
    return [9, zlib.crc32(type(exc).__name__.encode()) & 0xFFFF]


class _FakeSocket:
    family = 2
    type = 1
    proto = 0

    def fileno(self):
        return -1

    def getsockname(self):
        return ("127.0.0.1", 1)

    def getpeername(self):
        return ("127.0.0.1", 2)


class WireTransport(asyncio.Transport):
    """what the adapter sees below it: a write-only sink plus the flags it asks for"""

    def __init__(self, loop, proto):
        super().__init__(extra={"socket": _FakeSocket()})
        self.loop, self.proto = loop, proto
        self.closing = False
        self.written = bytearray()
        self.on_write = None

    def set_write_buffer_limits(self, high=None, low=None):
        pass

    def get_write_buffer_size(self):
        return 0

    def is_closing(self):
        return self.closing

    def can_write_eof(self):
        return True

    def write_eof(self):
        pass

    def write(self, data):
        self.written += data
        if self.on_write:
            self.on_write(bytes(data))

    def writelines(self, chunks):
        for c in chunks:
            self.write(c)

    def close(self):
        if not self.closing:
            self.closing = True
            self.loop.call_soon(self.proto.connection_lost, None)

    abort = close

    def pause_reading(self):
        raise AssertionError("pause_reading() called: read flow control is outside the C10 model")

    def resume_reading(self):
        raise AssertionError("resume_reading() called")


class Feeder:
    """plays the selector transport: delivers scripted bytes through get_buffer()/buffer_updated()"""

    def __init__(self, loop, proto, rec):
        self.loop, self.proto, self.rec = loop, proto, rec
        self.backlog = bytearray()       # bytes the kernel still holds (a read event takes what fits)
        self.eof_pending = False
        self.eof_done = False

    def push(self, payload):
        self.backlog += payload
        self._read_ready()

    def push_eof(self):
        self.eof_pending = True
        self._read_ready()

    def _read_ready(self):
        if self.eof_done:
            return
        if self.backlog:
            payload = bytes(self.backlog)
            buf = self.proto.get_buffer(-1)
            with memoryview(buf) as view:
                room = view.nbytes
                n = min(room, len(payload))
                view[:n] = payload[:n]
            del self.backlog[:n]
            self.rec.delivered += payload[:n]
            self.rec.event([L_DATA, payload], [4, n, room])
            self.proto.buffer_updated(n)
            if self.backlog or self.eof_pending:
                self.loop.call_soon(self._read_ready)      # level-triggered: still readable in the next iteration
        elif self.eof_pending:
            self.eof_done = True
            self.rec.event([L_EOF])
            self.proto.eof_received()


def _make_protocols(consumer):
    from common import streamcase as sc
    from easynetwork.protocol import BufferedStreamProtocol, StreamProtocol
    ser = sc.IdAutoSep(SEP, 64)
    return BufferedStreamProtocol(ser) if consumer == 1 else StreamProtocol(ser)


def frames_of(data: bytes):
    parts = bytes(data).split(SEP)
    return parts[:-1]


def run_scenario(scenario):
    """-> (recorded labels, significant observations, delivered, returned, packets_ok, attempt results)"""
    layer, consumer, cancel_kind, late_feed, ops, events = scenario[:6]
    from easynetwork.lowlevel.api_async.backend._asyncio.backend import AsyncIOBackend
    from easynetwork.lowlevel.api_async.backend._asyncio.stream.socket import AsyncioTransportStreamSocketAdapter
    out = {}

    with detloop.running(max_steps=20000) as loop:
        rec = Recorder(loop)

        class RecTask(asyncio.Task):
            def cancel(self, msg=None):
                if rec.reader is self or rec.reader is None:
                    if rec.in_receive and rec.reader is self:
                        rec.event([L_CANCEL])
                    elif self is out.get("consumer_task"):
                        rec.stray_cancels += 1
                return super().cancel(msg)

        loop.set_task_factory(lambda lp, coro, **kw: RecTask(coro, loop=lp, **kw))

        async def main():
            backend = AsyncIOBackend()
            proto = _rec_protocol_class()(loop=loop)
            proto.rec = rec
            proto.env_exc = None
            wire = WireTransport(loop, proto)
            proto.connection_made(wire)
            adapter = AsyncioTransportStreamSocketAdapter(backend, wire, proto)
            feeder = Feeder(loop, proto, rec)
            results = []
            packets = []

            def schedule_events():
                if layer == 5:
                    # once the first receive is suspended in the transport, before any data arrives
                    loop.call_at(t0 + 0.25, out["start_senders"])
                for time, kind, payload in events:
                    if kind == 0 and layer in (2, 3, 5):
                        cb = (lambda p=payload: deliver_plain(p))
                    else:
                        cb = (lambda p=payload: feeder.push(p)) if kind == 0 else feeder.push_eof
                    loop.call_at(t0 + _t(time), cb)

            sent_plain = bytearray()
            attempt_task, attempt_k, started = [None], [0], [False]
            if layer in (2, 3, 5):
                import tlskit
                from easynetwork.lowlevel.api_async.transports.tls import AsyncTLSStreamTransport
                version = tlskit.TLS13 if consumer == 1 else tlskit.TLS12
                peer = TlsPeer(version)

                def on_write(data):
                    reply = peer.feed(data)
                    if reply:
                        loop.call_soon(feeder.push, reply)
                wire.on_write = on_write
                gate = asyncio.Event()
                gate.set()
                lower = (_checkpointing_lower(adapter, backend) if layer == 3
                         else _checkpointing_lower(adapter, backend, gate) if layer == 5 else adapter)
                out["ssl_answers"] = ssl_answers = []
                rec.event([L_TLSOP, 0])
                tls = await AsyncTLSStreamTransport.wrap(lower, RecSSLContext(tlskit.client_ctx(version), ssl_answers),
                                                         server_hostname="localhost",
                                                         server_side=False, standard_compatible=False)
                out["handshake_labels"] = len(rec.labels)
                senders = []
                if layer == 5:
                    # back-pressure below: one send_all() is parked in the lower transport with the send lock held, a
                    # second one waits for the lock with its ciphertext pending in the outgoing BIO
                    def start_senders():
                        gate.clear()
                        senders.append(loop.create_task(tls.send_all(b"ping1\n")))
                        senders.append(loop.create_task(tls.send_all(b"ping2\n")))
                    out["start_senders"] = start_senders
                    from easynetwork.lowlevel.api_async.endpoints.stream import AsyncStreamEndpoint
                    ep5 = AsyncStreamEndpoint(tls, _make_protocols(consumer), max_recv_size=64)

                async def receive(timeout):
                    started[0] = True
                    if layer == 5:
                        return bytes(await ep5.recv_packet())     # recv() / recv_into() of the TLS transport underneath
                    rec.event([L_TLSOP, 64])
                    if consumer == 1 and layer == 3:
                        buf = bytearray(64)
                        n = await tls.recv_into(buf)
                        data = bytes(buf[:n])
                    else:
                        data = await tls.recv(64)
                    if not data:
                        raise ConnectionAbortedError(errno.ECONNABORTED, "end of TLS stream")
                    return bytes(data)

                def deliver_plain(payload):
                    sent_plain.extend(payload)
                    feeder.push(peer.encrypt(payload))
                    if cancel_kind == 4:
                        _cancel_after(loop, attempt_task, attempt_k[0])
            else:
                inner_receive = _receive_fn(layer, consumer, backend, adapter, packets)

                async def receive(timeout):
                    rec.event([L_RECVPKT])
                    return await inner_receive(timeout)
            t0 = loop.time()

            async def attempt(budget):
                """one receive attempt limited by `budget`; -> [0, pkt] | [1] timed out / moved on / cancelled | [2] closed"""
                try:
                    if cancel_kind == 0:
                        with backend.timeout(_t(budget)):
                            return [0, await receive(None)]
                    if cancel_kind == 1:
                        with backend.move_on_after(_t(budget)) as scope:
                            return [0, await receive(None)]
                        assert scope.cancelled_caught()
                        return [1]
                    if cancel_kind in (3, 5):
                        return [0, await receive(_t(budget))]       # the receiver's / iterator's own timeout parameter
                    if cancel_kind == 4:
                        # task.cancel() `budget[0]` loop iterations after every read event, whatever the task is doing
                        started[0] = False
                        task = loop.create_task(receive(None))
                        attempt_task[0], attempt_k[0] = task, budget[0]
                        try:
                            return [0, await task]
                        except asyncio.CancelledError:
                            if not task.cancelled():
                                raise
                            return [1] if started[0] else [5]      # [5]: cancelled before its first step, nothing ran
                        finally:
                            attempt_task[0] = None
                    task = loop.create_task(receive(None))

                    def cancel_if_receiving():
                        if rec.in_receive and rec.reader is task:
                            task.cancel()
                    handle = loop.call_at(loop.time() + _t(budget), cancel_if_receiving)
                    try:
                        return [0, await task]
                    except asyncio.CancelledError:
                        if not task.cancelled():
                            raise
                        return [1]
                    finally:
                        handle.cancel()
                except TimeoutError:
                    return [1]
                except ConnectionAbortedError:
                    return [2]
                except StopAsyncIteration:
                    return [2] if layer != 4 else [1]      # the iterator ends the same way on timeout and on EOF
                except OSError as exc:          # e.g. ssl.SSLError after ciphertext went missing
                    import ssl as _ssl
                    return [4] if isinstance(exc, _ssl.SSLError) else [3, exc.errno or 0]

            async def consume():
                if late_feed:
                    loop.call_soon(schedule_events)
                for delay, budget in ops:
                    if _t(delay) > 0:
                        await asyncio.sleep(_t(delay))
                    results.append(await attempt(budget))
                # read the rest without any limit: everything delivered must come out
                if layer == 5:
                    gate.set()             # the back-pressure ends
                if not any(kind == 1 for _, kind, _ in events):
                    last = max([_t(time) for time, _, _ in events] + [0.0])
                    loop.call_at(max(loop.time(), t0 + last) + 1.0, feeder.push_eof)
                while True:
                    try:
                        results.append([0, await receive(None)])
                    except (ConnectionAbortedError, StopAsyncIteration):
                        results.append([2])
                        break
                    except OSError as exc:
                        import ssl as _ssl
                        results.append([4] if isinstance(exc, _ssl.SSLError) else [3, exc.errno or 0])
                        break

            if not late_feed:
                schedule_events()
            out["consumer_task"] = consumer_task = loop.create_task(consume())
            await consumer_task
            if layer == 5:
                gate.set()
                await asyncio.gather(*senders, return_exceptions=True)
            with contextlib.suppress(Exception):
                await (tls.aclose() if layer in (2, 3, 5) else adapter.aclose())
            out["results"] = results
            out["sent_plain"] = bytes(sent_plain)
            out["packets"] = packets

        loop.run_until_complete(main())
        rec._turns()

    got = [r[1] for r in out["results"] if r[0] == 0]
    if layer == 5:
        # the endpoint over TLS must hand out every packet the peer wrote, whatever timed out on the way
        packets_ok = 1 if got == frames_of(out["sent_plain"]) or not detect_fixed() else 0
    elif layer in (2, 3):
        # The scenario reads the TLS stream to its end.  On the repaired protocol nothing may be missing: every plaintext
        # byte the peer wrote comes out, in order, whatever was cancelled on the way (an SSLError or an early EOF after a
        # cancelled receive is a failure).  On the pre-fix protocol (F4) lost ciphertext legitimately breaks the session.
        plain = b"".join(got)
        if detect_fixed():
            packets_ok = 1 if plain == out["sent_plain"] else 0
        else:
            complete = plain == out["sent_plain"] or rec.returned != rec.delivered or any(r[0] in (3, 4) for r in out["results"])
            packets_ok = 1 if out["sent_plain"].startswith(plain) and complete else 0
    else:
        packets_ok = 1 if got == frames_of(rec.returned) else 0
    labels = [lab for lab in rec.labels if lab[0] not in (L_RECVPKT, L_TLSOP)]
    out["elabels"] = [lab for lab in rec.labels if lab[0] not in (L_RECV, L_INTO, L_TLSOP)]
    run_scenario.last_tls = ([lab for lab in rec.labels if lab[0] not in (L_RECV, L_INTO, L_RECVPKT)],
                             out.get("ssl_answers", []), len(rec.returned))
    run_scenario.last_elabels = out["elabels"]
    return labels, rec.obs, bytes(rec.delivered), bytes(rec.returned), packets_ok, out["results"]


def _receive_fn(layer, consumer, backend, adapter, packets):
    """-> async fn(timeout) returning one packet (bytes) of the layer under test"""
    if layer == 0:
        from easynetwork.lowlevel.api_async.endpoints.stream import AsyncStreamEndpoint
        ep = AsyncStreamEndpoint(adapter, _make_protocols(consumer), max_recv_size=8)

        async def receive(timeout):
            return bytes(await ep.recv_packet())
        return receive
    if layer == 4:
        from easynetwork.clients._iter import AsyncClientRecvIterator
        from easynetwork.lowlevel.api_async.endpoints.stream import AsyncStreamEndpoint
        ep4 = AsyncStreamEndpoint(adapter, _make_protocols(consumer), max_recv_size=8)

        class _Client:
            """what AsyncClientRecvIterator needs from a client: backend() and recv_packet()"""

            def backend(self):
                return backend

            async def recv_packet(self):
                return await ep4.recv_packet()

        client = _Client()

        async def receive(timeout):
            if timeout is None:
                return bytes(await ep4.recv_packet())
            # one __anext__ of iter_received_packets(timeout=...)
            it = AsyncClientRecvIterator(client, timeout)
            return bytes(await it.__anext__())
        return receive
    if layer == 1:
        from easynetwork.lowlevel import _stream
        from easynetwork.lowlevel._asyncgen import SendAction, ThrowAction
        from easynetwork.lowlevel.api_async.servers import stream as srv
        protocol = _make_protocols(consumer)
        if consumer == 1:
            receiver = srv._BufferedRequestReceiver(transport=adapter,
                                                   consumer=_stream.BufferedStreamDataConsumer(protocol, 8),
                                                   disconnect_error_filter=None)
        else:
            receiver = srv._RequestReceiver(transport=adapter, consumer=_stream.StreamDataConsumer(protocol),
                                            max_recv_size=8, disconnect_error_filter=None)

        async def receive(timeout):
            action = await receiver.next(timeout)
            if isinstance(action, SendAction):
                return bytes(action.value)
            assert isinstance(action, ThrowAction)
            raise action.exception
        return receive
    raise ValueError(f"layer {layer}")


def _cancel_after(loop, task_box, k):
    """task.cancel() on the attempt in flight, k loop iterations from now"""
    def step(n):
        if n > 0:
            loop.call_soon(step, n - 1)
        elif task_box[0] is not None and not task_box[0].done():
            task_box[0].cancel()
    loop.call_soon(step, k)


def _checkpointing_lower(adapter, backend, gate=None):
    from easynetwork.lowlevel.api_async.transports.abc import AsyncStreamTransport

    class CheckpointingTransport(AsyncStreamTransport):
        """pass-through over the socket adapter whose send_all() executes a checkpoint first"""

        async def aclose(self):
            await adapter.aclose()

        def is_closing(self):
            return adapter.is_closing()

        async def recv(self, bufsize):
            return await adapter.recv(bufsize)

        async def recv_into(self, buffer):
            return await adapter.recv_into(buffer)

        async def send_all(self, data):
            if gate is not None:
                await gate.wait()          # back-pressure: parked until the harness opens the gate
            else:
                await backend.coro_yield()
            await adapter.send_all(data)

        async def send_eof(self):
            await adapter.send_eof()

        def backend(self):
            return backend

        @property
        def extra_attributes(self):
            return adapter.extra_attributes

    return CheckpointingTransport()


class RecSSLContext:
    """stands for the SSLContext given to AsyncTLSStreamTransport.wrap(): the SSL object it creates logs what it answers"""

    def __init__(self, real, log):
        self.real, self.log = real, log

    def wrap_bio(self, *args, **kwargs):
        return RecSSLObject(self.real.wrap_bio(*args, **kwargs), self.log)


class RecSSLObject:
    def __init__(self, real, log):
        self._real, self._log = real, log

    def __getattr__(self, name):
        return getattr(self._real, name)

    def _answer(self, fn, *args, buffer=None):
        import ssl
        from easynetwork.lowlevel import _utils
        try:
            res = fn(*args)
        except ssl.SSLWantReadError:
            self._log.append([1])
            raise
        except ssl.SSLWantWriteError:
            raise
        except ssl.SSLZeroReturnError:
            self._log.append([2])
            raise
        except ssl.SSLError as exc:
            self._log.append([2] if _utils.is_ssl_eof_error(exc) else [3])
            raise
        if buffer is not None:
            with memoryview(buffer) as view:
                self._log.append([0, bytes(view.cast("B")[:res])])
        else:
            self._log.append([0, bytes(res) if isinstance(res, (bytes, bytearray)) else b""])
        return res

    def do_handshake(self):
        return self._answer(self._real.do_handshake)

    def read(self, nbytes, buffer=None):
        if buffer is None:
            return self._answer(self._real.read, nbytes)
        return self._answer(self._real.read, nbytes, buffer, buffer=buffer)


class TlsPeer:
    """the remote end: an independent stdlib ssl.SSLObject (server side) over two MemoryBIOs, pumped by the harness"""

    def __init__(self, version):
        import ssl
        import tlskit
        self.ssl = ssl
        self.inc, self.out = ssl.MemoryBIO(), ssl.MemoryBIO()
        self.obj = tlskit.server_ctx(version).wrap_bio(self.inc, self.out, server_side=True)
        self.handshaken = False

    def feed(self, data):
        self.inc.write(data)
        if not self.handshaken:
            try:
                self.obj.do_handshake()
                self.handshaken = True
            except (self.ssl.SSLWantReadError, self.ssl.SSLWantWriteError):
                pass
        else:
            with contextlib.suppress(self.ssl.SSLError):
                self.obj.read(65536)
        return self.out.read()

    def encrypt(self, plaintext):
        self.obj.write(plaintext)
        return self.out.read()


def _canon_bytes(start, n):
    return bytes((i % 251) + 1 for i in range(start, start + n))


def canonicalise(labels, obs, delivered, returned):
    """TLS ciphertext differs from run to run; the protocol layer never looks at contents, so rename the bytes by
    their position in the delivered stream (data labels start where the previous read event stopped; returned chunks
    are located in the delivered stream left to right)."""
    labels2, obs2 = [], []
    pos = 0
    it = iter(obs)
    accepted_after = {}
    # data labels and their [4, n, room] observation come in the same order
    data_obs = [o for o in obs if o[0] == 4]
    k = 0
    for lab in labels:
        if lab[0] == L_DATA:
            labels2.append([L_DATA, _canon_bytes(pos, len(lab[1]))])
            pos += data_obs[k][1]
            k += 1
        else:
            labels2.append(lab)
    search = 0
    for o in obs:
        if o[0] == 0 and o[1]:
            at = delivered.find(o[1], search)
            if at < 0:
                at = delivered.find(o[1])
            if at < 0:
                obs2.append(o)
                continue
            obs2.append([0, _canon_bytes(at, len(o[1]))])
            search = at + len(o[1])
        else:
            obs2.append(o)
    returned2 = b"".join(o[1] for o in obs2 if o[0] == 0)
    return labels2, obs2, _canon_bytes(0, len(delivered)), returned2


def _canon_tls_labels(tlabels):
    """ciphertext differs from run to run: rename the bytes of every read event by position (sizes are what matters)"""
    out, pos = [], 0
    for lab in tlabels:
        if lab[0] == L_DATA:
            out.append([L_DATA, _canon_bytes(pos, len(lab[1]))])
            pos += len(lab[1])
        else:
            out.append(lab)
    return out


def _tls_results(results):
    """handshake + attempt results in the vocabulary of Run/C10.v mode 6"""
    out = [[0, b""]]
    for r in results:
        if r[0] == 0:
            out.append([0, r[1]])
        elif r[0] in (1, 2, 4):
            out.append([r[0]])
        elif r[0] != 5:
            out.append([3, 9])
    return out


def _endpoint_results(results):
    """attempt results in the vocabulary of Run/C10.v mode 3"""
    out = []
    for r in results:
        if r[0] == 0:
            out.append([0, r[1]])
        elif r[0] in (1, 2):
            out.append([r[0]])
        else:
            out.append([3, 9])
    return out


_last_results = [None]


def _scenario_output(scenario):
    labels, obs, delivered, returned, packets_ok, _results = run_scenario(scenario)
    _last_results[0] = _results
    if scenario[0] in (2, 3, 5):
        labels, obs, delivered, returned = canonicalise(labels, obs, delivered, returned)
    return labels, [obs, delivered, returned, packets_ok]


def _window_tags(labels):
    """which orders of {read event, cancellation} occur between one suspension and its wake-up in a recorded trace"""
    tags = set()
    in_flight, seen = False, []
    for lab in labels:
        k = lab[0]
        if k in (L_RECV, L_INTO):
            in_flight, seen, into = True, [], k == L_INTO
        elif k == L_WAKE:
            if in_flight and L_DATA in seen and L_CANCEL in seen:
                order = "data-then-cancel" if seen.index(L_DATA) < seen.index(L_CANCEL) else "cancel-then-data"
                tags.add(f"window:{order}:" + ("recv_into" if into else "recv"))
            in_flight = False
        elif in_flight and k in (L_DATA, L_CANCEL, L_EOF):
            seen.append(k)
    return tags


def _scenario_cases(thorough, rng):
    streams = [[b"AB\nC", b"D\nEF\n"], [b"AB\n", b"CD\nEF\n"], [b"AB\nCD\nE", b"F\n"]]
    subs = (-1, 0, 1)
    combos = [(0, 0, 0), (0, 0, 1), (0, 0, 2), (0, 1, 0), (0, 1, 1), (0, 1, 2),
              (1, 0, 0), (1, 0, 3), (1, 1, 0), (1, 1, 3), (1, 1, 2), (1, 0, 1)]
    ops = [[[0, 0], [1, 0]]] * 3
    for consumer, cancel_kind in ((0, 0), (1, 0), (1, 2), (0, 1)):          # TLS 1.2 / 1.3 over the adapter
        for chunks in streams[:2]:
            for s1 in subs:
                for s2 in subs:
                    events = [[[1, s1], 0, chunks[0]], [[2, s2], 0, chunks[1]]]
                    yield [2, consumer, cancel_kind, 0, ops, events], "grid"
    # AsyncClientRecvIterator.__anext__ (iter_received_packets): its timeout, incl. 0 with packets already in the consumer
    for consumer in (0, 1):
        for first in ([1, 0], [0, 0]):
            for budgets in ([[0, 0]] * 4, [[0, 0], [1, 0], [0, 0], [0, 0]], [[1, 0]] * 4):
                for at in ([0, 0], [1, -1], [1, 0], [1, 1]):
                    events = [[at, 0, b"A\nB\nC\nD\n"], [[3, 0], 0, b"EF\nG"], [[4, 0], 0, b"H\n"]]
                    ops_i = [[[0, 0], first]] + [[[0, 0], b] for b in budgets]
                    yield [4, consumer, 5, 0, ops_i, events], "grid"
    # the endpoint (recv -> tls.recv, buffered -> tls.recv_into) over TLS while two send_all() are held back below (one
    # parked in the lower transport with the send lock, one waiting for the lock with ciphertext pending): a receive that
    # has its plaintext must return it at once, not queue behind them until its deadline
    for consumer in (0, 1):
        for ck in (0, 1):
            for chunks in ([b"AB\nC", b"D\nEF\n"], [b"AB\n", b"CD\nEF\n"]):
                for s1 in subs:
                    events = [[[1, s1], 0, chunks[0]], [[3, 0], 0, chunks[1]], [[6, 0], 1, b""]]
                    yield [5, consumer, ck, 0, [[[0, 0], [2, 0]]] * 3, events], "grid"
    # TLS over a lower transport whose send_all() is a checkpoint (as trio's streams, or the adapter under write flow
    # control): a cancellation k loop iterations after a read event can land inside tls.recv()/recv_into() after the
    # plaintext left the SSL object
    for consumer in (0, 1):
        for k in range(0, 6):
            for chunks in ([b"hello ", b"world"], [b"AB\nC", b"D\nEF\n"]):
                events = [[[1, 0], 0, chunks[0]], [[2, 0], 0, chunks[1]], [[3, 0], 1, b""]]
                yield [3, consumer, 4, 0, [[[0, 0], [k, 0]]] * 3, events], "grid"
    for layer, consumer, cancel_kind in combos:
        for late in (0, 1):
            for chunks in streams:
                for s1 in subs:
                    for s2 in subs:
                        events = [[[1, s1], 0, chunks[0]], [[2, s2], 0, chunks[1]]]
                        yield [layer, consumer, cancel_kind, late, ops, events], "grid"
    n_random = 1500 if thorough else 300
    for _ in range(n_random):
        layer, consumer, cancel_kind = rng.choice(combos)
        nframes = rng.randint(2, 5)
        stream = b"".join(bytes(rng.choice(b"abcdefgh") for _ in range(rng.randint(1, 4))) + SEP for _ in range(nframes))
        cuts = sorted({rng.randrange(1, len(stream)) for _ in range(rng.randint(1, 4))})
        pieces = [stream[a:b] for a, b in zip([0] + cuts, cuts + [len(stream)])]
        events, tick = [], 0
        for piece in pieces:
            tick += rng.choice([0, 1, 1, 2])
            events.append([[tick, rng.choice(subs)], 0, piece])
        if rng.random() < 0.3:
            events.append([[tick + rng.choice([0, 1]), 1], 1, b""])
        ops_r = [[[rng.choice([0, 0, 1]), 0], [rng.choice([0, 1, 1, 2]), 0]] for _ in range(rng.randint(1, 5))]
        yield [layer, consumer, cancel_kind, rng.randint(0, 1), ops_r, events], "random"


LAYER_NAMES = {0: "endpoint", 1: "server-receiver", 2: "tls", 3: "tls-over-checkpointing-transport",
               4: "client-recv-iterator", 5: "endpoint-over-tls-with-send-backpressure"}
CANCEL_NAMES = {0: "timeout", 1: "move_on_after", 2: "task-cancel", 3: "receiver-timeout-arg",
                4: "task-cancel-k-iterations-after-read-event", 5: "iterator-timeout"}


def _mode2_cases(thorough, rng):
    for scenario, origin in _scenario_cases(thorough, rng):
        labels, out = _scenario_output(scenario)
        _cache[repr(runner_norm(scenario))] = out
        tags = ["layer", origin, LAYER_NAMES[scenario[0]],
                ("tls1.3" if scenario[1] else "tls1.2") if scenario[0] in (2, 3) else "buffered" if scenario[1] else "copying",
                CANCEL_NAMES[scenario[2]]] + sorted(_window_tags(labels))
        if out[1] != out[2] and not any(o[0] == 2 for o in out[0]):
            tags.append("bytes-lost")
        yield dict(input=[2, 2, labels, scenario], tags=tags, nontrivial=any(lab[0] == L_CANCEL for lab in labels))
        if scenario[0] in (2, 3) and detect_fixed():
            tlabels, answers, nfed = run_scenario.last_tls
            tlabels = _canon_tls_labels(tlabels)
            tout = [_tls_results(_last_results[0]), nfed]
            _cache["t" + repr(runner_norm(scenario))] = (tlabels, tout)
            yield dict(input=[6, tlabels, answers, scenario], tags=["tls-retry-loop-model"] + tags[1:],
                       nontrivial=any(lab[0] == L_CANCEL for lab in labels))
        if scenario[0] not in (2, 3, 4, 5) and detect_fixed():
            # the composed model Conc/SockEndpoint.v (receive loop + repaired protocol) against the same run
            results = _last_results[0]
            elabels = run_scenario.last_elabels
            _cache["e" + repr(runner_norm(scenario))] = _endpoint_results(results)
            size = 8
            yield dict(input=[3, scenario[1], size, elabels, scenario],
                       tags=["composed-endpoint-model"] + tags[1:],
                       nontrivial=any(lab[0] == L_CANCEL for lab in labels))


# =====================================================================================================================
# mode 1: the blocking half — StreamEndpoint.recv_packet(timeout=...) (lowlevel/api_sync/endpoints/stream.py) over a
# scripted transport; fixed-size records so that the consumer of the model is three lines (Conc/BlockRecv.fx_next).
#   input = [1, size, bufsize, calls, events]; call = 1 (timeout=0) | 0 (timeout=1.0);
#   event = [0, chunk, expired] | [1] eof | [2] the transport raises TimeoutError
# =====================================================================================================================
class _OracleExhausted(Exception):
    pass


def run_blocking(size, bufsize, calls, events, buffered=False):
    import time as _time
    from common import streamcase as sc
    from easynetwork.lowlevel.api_sync.endpoints.stream import StreamReceiverEndpoint
    from easynetwork.lowlevel.api_sync.transports.abc import StreamReadTransport
    from easynetwork.protocol import BufferedStreamProtocol, StreamProtocol

    clock = [1000.0]
    script = collections.deque(events)

    class Scripted(StreamReadTransport):
        def __init__(self):
            super().__init__()
            self.closed = False

        def is_closed(self):
            return self.closed

        def close(self):
            self.closed = True

        @property
        def extra_attributes(self):
            return {}

        def recv_into(self, buffer, timeout):
            with memoryview(buffer) as view:
                try:
                    data = self.recv(view.nbytes, timeout)
                except AssertionError:
                    raise _OracleExhausted() from None      # the scripted chunk does not fit the view: meaningless script
                view[:len(data)] = data
                return len(data)

        def recv(self, bufsize_, timeout):
            if not script:
                raise _OracleExhausted()
            ev = script.popleft()
            if ev[0] == 2:
                if timeout != float("inf"):
                    clock[0] += timeout
                raise TimeoutError("scripted")
            if ev[0] == 1:
                return b""
            assert 0 < len(ev[1]) <= bufsize_, "a transport returns between 1 and bufsize bytes"
            run_blocking.handed += bytes(ev[1])
            if ev[2] and timeout != float("inf"):
                clock[0] += timeout
            return bytes(ev[1])

    run_blocking.handed = b""
    saved = _time.perf_counter
    _time.perf_counter = lambda: clock[0]
    try:
        proto = BufferedStreamProtocol(sc.IdFixed(size)) if buffered else StreamProtocol(sc.IdFixed(size))
        ep = StreamReceiverEndpoint(Scripted(), proto, max_recv_size=bufsize)
        results = []
        for tz in calls:
            try:
                results.append([0, bytes(ep.recv_packet(timeout=0 if tz else 1.0))])
            except TimeoutError:
                results.append([1])
            except ConnectionAbortedError:
                results.append([2])
            except _OracleExhausted:
                results.append([9])
        ep.close()
        return results
    finally:
        _time.perf_counter = saved


def _blocking_cases(thorough, rng):
    # exhaustive small scope: size 2, bufsize 2, stream of 4 distinct bytes, every chunking into 1-2 byte chunks,
    # a timeout event / expired flag at every position, call histories of 0/1 flags
    n = 0
    stream = b"wxyz"
    for cuts in itertools.product((0, 1), repeat=3):
        chunks, cur = [], stream[:1]
        for i, c in enumerate(cuts):
            if c or len(cur) == 2:
                chunks.append(cur)
                cur = b""
            cur += stream[i + 1:i + 2]
        chunks.append(cur)
        base = [[0, ch, 0] for ch in chunks]
        variants = [base + [[1]]]
        for i in range(len(base) + 1):
            variants.append(base[:i] + [[2]] + base[i:] + [[1]])
        for i in range(len(base)):
            variants.append([[0, e[1], 1 if j == i else 0] for j, e in enumerate(base)] + [[2], [1]])
        for evs in variants:
            for calls in itertools.product((0, 1), repeat=3):
                full = list(calls) + [0, 0, 0]
                yield [1, 2, 2, full, evs], "exhaustive"
                n += 1
    for _ in range(2000 if thorough else 400):
        size = rng.choice([1, 2, 3])
        bufsize = rng.choice([1, 2, 3, 4])
        total = rng.randint(0, 9)
        data = bytes(rng.sample(range(65, 120), total))
        evs, pos = [], 0
        while pos < len(data):
            k = rng.randint(1, bufsize)
            evs.append([0, data[pos:pos + k], int(rng.random() < 0.25)])
            pos += k
            if rng.random() < 0.3:
                evs.append([2])
        if rng.random() < 0.7:
            evs.append([1])
        calls = [int(rng.random() < 0.4) for _ in range(rng.randint(1, 8))]
        yield [1, size, bufsize, calls, evs], "random"


def blocking_failure(inp):
    """The blocking half of the property on the implementation: packets come out in stream order, none lost, whatever
    the TimeoutErrors in between."""
    _, size, bufsize, calls, events = inp[:5]
    results = run_blocking(size, bufsize, calls, events, buffered=(inp[0] == 4))
    consumed = run_blocking.handed          # what the scripted transport really handed over
    got = b"".join(r[1] for r in results if r[0] == 0)
    if not consumed.startswith(got):
        return f"UNEXPLAINED: blocking receive returned {got!r}, the transport delivered {consumed!r}"
    return None
