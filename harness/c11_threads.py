"""C11 / C04: lock discipline of the blocking clients under REAL threads (part of the C11 driver).

One real TCPNetworkClient / UDPNetworkClient (real threading.Lock objects) on a loopback socket whose client end is a
socket.socket subclass with GATED send()/recv(): a call that reaches the socket parks there until the history releases
it (returning data / accepting the data, or raising ConnectionResetError).  A history is a list of labels
(coq/IO/ClientLocks.v): Start k m T | Grant k | GiveUp k | Finish k ok.  Every thread is joined under a watchdog.

Real timeouts: T=0 -> 0; finite T -> 0.08 s when the history makes the call give up, 600 s when it is granted or never
waits; None -> None.  Nothing is decided by a delay: the client's locks are real threading.Lock objects behind a proxy
(InstrumentedLock) that reports when a call is about to block on them, so after a Start / Grant the harness waits on an
explicit condition -- the thread has finished, has parked in its body, or is blocking on a lock (SETTLE / WATCHDOG are
generous upper bounds for a loaded machine).
Observables: [enabled flags (all 1), [[k, [0, code] | [1] | [2]] ...] final state of every call, send lock free, recv lock free].
"""
from __future__ import annotations

import socket as _socket
import threading
import time

import iosim

SETTLE = 60.0        # upper bound only: the harness waits on explicit conditions (finished / parked / blocking on a lock)
WATCHDOG = 90.0


class Gates:
    def __init__(self):
        self.parked = {}     # call id -> Event set when the call reached the socket
        self.release = {}    # call id -> Event
        self.ok = {}

    def for_call(self, k):
        if k not in self.parked:
            self.parked[k] = threading.Event()
            self.release[k] = threading.Event()
            self.ok[k] = True
        return k


def _current_call():
    name = threading.current_thread().name
    return int(name[5:]) if name.startswith("call-") else None


class GatedSocket(_socket.socket):
    gates: Gates
    dgram = False

    def _park(self):
        k = _current_call()
        if k is None:
            return True
        g = self.gates
        g.for_call(k)
        g.parked[k].set()
        if not g.release[k].wait(300.0):
            raise TimeoutError("gate never released (harness)")
        return g.ok[k]

    def send(self, data, *flags):
        if not self._park():
            raise ConnectionResetError(104, "scripted ECONNRESET")
        return len(memoryview(data).cast("B"))

    def sendmsg(self, buffers, *a):
        bufs = [bytes(b) for b in buffers]
        if not self._park():
            raise ConnectionResetError(104, "scripted ECONNRESET")
        return sum(map(len, bufs))

    def recv(self, bufsize, *flags):
        if not self._park():
            raise ConnectionResetError(104, "scripted ECONNRESET")
        return b"\x01"

    def recv_into(self, buffer, nbytes=0, *flags):
        if not self._park():
            raise ConnectionResetError(104, "scripted ECONNRESET")
        with memoryview(buffer) as mv, mv.cast("B") as mv:
            mv[0:1] = b"\x01"
        return 1


class InstrumentedLock:
    """The client's real threading.Lock behind a thin proxy that tells the harness when a call is about to BLOCK on it
    (so that "waiting for a lock" is an observed condition, not a guess after a delay)."""

    def __init__(self, name, blocked):
        self.real = threading.Lock()
        self.name = name
        self.blocked = blocked          # call id -> lock name it is (or was last) blocked on

    owner = None        # call id (or "main") of the last successful acquire that has not been released

    def _got(self):
        k = _current_call()
        self.owner = "main" if k is None else k
        return True

    def acquire(self, blocking=True, timeout=-1):
        if not blocking:
            return self.real.acquire(False) and self._got()
        if self.real.acquire(False):
            return self._got()
        k = _current_call()
        if k is not None:
            self.blocked[k] = self.name
        try:
            return self.real.acquire(True, timeout) and self._got()
        finally:
            if k is not None:
                self.blocked.pop(k, None)

    def release(self):
        self.owner = None
        self.real.release()

    def force_open(self):
        """tear-down only: break open a lock that nobody will release"""
        try:
            self.owner = None
            self.real.release()
        except RuntimeError:
            pass

    def locked(self):
        return self.real.locked()

    def __enter__(self):
        self.acquire()
        return self

    def __exit__(self, *a):
        self.release()


class _Box:
    def __init__(self, lock):
        self.lock = lock

    def get(self):
        return self.lock


_tcp_listener = None


def _make_client(kind, gates, blocked):
    global _tcp_listener
    import c11
    if kind == 0:
        from easynetwork.clients.tcp import TCPNetworkClient
        if _tcp_listener is None:
            _tcp_listener = _socket.socket(_socket.AF_INET, _socket.SOCK_STREAM)
            _tcp_listener.bind(("127.0.0.1", 0))
            _tcp_listener.listen(16)
        c = GatedSocket(_socket.AF_INET, _socket.SOCK_STREAM)
        c.gates = gates
        _socket.socket.connect(c, _tcp_listener.getsockname())
        peer, _ = _tcp_listener.accept()
        client = TCPNetworkClient(c, c11.fixed_protocol(1), max_recv_size=16, retry_interval=1.0)
        locks = (InstrumentedLock("send", blocked), InstrumentedLock("receive", blocked))
        client._TCPNetworkClient__send_lock = _Box(locks[0])
        client._TCPNetworkClient__receive_lock = _Box(locks[1])
        return client, peer, locks
    from easynetwork.clients.udp import UDPNetworkClient
    from easynetwork.protocol import DatagramProtocol
    from easynetwork.serializers.abc import AbstractPacketSerializer

    class Raw(AbstractPacketSerializer):
        def serialize(self, packet):
            return bytes(packet)

        def deserialize(self, data):
            return bytes(data)

    a = GatedSocket(_socket.AF_INET, _socket.SOCK_DGRAM)
    a.gates = gates
    b = _socket.socket(_socket.AF_INET, _socket.SOCK_DGRAM)
    a.bind(("127.0.0.1", 0))
    b.bind(("127.0.0.1", 0))
    _socket.socket.connect(a, b.getsockname())
    client = UDPNetworkClient(a, DatagramProtocol(Raw()), retry_interval=1.0)
    locks = (InstrumentedLock("send", blocked), InstrumentedLock("receive", blocked))
    client._UDPNetworkClient__send_lock = _Box(locks[0])
    client._UDPNetworkClient__receive_lock = _Box(locks[1])
    return client, b, locks


def run(inp):
    labels, kind = inp[1], inp[2]
    gates = Gates()
    blocked = {}
    client, peer, (send_lock, recv_lock) = _make_client(kind, gates, blocked)
    threads, results, order = {}, {}, []
    gives_up = {lb[1] for lb in labels if lb[0] == 2}
    trace = []          # after every Start: (k, method, observed state, methods of the calls parked in their body)

    alias = {}          # model call id -> real thread id (two waiters of the same kind are interchangeable)
    kind_of = {}        # model call id -> (method, timeout class)
    waiting = set()     # model ids the harness has seen blocked on a lock

    def real_state(r):
        """[0, code] finished | [1] parked in its body | [2] blocked in a blocking lock acquire | [3] still running"""
        if r in results:
            return [0, results[r]]
        if gates.parked.get(r) is not None and gates.parked[r].is_set() and not gates.release[r].is_set():
            return [1]
        if r in blocked:
            return [2]
        return [3]

    def state_of(k):
        return real_state(alias[k])

    leaks = []

    def leaked(lock):
        """The lock is held although the call that took it has ended: nobody will ever release it."""
        o = lock.owner
        return lock.real.locked() and o is not None and o != "main" and o in results

    def stuck_on_leak(r):
        name = blocked.get(r)
        lock = send_lock if name == "send" else recv_lock if name == "receive" else None
        if lock is not None and leaked(lock):
            note = (r, name, lock.owner)
            if note not in leaks:
                leaks.append(note)
            return True
        return False

    def settle_grant(k, limit):
        """The lock was released: one of the waiters of k's kind gets it; bind that real thread to k."""
        cands = [j for j in waiting if kind_of[j] == kind_of[k]]
        if k not in cands:
            cands.append(k)
        deadline = time.monotonic() + limit
        while time.monotonic() < deadline:
            for j in cands:
                if real_state(alias[j])[0] in (0, 1):       # finished or parked: this one got the lock
                    if j != k:
                        alias[k], alias[j] = alias[j], alias[k]
                    waiting.discard(k)
                    return state_of(k)
            if all(stuck_on_leak(alias[j]) for j in cands):  # the lock was never released: nobody will get it
                return state_of(k)
            time.sleep(0.002)
        return state_of(k)

    def settle(k, limit):
        """Wait until call k has finished, parked in its body, or is observed blocking on a lock."""
        deadline = time.monotonic() + limit
        while time.monotonic() < deadline:
            st = state_of(k)
            if st[0] in (0, 1, 2):
                return st
            time.sleep(0.001)
        return state_of(k)

    def body(k, m, timeout):
        try:
            if m == 0:
                client.send_packet(b"\x07", timeout=timeout)
            elif m == 1:
                client.recv_packet(timeout=timeout)
            else:
                client.is_closed()
            results[k] = 0
        except BaseException as exc:  # noqa: BLE001
            results[k] = iosim.exc_code(exc)

    methods = {}
    try:
        for lb in labels:
            if lb[0] == 0:
                _, k, m, T = lb
                T = iosim.sx_tmo(T)
                gates.for_call(k)
                methods[k] = m
                alias[k] = k
                kind_of[k] = (m, None if T is None else (0 if T == 0 else ("giveup" if k in gives_up else "long")))
                timeout = None if T is None else (0.0 if T == 0 else (-1.0 if T < 0 else (0.08 if k in gives_up else 600.0)))
                th = threading.Thread(target=body, args=(k, m, timeout), name=f"call-{k}", daemon=True)
                threads[k] = th
                order.append(k)
                parked_now = [methods[j] for j in order if j != k and state_of(j) == [1]]
                th.start()
                st = settle(k, SETTLE)
                if st == [2]:
                    waiting.add(k)
                trace.append((k, m, T, st, parked_now))
            elif lb[0] == 1:
                settle_grant(lb[1], WATCHDOG)
            elif lb[0] == 2:
                threads[alias[lb[1]]].join(WATCHDOG)
                waiting.discard(lb[1])
            elif lb[0] == 3:
                _, k, ok = lb
                r = alias[k]
                gates.ok[r] = bool(ok)
                gates.release[r].set()
                deadline = time.monotonic() + WATCHDOG
                while threads[r].is_alive() and time.monotonic() < deadline and not stuck_on_leak(r):
                    threads[r].join(0.01)
        final = [[k, settle(k, WATCHDOG)] for k in order]
        free = [0 if send_lock.locked() else 1, 0 if recv_lock.locked() else 1]
    finally:
        for k in order:
            gates.release[k].set()
        # a lock that nobody will release is broken open so that every thread can leave
        for _ in range(50):
            alive = [k for k in order if threads[k].is_alive()]
            if not alive:
                break
            for lock in (send_lock, recv_lock):
                if leaked(lock) or (lock.real.locked() and all(blocked.get(k) for k in alive)):
                    lock.force_open()
            for k in alive:
                threads[k].join(0.05)
        try:
            if not send_lock.locked():
                client.close()
        except Exception:
            pass
        peer.close()
    run.last_trace = trace
    run.last_leaks = list(leaks)
    return [[1] * len(labels), final, free[0], free[1]]


run.last_trace = []
run.last_leaks = []


# ---- generation: a Python mirror of ClientLocks.step, used ONLY to produce enabled, realisable histories
def gen_history(rng, max_calls):
    LOCK = {0: "s", 1: "r", 2: "s"}
    owner = {"s": None, "r": None}
    phase = {}          # k -> "wait-f" | "wait-inf" | "hold" | "done"
    meth = {}
    tmo_of = {}
    paired = set()       # waiters that share their lock with a waiter of the same kind: they never give up
    paired_block = set()
    labels = []
    ncalls = rng.randint(1, max_calls)
    k = 0
    steps = 0
    while steps < 40:
        steps += 1
        waiting = [c for c in phase if phase[c].startswith("wait")]
        holding = [c for c in phase if phase[c] == "hold"]
        choices = []
        if k < ncalls:
            choices += ["start"] * 3
        if holding:
            choices += ["finish"] * 2
        for c in waiting:
            if phase[c] == "wait-f" and owner[LOCK[meth[c]]] is not None and c not in paired \
                    and not any(w != c and LOCK[meth[w]] == LOCK[meth[c]] for w in waiting):
                choices.append(("giveup", c))
        if not choices:
            break
        ch = rng.choice(choices)
        if ch == "start":
            m = rng.choice([0, 0, 1, 1, 2])
            lk = LOCK[m]
            same = [c for c in waiting if LOCK[meth[c]] == lk]
            if owner[lk] is not None and same:
                # a second waiter on the same lock: which one a real lock wakes first is not determined, so it must be
                # of the SAME kind as the first (same method, same timeout class, neither gives up): interchangeable
                first = same[0]
                if len(same) >= 2 or first in paired_block:
                    T = 0 if m != 2 else None
                    if m == 2:
                        continue
                else:
                    m = meth[first]
                    T = tmo_of[first]
                    if T == 0:
                        continue
                    paired.add(first)
                    paired.add(k)
            else:
                T = rng.choice([0, 5, 5, None]) if m != 2 else None
            meth[k] = m
            tmo_of[k] = T
            labels.append([0, k, m, iosim.tmo_sx(T)])
            if owner[lk] is None:
                if m == 2:
                    phase[k] = "done"
                else:
                    owner[lk] = k
                    phase[k] = "hold"
            elif m != 2 and T == 0:
                phase[k] = "done"
            else:
                phase[k] = "wait-f" if (m != 2 and T is not None) else "wait-inf"
            k += 1
        elif ch == "finish":
            c = rng.choice(holding)
            labels.append([3, c, rng.choice([1, 1, 0])])
            lk = LOCK[meth[c]]
            owner[lk] = None
            phase[c] = "done"
            for w in waiting:
                if LOCK[meth[w]] == lk:          # the real lock hands over at once
                    labels.append([1, w])
                    if meth[w] == 2:
                        phase[w] = "done"        # is_closed releases at once: the next waiter gets the lock too
                        continue
                    owner[lk] = w
                    phase[w] = "hold"
                    break
        else:
            _, c = ch
            labels.append([2, c])
            phase[c] = "done"
    # drain to quiescence
    for _ in range(10):
        holding = [c for c in phase if phase[c] == "hold"]
        if not holding:
            break
        c = holding[0]
        labels.append([3, c, 1])
        lk = LOCK[meth[c]]
        owner[lk] = None
        phase[c] = "done"
        for w in [x for x in phase if phase[x].startswith("wait")]:
            if LOCK[meth[w]] == lk:
                labels.append([1, w])
                if meth[w] == 2:
                    phase[w] = "done"
                    continue
                owner[lk] = w
                phase[w] = "hold"
                break
    return labels
