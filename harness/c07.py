"""C07 — receive buffering is bounded by the configured limit."""
from __future__ import annotations

import itertools

from common import streamcase as sc
from common import streamcase2 as sc2

PROPERTY_ID = "C07"
RUN_MODULE = "Run.C07"
PARAMS_FROM = ["c06"]        # Run.C07 re-exports Run.C06 (raw JSON / file-based framers), which reads Gen/ParamsC06.v
PROPS_FILE = "Props/C07.v"
ALLOWED_AXIOMS = []
ANCHORS = [
    ("src/easynetwork/serializers/tools.py", "GeneratorStreamReader.read_until"),
    ("src/easynetwork/serializers/base_stream.py", "_buffered_readuntil"),
    ("src/easynetwork/serializers/base_stream.py", "AutoSeparatedPacketSerializer.incremental_deserialize"),
    ("src/easynetwork/serializers/base_stream.py", "AutoSeparatedPacketSerializer.buffered_incremental_deserialize"),
    ("src/easynetwork/serializers/base_stream.py", "AutoSeparatedPacketSerializer.create_deserializer_buffer"),
    ("src/easynetwork/serializers/line.py", "StringLineSerializer.incremental_deserialize"),
    ("src/easynetwork/serializers/line.py", "StringLineSerializer.buffered_incremental_deserialize"),
    ("src/easynetwork/exceptions.py", "LimitOverrunError.__init__"),
    ("src/easynetwork/lowlevel/_stream.py", "StreamDataConsumer.next"),
    ("src/easynetwork/lowlevel/_stream.py", "BufferedStreamDataConsumer.next"),
    ("src/easynetwork/lowlevel/_stream.py", "BufferedStreamDataConsumer.get_write_buffer"),
    ("src/easynetwork/serializers/json.py", "_JSONParser.raw_parse"),
    ("src/easynetwork/serializers/json.py", "_JSONParser._split_partial_document"),
    ("src/easynetwork/serializers/base_stream.py", "FileBasedPacketSerializer.__generic_incremental_deserialize"),
    ("src/easynetwork/serializers/base_stream.py", "FileBasedPacketSerializer.__check_file_buffer_limit"),
    ("src/easynetwork/serializers/base_stream.py", "FileBasedPacketSerializer.create_deserializer_buffer"),
]
RULE = ("streams = payload (length 0 .. limit+seplen+R, no separator inside, bytes drawn from the separator's own "
        "alphabet plus fillers) optionally followed by the separator and a short second frame; limits 3..24, "
        "separators of 1-3 bytes incl. self-overlapping ones; copying and buffer-filling consumer (AutoSeparated "
        "test subclass, StringLineSerializer); every chunking for streams <= 10 bytes, all single and double cuts "
        "near the limit boundaries and byte-by-byte feeds beyond. Raw-JSON mode (never-closing arrays/objects/strings, "
        "endless numbers and literals, whitespace) and a file-based test serializer (length-prefixed records whose "
        "announced length never arrives), copying and buffered, lengths 0..limit+R+3, same chunkings. Non-trivial = "
        "payload within seplen+2 of a limit boundary (limit, limit-seplen, limit-1-seplen) or a cut inside/adjacent to "
        "the separator (for JSON/file-based: length within 3 of the limit).")
TRUSTED = ["model of read_until/_buffered_readuntil/LimitOverrunError/consumers hand-written in coq/Frame, coq/Stream"]
ASSUMPTIONS = ["the inner one-shot codec is the identity / ascii check (test subclass) — the limit logic does not depend on it"]

SEPS = [b"\n", b"\r\n", b"aa", b"aba", b"\r", b"abc"]


# ------------------------------------------------------------------ create_deserializer_buffer -> Gen/ParamsC07.v

_ALLOC_SITES = [   # (Coq name, file, class, attribute standing for the second parameter)
    ("autosep_alloc", "serializers/base_stream.py", "AutoSeparatedPacketSerializer", "__limit"),
    ("line_alloc", "serializers/line.py", "StringLineSerializer", "__limit"),
    ("fixed_alloc", "serializers/base_stream.py", "FixedSizePacketSerializer", "__size"),
    ("filebased_alloc", "serializers/base_stream.py", "FileBasedPacketSerializer", "__limit"),
    ("compressor_alloc", "serializers/wrapper/compressor.py", "AbstractCompressorSerializer", None),
]


def _alloc_expr(node, env, attr, where):
    """size expression of create_deserializer_buffer -> Coq term over N (variables: sizehint, param)"""
    import ast
    from common.runner import TranslateError
    if isinstance(node, ast.Name):
        if node.id in env:
            return env[node.id]
        import easynetwork.lowlevel.constants as consts
        v = getattr(consts, node.id, None)
        if isinstance(v, int) and not isinstance(v, bool) and v >= 0:
            return f"{v}%N"
        raise TranslateError(f"{where}: unknown name {node.id}")
    if isinstance(node, ast.Constant) and isinstance(node.value, int) and not isinstance(node.value, bool) and node.value >= 0:
        return f"{node.value}%N"
    if (isinstance(node, ast.Attribute) and isinstance(node.value, ast.Name) and node.value.id == "self"
            and attr is not None and node.attr == attr):
        return "param"
    if (isinstance(node, ast.Call) and isinstance(node.func, ast.Name) and node.func.id in ("min", "max")
            and len(node.args) == 2 and not node.keywords):
        a, b = (_alloc_expr(x, env, attr, where) for x in node.args)
        return f"(N.{node.func.id} {a} {b})"
    if isinstance(node, ast.BinOp) and isinstance(node.op, (ast.Add, ast.Mult)):
        a, b = _alloc_expr(node.left, env, attr, where), _alloc_expr(node.right, env, attr, where)
        return f"(N.{'add' if isinstance(node.op, ast.Add) else 'mul'} {a} {b})"
    raise TranslateError(f"{where}: unsupported size expression {ast.unparse(node)}")


def _alloc_cond(node, env, attr, where):
    import ast
    from common.runner import TranslateError
    ops = {ast.Lt: "<?", ast.LtE: "<=?", ast.Gt: ">?", ast.GtE: ">=?", ast.Eq: "=?"}
    if isinstance(node, ast.Compare) and len(node.ops) == 1 and type(node.ops[0]) in ops:
        a = _alloc_expr(node.left, env, attr, where)
        b = _alloc_expr(node.comparators[0], env, attr, where)
        op = ops[type(node.ops[0])]
        if op == ">?":
            return f"({b} <? {a})"
        if op == ">=?":
            return f"({b} <=? {a})"
        return f"({a} {op} {b})"
    raise TranslateError(f"{where}: unsupported condition {ast.unparse(node)}")


def _alloc_translate(rel, cname, attr):
    """body of create_deserializer_buffer -> Coq term over N (variables sizehint, param); TranslateError when the shape
    is outside the fragment: assignments, `if c: x = e [else: x = e']`, return [memoryview(]bytearray(e)[)]"""
    import ast
    import os
    from common.runner import REPO, TranslateError
    where = f"{cname}.create_deserializer_buffer"
    tree = ast.parse(open(os.path.join(REPO, "src", "easynetwork", rel)).read())
    klass = [n for n in tree.body if isinstance(n, ast.ClassDef) and n.name == cname]
    fns = [n for k in klass for n in k.body if isinstance(n, ast.FunctionDef) and n.name == "create_deserializer_buffer"]
    if len(klass) != 1 or len(fns) != 1:
        raise TranslateError(f"{where}: definition not found")
    fn = fns[0]
    if [a.arg for a in fn.args.posonlyargs + fn.args.args] != ["self", "sizehint"]:
        raise TranslateError(f"{where}: unexpected parameters")
    stmts = [st for st in fn.body
             if not (isinstance(st, ast.Expr) and isinstance(st.value, ast.Constant) and isinstance(st.value.value, str))]
    env = {"sizehint": "sizehint"}

    def assign(st, env):
        if isinstance(st, ast.AnnAssign) and isinstance(st.target, ast.Name) and st.value is not None:
            return st.target.id, _alloc_expr(st.value, env, attr, where)
        if isinstance(st, ast.Assign) and len(st.targets) == 1 and isinstance(st.targets[0], ast.Name):
            return st.targets[0].id, _alloc_expr(st.value, env, attr, where)
        raise TranslateError(f"{where}: unsupported statement {ast.unparse(st)}")

    for st in stmts[:-1]:
        if isinstance(st, ast.If):
            cond = _alloc_cond(st.test, env, attr, where)
            if len(st.body) != 1 or len(st.orelse) > 1:
                raise TranslateError(f"{where}: unsupported if statement")
            name, then = assign(st.body[0], env)
            if st.orelse:
                name2, other = assign(st.orelse[0], env)
                if name2 != name:
                    raise TranslateError(f"{where}: the two branches assign different names")
            elif name in env:
                other = env[name]
            else:
                raise TranslateError(f"{where}: {name} assigned in one branch only")
            env[name] = f"(if {cond} then {then} else {other})"
        else:
            name, val = assign(st, env)
            env[name] = val
    ret = stmts[-1] if stmts else None
    if not isinstance(ret, ast.Return) or ret.value is None:
        raise TranslateError(f"{where}: does not end with a return")
    val = ret.value
    if (isinstance(val, ast.Call) and isinstance(val.func, ast.Name) and val.func.id == "memoryview"
            and len(val.args) == 1 and not val.keywords):
        val = val.args[0]
    if not (isinstance(val, ast.Call) and isinstance(val.func, ast.Name) and val.func.id == "bytearray"
            and len(val.args) == 1 and not val.keywords):
        raise TranslateError(f"{where}: does not return a bytearray(size) / memoryview(bytearray(size))")
    return ast.unparse(ret), _alloc_expr(val.args[0], env, attr, where)


_ALLOC_CANONICAL = {   # what the models allocate (Frame/BufReadUntil.v balloc, Frame/Generic.v fb_alloc / cz_alloc)
    "autosep_alloc": ("param", lambda h, p: p),
    "line_alloc": ("param", lambda h, p: p),
    "fixed_alloc": ("(N.max param sizehint)", lambda h, p: max(p, h)),
    "filebased_alloc": ("(N.min sizehint param)", lambda h, p: min(h, p)),
    "compressor_alloc": ("sizehint", lambda h, p: h),
}


def _alloc_real(name, h, p):
    """size of the buffer the real serializer allocates for size hint h and limit / record size p"""
    if name == "autosep_alloc":
        ser = sc.IdAutoSep(b"\n", p)
    elif name == "line_alloc":
        from easynetwork.serializers.line import StringLineSerializer
        ser = StringLineSerializer("LF", limit=p)
    elif name == "fixed_alloc":
        ser = sc.IdFixed(p)
    elif name == "filebased_alloc":
        ser = sc2.LenPrefixed(p)
    else:
        from easynetwork.serializers.wrapper.compressor import ZlibCompressorSerializer
        ser = ZlibCompressorSerializer(sc.BytesPassThrough())
    with memoryview(ser.create_deserializer_buffer(h)) as mv:
        return mv.nbytes


_ALLOC_GRID = [(h, p) for h in (1, 2, 64, 4096, 16383, 16384, 16385, 65536, 300000)
               for p in (1, 2, 3, 100, 16384, 20000, 65536, 65537, 250000)]


def params():
    """How many bytes each buffered serializer allocates for its receive buffer, as Coq functions of (sizehint, limit or
    packet size).  Translated from the bodies of create_deserializer_buffer; every definition emitted is also evaluated
    against the real method on a grid of (hint, limit) values.  A body outside the translator's fragment is accepted only
    when the real method agrees with the model's allocation on the whole grid (a behaviour-preserving rewrite then changes
    nothing); otherwise the translation fails closed."""
    from common.runner import TranslateError
    out = ["From Coq Require Import NArith.", "Local Open Scope N_scope."]
    for name, rel, cname, attr in _ALLOC_SITES:
        canon_text, canon_fn = _ALLOC_CANONICAL[name]
        try:
            src, term = _alloc_translate(rel, cname, attr)
            note = f"{rel} {cname}.create_deserializer_buffer: {src}"
        except TranslateError as exc:
            bad = [(h, p) for h, p in _ALLOC_GRID if _alloc_real(name, h, p) != canon_fn(h, p)]
            if bad:
                h, p = bad[0]
                raise TranslateError(f"{exc}; and the real method allocates {_alloc_real(name, h, p)} bytes for "
                                     f"sizehint={h}, limit/size={p} where the model allocates {canon_fn(h, p)}")
            term = canon_text
            note = (f"{rel} {cname}.create_deserializer_buffer: body outside the translator's fragment ({exc}); the real "
                    f"method agrees with this definition on {len(_ALLOC_GRID)} (hint, limit) pairs")
        out.append(f"(* {note} *)")
        out.append(f"Definition {name} (sizehint param : N) : N := {term}.")
    return "\n".join(out) + "\n"


def payload_for(sep: bytes, n: int, rng):
    """n bytes without an occurrence of sep, built mostly from sep's own bytes (worst case for resumed search)."""
    alphabet = bytes(set(sep)) + b"xy"
    out = bytearray()
    while len(out) < n:
        b = rng.choice(alphabet)
        out.append(b)
        if sep in out:
            out[-1] = ord("z")
    return bytes(out)


def mk(kind, sep, limit, keep_end, hint, chunks, impl):
    cfg = [sep, limit, int(keep_end)] + ([hint] if kind == 1 else [])
    dec = 1 if impl[0] in (b"autosep-ascii",) or (impl[0] == b"line" and impl[1] == b"ascii") else 0
    if impl[0] == b"jsonl":      # JSONSerializer(use_lines=True): read_until(b"\n", keep_end=True) + json decoding (tabulated)
        dec = sc.decode_table(0, cfg, impl, b"".join(chunks), "all")
    return [kind, cfg, dec, chunks, impl]


def cases(tier, rng, escalate):
    yield from cases_extra(tier, rng, escalate)
    yield from cases_big(tier, rng, escalate)
    yield from cases_sep(tier, rng, escalate)


def cases_big(tier, rng, escalate):
    """limits above the default receive size (16 KiB) with small and large buffer-size hints: the buffer-filling path
    must still accept a frame just under the limit (its buffer is `limit` bytes whatever the hint) and still bound what
    it holds"""
    thorough = tier == "thorough" or escalate
    limit = 16 * 1024 + rng.choice([300, 616, 1000])
    for sep, impl in ((b"\n", [b"autosep"]), (b"\r\n", [b"line", b"ascii"])):
        seplen = len(sep)
        for kind in (0, 1):
            plans = [(limit - seplen - 1 - rng.randrange(0, 3), True, 4096), (limit + seplen + 4096 + 1, False, 4096)]
            if thorough:
                plans += [(limit - seplen - 2, True, 65536), (limit - seplen - 1, True, 1000)]
            for plen, terminated, R in plans:
                payload = payload_for(sep, plen, rng)
                stream = payload + (sep + b"q" + sep if terminated else b"")
                hint = rng.choice([64, 4096, 65536])
                chunks = [stream[i:i + R] for i in range(0, len(stream), R)]
                yield dict(input=mk(kind, sep, limit, False, hint, chunks, impl),
                           tags=[f"kind{kind}", impl[0].decode(), f"seplen{seplen}", "big-limit",
                                 "terminated" if terminated else "unterminated", "near-boundary"],
                           nontrivial=True)


def cases_sep(tier, rng, escalate):
    thorough = tier == "thorough"
    # an edited anchor function (escalate) widens the quick bounds without going to the full thorough enumeration
    limits = [3, 4, 5, 7, 8, 10, 13, 16, 24] if thorough else ([3, 4, 5, 8, 10, 13, 16] if escalate else [3, 5, 8, 13])
    for sep in SEPS:
        seplen = len(sep)
        for limit in limits:
            impls = [[b"autosep"]]
            if sep in sc.NEWLINES:
                impls.append([b"line", b"ascii"])
            if sep == b"\n":
                impls.append([b"jsonl"])
            for impl, kind in itertools.product(impls, (0, 1)):
                if impl[0] == b"jsonl" and kind == 1:
                    continue            # JSONSerializer has no buffer-filling mode
                keep_ends = (False, True) if impl[0] == b"line" and thorough else (False,)
                if impl[0] == b"jsonl":
                    keep_ends = (True,)
                for keep_end in keep_ends:
                    R = rng.choice([1, 2, 3, 7])
                    for plen in range(0, limit + seplen + R + 3):
                        near = min(abs(plen - b) for b in (limit, limit - seplen, limit - 1 - seplen)) <= seplen + 2
                        if not near and not thorough and rng.random() < 0.6:
                            continue
                        payload = payload_for(sep, plen, rng)
                        for terminated in (True, False):
                            stream = payload + (sep + b"q" + sep if terminated else b"")
                            if not stream:
                                continue
                            chunkings = []
                            if len(stream) <= (10 if thorough else 8 if escalate else 7):
                                chunkings = list(sc.all_chunkings(stream))
                                tag = "all-chunkings"
                            else:
                                tag = "cuts"
                                chunkings.append([stream])
                                chunkings.append([stream[i:i + 1] for i in range(len(stream))])
                                chunkings.append([stream[i:i + R] for i in range(0, len(stream), R)])
                                pts = sorted({p for b in (plen, plen + seplen, limit, limit - seplen, limit - 1)
                                              for p in range(b - 2, b + 3) if 0 < p < len(stream)})
                                for c in pts:
                                    chunkings.append(sc.cuts_to_chunks(stream, [c]))
                                pairs = list(itertools.combinations(pts, 2))
                                rng.shuffle(pairs)
                                for c1, c2 in pairs[: (12 if thorough else 3)]:
                                    chunkings.append(sc.cuts_to_chunks(stream, [c1, c2]))
                            for chunks in chunkings:
                                cut_in_sep = terminated and any(
                                    plen - 1 <= sum(map(len, chunks[:k])) <= plen + seplen for k in range(1, len(chunks)))
                                yield dict(input=mk(kind, sep, limit, keep_end, 64, chunks, impl),
                                           tags=[f"kind{kind}", impl[0].decode(), f"seplen{seplen}", tag,
                                                 "terminated" if terminated else "unterminated",
                                                 "near-boundary" if near else "far"],
                                           nontrivial=bool(near or cut_in_sep))


JSON_UNTERMINATED = [b"[1,", b'"a', b"1", b"nul", b'{"k":[', b" \t", b'["\\"', b"[[", b'{"a":"}]']
JSON_SMALL = [b"[1]", b'{"a":"b"}', b"12 ", b"null\n", b'"x"', b"[[]] "]


def _grow(seed: bytes, n: int) -> bytes:
    """n bytes of a document that never completes, built by repeating the seed's last byte pattern"""
    out = bytearray(seed)
    filler = seed[-1:] if seed[-1:] not in (b'"', b"[", b"{", b",") else (b"a" if seed[-1:] == b'"' else b"1,")
    while len(out) < n:
        out += filler
    return bytes(out[:n])


def cases_extra(tier, rng, escalate):
    thorough = tier == "thorough"
    limits = [3, 5, 8, 13, 24] if thorough else ([3, 4, 6, 9, 13] if escalate else [4, 9])
    for limit in limits:
        R = rng.choice([1, 2, 3, 7])
        # ---- raw JSON (copying only: JSONSerializer has no buffered mode)
        for seed in JSON_UNTERMINATED:
            for n in range(1, limit + R + 4):
                if not thorough and abs(n - limit) > 3 and rng.random() < 0.5:
                    continue
                stream = _grow(seed, n)
                for chunks in _chunkings(stream, R, rng, thorough):
                    yield dict(input=sc2.make_simple_case(4, [limit], [b"jsonraw"], chunks),
                               tags=["kind4", "jsonraw", "unterminated", "near-boundary" if abs(n - limit) <= 3 else "far"],
                               nontrivial=abs(n - limit) <= 3)
        for doc in JSON_SMALL:
            if len(doc) + 2 > limit:
                continue
            stream = doc + rng.choice(JSON_SMALL)
            for chunks in _chunkings(stream, R, rng, thorough):
                yield dict(input=sc2.make_simple_case(4, [limit], [b"jsonraw"], chunks),
                           tags=["kind4", "jsonraw", "terminated"], nontrivial=len(chunks) > 1)
            # a small document followed IN THE SAME READ by whitespace taking document + padding beyond the limit: the
            # padding belongs to no frame, the document must not be rejected for its size
            for pad in (limit - len(doc), limit - len(doc) + 1, limit + 3):
                padding = bytes(rng.choice(b" \n\t\r") for _ in range(max(1, pad)))
                yield dict(input=sc2.make_simple_case(4, [limit], [b"jsonraw"], [doc.rstrip() + padding]),
                           tags=["kind4", "jsonraw", "terminated", "whitespace-padding", "near-boundary"], nontrivial=True)
        # ---- file based (length-prefixed test format): announced length never arrives
        for kind in (5, 6):
            for n in range(1, limit + R + 4):
                if not thorough and abs(n - limit) > 3 and rng.random() < 0.5:
                    continue
                stream = bytes([250]) + bytes(rng.choice(b"abc") for _ in range(n - 1))
                hint = rng.choice([1, 2, 3, 8, 64])
                expected = sc2.FB_EXPECTED_BROAD if rng.random() < 0.35 else sc2.FB_EXPECTED
                cfg = [limit, expected] + ([hint] if kind == 6 else [])
                for chunks in _chunkings(stream, R, rng, thorough):
                    yield dict(input=sc2.make_simple_case(kind, cfg, [b"fb", b"eager"], chunks),
                               tags=[f"kind{kind}", "filebased", "unterminated", "near-boundary" if abs(n - limit) <= 3 else "far",
                                     "expected=Exception" if expected is sc2.FB_EXPECTED_BROAD else "expected=ValueError"],
                               nontrivial=abs(n - limit) <= 3)


def _chunkings(stream, R, rng, thorough):
    if len(stream) <= (9 if thorough else 6):
        return list(sc.all_chunkings(stream))
    out = [[stream], [stream[i:i + 1] for i in range(len(stream))], [stream[i:i + R] for i in range(0, len(stream), R)]]
    for _ in range(6 if thorough else 2):
        out.append(sc.cuts_to_chunks(stream, [rng.randrange(1, len(stream)) for _ in range(rng.randrange(1, 4))]))
    return out


def run_impl(inp):
    return sc2.run_impl(inp) if inp[0] >= 4 else sc.run_impl(inp)


def oracle(inp):
    """The property on the implementation: (a) unterminated data beyond limit + one read + one separator has raised
    a limit error; (b) a frame safely under the limit (payload + separator < limit) is never rejected for its size."""
    kind, cfg, _dec, chunks, impl = inp[:5]
    if kind >= 4:
        return oracle_extra(inp)
    sep, limit = cfg[0], cfg[1]
    seplen = len(sep)
    stream = b"".join(chunks)
    rounds = sc.run_impl(inp)
    if sc.abnormal(rounds):
        return sc.abnormal(rounds)
    events = [e for r in rounds for e in r[1]]
    limit_errors = [e for e in events if e[0] == 1 and e[1] == 0]
    crashed = any(e[0] == 2 for e in events)
    R = max((len(c) for c in chunks), default=0)
    first_sep = stream.find(sep)
    unterminated_len = len(stream) if first_sep < 0 else first_sep
    if first_sep < 0 and unterminated_len > limit + R + seplen and not limit_errors and not crashed:
        return f"{unterminated_len} unterminated bytes held with limit={limit}, read<={R}, seplen={seplen}: no limit error"
    # held buffer never larger than limit + one read + one separator
    for r in rounds:
        held = r[2] if isinstance(r[2], bytes) else (r[2][0] if r[2] else b"")
        if len(held) > limit + R + seplen:
            return f"consumer holds {len(held)} bytes > limit+read+separator"
    # (b) every frame of the stream safely under the limit => no limit error at all
    pos, safe = 0, True
    while True:
        j = stream.find(sep, pos)
        if j < 0:
            safe = safe and (len(stream) - pos) + seplen < limit
            break
        safe = safe and (j - pos) + seplen < limit
        pos = j + seplen
    if safe and limit_errors:
        return f"frame safely under limit={limit} rejected with a limit error"
    return None


def signature(inp, failure):
    return failure.split(":")[0]


def shrink(inp):
    kind, cfg, dec, chunks, impl = inp[:5]
    for i in range(len(chunks) - 1):
        yield [kind, cfg, dec, chunks[:i] + [chunks[i] + chunks[i + 1]] + chunks[i + 2:], impl]


def oracle_extra(inp):
    """raw JSON / file-based: a document that never completes must raise the limit error before more than
    limit + one read (+1) bytes are held; small complete documents are never rejected for their size."""
    kind, cfg, _tabs, chunks, impl = inp[:5]
    limit = cfg[0]
    stream = b"".join(chunks)
    rounds = sc2.run_impl(inp)
    events = [e for r in rounds for e in r[1]]
    limit_errors = [e for e in events if e[0] == 1 and e[1] == 0]
    crashed = any(e[0] == 2 for e in events)
    packets = [e for e in events if e[0] == 0]
    R = max((len(c) for c in chunks), default=0)
    if kind == 4:
        complete = bool(packets) or any(e[0] == 1 and e[1] != 0 for e in events)
        if not complete and len(stream) > limit + R + 1 and not limit_errors and not crashed:
            return f"{len(stream)} bytes of a never-completing JSON document held with limit={limit}, read<={R}: no limit error"
        if all(len(d) + 2 <= limit for d in JSON_SMALL if stream.startswith(d)) and any(stream.startswith(d) for d in JSON_SMALL) \
                and limit_errors and len(stream) + 1 < limit:
            return f"small JSON document rejected with a limit error (limit={limit})"
        if len(chunks) == 1 and limit_errors:
            for d in JSON_SMALL:
                core = d.rstrip()
                if core[:1] in b'[{"' and len(core) <= limit and stream.startswith(core) and not stream[len(core):].strip(b" \t\r\n"):
                    return (f"JSON document of {len(core)} bytes followed in the same read by {len(stream) - len(core)} bytes of "
                            f"whitespace rejected with a limit error (limit={limit})")
    else:
        if stream[:1] == bytes([250]) and len(stream) > limit + R + 1 and not limit_errors and not crashed:
            return f"{len(stream)} bytes of an incomplete record held with limit={limit}, read<={R}: no limit error"
    return None
