"""C02 — parsing depends only on the bytes; a bad frame costs exactly one error; resynchronisation after a size error."""
from __future__ import annotations

import itertools

from common import streamcase as sc
from common import streamcase2 as sc2
import c07

PROPERTY_ID = "C02"
RUN_MODULE = "Run.C02"
PARAMS_FROM = ["c06"]       # Run.C02 dispatches kind 4 (raw JSON) to Run.C06, which reads Gen/ParamsC06.v
PROPS_FILE = "Props/C02.v"
ALLOWED_AXIOMS = []
ANCHORS = c07.ANCHORS + [
    ("src/easynetwork/protocol.py", "StreamProtocol.build_packet_from_chunks"),
    ("src/easynetwork/protocol.py", "BufferedStreamProtocol.build_packet_from_buffer"),
    ("src/easynetwork/lowlevel/_stream.py", "BufferedStreamDataConsumer.__save_remainder_in_buffer"),
    ("src/easynetwork/serializers/json.py", "_JSONParser.raw_parse"),
    ("src/easynetwork/serializers/json.py", "_JSONParser._split_partial_document"),
    ("src/easynetwork/serializers/json.py", "_JSONParser._escaped"),
    ("src/easynetwork/serializers/json.py", "JSONSerializer.incremental_deserialize"),
]
RULE = ("streams of 1-4 frames drawn from {valid, undecodable (a byte >= 128), at-the-limit (payload within +-2 of "
        "limit-1-seplen and of limit), oversized} in every order, optionally followed by an unterminated tail; limits "
        "4..40; separators of 1-3 bytes incl. self-overlapping; AutoSeparated test subclass with an ascii-only "
        "deserialize and StringLineSerializer(ascii); copying and buffer-filling consumer (size hints 1..64); every "
        "chunking of streams <= 10 bytes, every single cut, cut pairs around frame/limit boundaries, byte-by-byte; raw JSON "
        "streams of valid / balanced-but-undecodable documents (limit 200, and limits 10-16 with whitespace runs between the "
        "documents); protocols with a converter (accepted / rejected / undecodable frames, both consumers). "
        "Non-trivial = contains a malformed or unsafe frame followed by a later frame, or a cut inside a separator.")
TRUSTED = c07.TRUSTED
ASSUMPTIONS = ["inner codec = ascii check (decode fails iff a byte >= 128): the framing logic under test does not depend on it",
               "chunk-independence theorems are stated for the safe band payload + separator < limit; resynchronisation after "
               "a size error is a theorem on both paths (resync_after_overrun_copying / _buffered) for a rest within the band"]

KINDS = ("valid", "bad", "atlimit", "over")


def mk_frame(kind, sep, limit, rng):
    seplen = len(sep)
    if kind == "valid":
        n = rng.randrange(0, max(1, min(4, limit - seplen - 1)))
        return c07.payload_for(sep, n, rng)
    if kind == "bad":
        n = rng.randrange(1, max(2, min(4, limit - seplen - 1)))
        p = bytearray(c07.payload_for(sep, n, rng))
        p[rng.randrange(len(p))] = rng.choice([128, 200, 255])
        return bytes(p)
    if kind == "atlimit":
        n = max(0, rng.choice([limit - 1 - seplen, limit - seplen, limit - seplen - 2, limit, limit - 1, limit + 1]))
        return c07.payload_for(sep, n, rng)
    n = limit + seplen + rng.randrange(1, 6)
    return c07.payload_for(sep, n, rng)


JSON_GOOD = [b"[1]", b'{"a":"b"}', b'"x\\"y"', b"12\n", b"null\n", b"[[]]", b'{"k":[1,{"z":"}"}]}', b'"["',
             b"1e+16\n", b"-2.5E-3\n", b"[1e+22]"]
JSON_BAD = [b"[1,]", b'{"a"}', b"[,]", b'{"a":}', b"nul\n", b"[1 2]", b'"\\x"',
            b'{"a":[1}', b'[{"x":1]', b'{"k":[[2}',     # outer bracket closes while an inner one is still open
            b"}", b"]"]                                   # a closing bracket while nothing is open (duplicated bracket)      # balanced for the scanner, rejected by the decoder


def json_cases(tier, rng, escalate):
    """raw JSON, documents within the limit, some of them undecodable: events must be document-by-document decoding"""
    thorough = tier == "thorough" or escalate
    for _ in range(60 if thorough else 12):
        n = rng.choice([1, 2, 3, 4])
        docs = [rng.choice(JSON_BAD if rng.random() < 0.4 else JSON_GOOD) for _ in range(n)]
        stream = b"".join(docs)
        if len(stream) <= (9 if thorough else 7):
            chunkings = list(sc.all_chunkings(stream))
        else:
            chunkings = [[stream], [stream[i:i + 1] for i in range(len(stream))]]
            cuts = list(range(1, len(stream)))
            for c in (cuts if thorough else rng.sample(cuts, min(len(cuts), 10))):
                chunkings.append(sc.cuts_to_chunks(stream, [c]))
            for _k in range(4 if thorough else 2):
                chunkings.append(sc.cuts_to_chunks(stream, [rng.randrange(1, len(stream)) for _ in range(3)]))
        for chunks in chunkings:
            yield dict(input=sc2.make_simple_case(4, [200], [b"jsonraw"], chunks) + [docs],
                       tags=["kind4", "jsonraw", "has-bad-doc" if any(d in JSON_BAD for d in docs) else "all-good"],
                       nontrivial=bool(len(docs) >= 2 and any(d in JSON_BAD for d in docs[:-1])))


WS_GOOD = [b"[1]", b'{"a":1}', b'"x y"', b"12", b"null", b"[[]]", b'"["', b"{}"]
WS_BAD = [b"[1,]", b'{"a"}', b"[,]", b"nul", b"[1 2]"]


def json_ws_cases(tier, rng, escalate):
    """raw JSON with a SMALL limit and runs of whitespace between the documents: every document together with the
    whitespace in front of it is safely within the limit, while a document plus the whitespace that FOLLOWS it may be
    longer than the limit (that whitespace belongs to no frame: it must never count against the document before it)"""
    thorough = tier == "thorough" or escalate
    for _ in range(80 if thorough else 16):
        limit = rng.choice([10, 12, 16])
        n = rng.choice([1, 2, 3])
        docs, stream = [], b""
        for i in range(n):
            d = rng.choice(WS_BAD if rng.random() < 0.3 else WS_GOOD)
            room = limit - 1 - len(d)
            lead = b"" if i == 0 else bytes(rng.choice(b" \n\t\r") for _ in range(rng.randrange(0, room + 1)))
            if d[:1] not in b'[{"' and i > 0 and not lead:
                lead = b" "          # a plain value needs a delimiter in front of it
            stream += lead + d
            if d[:1] not in b'[{"':
                stream += b"\n"      # ... and one behind it
            docs.append(d)
        stream += bytes(rng.choice(b" \n") for _ in range(rng.choice([0, 0, 3, limit - 2])))
        chunkings = [[stream], [stream[i:i + 1] for i in range(len(stream))]]
        cuts = list(range(1, len(stream)))
        for c in (cuts if thorough else rng.sample(cuts, min(len(cuts), 12))):
            chunkings.append(sc.cuts_to_chunks(stream, [c]))
        for _k in range(6 if thorough else 3):
            chunkings.append(sc.cuts_to_chunks(stream, [rng.randrange(1, len(stream)) for _ in range(rng.randrange(2, 5))]))
        for chunks in chunkings:
            yield dict(input=sc2.make_simple_case(4, [limit], [b"jsonraw"], chunks) + [docs],
                       tags=["kind4", "jsonraw", "whitespace-runs", f"limit{limit}",
                             "has-bad-doc" if any(d in WS_BAD for d in docs) else "all-good"],
                       nontrivial=bool(len(docs) >= 2))


def conv_cases(tier, rng, escalate):
    """protocols with a converter (kinds 11/12: StringLineSerializer(ascii) + a converter accepting exactly the non-empty
    digit strings): frames drawn from {digits, rejected by the converter, undecodable}; both receive paths"""
    thorough = tier == "thorough" or escalate
    for sep in (b"\n", b"\r\n"):
        for _ in range(40 if thorough else 8):
            limit = rng.choice([12, 16, 24])
            n = rng.choice([1, 2, 3, 4])
            frames, kinds = [], []
            for _i in range(n):
                k = rng.choice(["digits", "digits", "letters", "empty", "bad"])
                m = rng.randrange(1, min(5, limit - len(sep) - 1))
                if k == "digits":
                    f = bytes(rng.choice(b"0123456789") for _ in range(m))
                elif k == "letters":
                    f = bytes(rng.choice(b"ab 1") for _ in range(m - 1)) + b"x"
                elif k == "empty":
                    f = b""
                else:
                    f = bytes(rng.choice(b"12") for _ in range(m - 1)) + bytes([rng.choice([128, 255])])
                frames.append(f)
                kinds.append(k)
            stream = b"".join(f + sep for f in frames) + rng.choice([b"", b"", b"12"])
            for kind in (11, 12):
                hint = rng.choice([1, 2, 3, 8, 64])
                if len(stream) <= (9 if thorough else 7):
                    chunkings = list(sc.all_chunkings(stream))
                else:
                    chunkings = [[stream], [stream[i:i + 1] for i in range(len(stream))]]
                    cuts = list(range(1, len(stream)))
                    for c in (cuts if thorough else rng.sample(cuts, min(len(cuts), 8))):
                        chunkings.append(sc.cuts_to_chunks(stream, [c]))
                    for _k in range(4 if thorough else 2):
                        chunkings.append(sc.cuts_to_chunks(stream, [rng.randrange(1, len(stream)) for _ in range(3)]))
                for chunks in chunkings:
                    cfg = [sep, limit, 0] + ([hint] if kind == 12 else [])
                    yield dict(input=[kind, cfg, 1, chunks, [b"line", b"ascii"], [k.encode() for k in kinds]],
                               tags=[f"kind{kind}", "converter", f"seplen{len(sep)}", "+".join(sorted(set(kinds)))],
                               nontrivial=bool(n >= 2 and any(k != "digits" for k in kinds[:-1])))


def conv_oracle(inp):
    kind, cfg, _dec, chunks, impl, kinds = inp[:6]
    rounds = sc.run_impl(inp)
    events = [e for r in rounds for e in r[1]]
    got = ["ok" if e[0] == 0 else ("convert" if e[0] == 1 and e[1] == 2 else "decode" if e[0] == 1 and e[1] == 1 else "other")
           for e in events]
    want = [{b"digits": "ok", b"letters": "convert", b"empty": "convert", b"bad": "decode"}[k] for k in kinds]
    if got != want:
        return f"converter protocol: events {got} differ from frame-by-frame decoding {want}"
    return None


def json_decoder_limit_cases(tier, rng, escalate):
    """raw JSON: documents the scanner frames correctly but the DECODER refuses with something other than
    JSONDecodeError (an integer literal beyond the interpreter's digit limit -> ValueError; very deep nesting ->
    RecursionError), well within the size limit, followed by good documents: exactly one parse error, the rest intact"""
    import sys
    thorough = tier == "thorough" or escalate
    digits = (sys.get_int_max_str_digits() or 4300) + 1
    bad_docs = [b"1" * digits + b"\n", b"[" * 3000 + b"]" * 3000]
    limit = 2 * digits + 7000
    for bad in bad_docs:
        for docs in ([bad, b'{"a":1}', b"[2]"], [b"[0]", bad, b'"x"']):
            stream = b"".join(docs)
            chunkings = [[stream], sc.cuts_to_chunks(stream, [len(docs[0])]), sc.cuts_to_chunks(stream, [1, len(stream) - 2])]
            for _k in range(4 if thorough else 1):
                chunkings.append(sc.cuts_to_chunks(stream, [rng.randrange(1, len(stream)) for _ in range(3)]))
            for chunks in chunkings:
                yield dict(input=sc2.make_simple_case(4, [limit], [b"jsonraw"], chunks) + [docs],
                           tags=["kind4", "jsonraw", "decoder-limit", "has-bad-doc"], nontrivial=True)


def cases(tier, rng, escalate):
    yield from json_cases(tier, rng, escalate)
    yield from json_decoder_limit_cases(tier, rng, escalate)
    yield from json_ws_cases(tier, rng, escalate)
    yield from conv_cases(tier, rng, escalate)
    yield from sep_cases(tier, rng, escalate)


def sep_cases(tier, rng, escalate):
    thorough = tier == "thorough" or escalate
    reps = 10 if thorough else 2
    seps = [b"\n", b"\r\n", b"aa", b"aba", b"abc"]
    limits = [4, 6, 9, 12, 20, 40] if thorough else [5, 9, 16]
    for sep, limit in itertools.product(seps, limits):
        if len(sep) + 1 > limit:
            continue
        impls = [[b"autosep-ascii"]] + ([[b"line", b"ascii"]] if sep in sc.NEWLINES else [])
        for impl in impls:
            for nframes in (1, 2, 3, 4):
                combos = list(itertools.product(KINDS, repeat=nframes))
                rng.shuffle(combos)
                for combo in combos[: (reps * 3 if nframes > 1 else 4)]:
                    frames = [mk_frame(k, sep, limit, rng) for k in combo]
                    tail = rng.choice([b"", b"", c07.payload_for(sep, rng.randrange(1, 3), rng)])
                    stream = b"".join(f + sep for f in frames) + tail
                    unsafe = any(k in ("atlimit", "over") for k in combo)
                    interesting = any(k != "valid" for k in combo[:-1]) or (combo[-1] != "valid" and tail)
                    for kind in (0, 1):
                        hint = rng.choice([1, 2, 3, 5, 8, 64])
                        chunkings = []
                        if len(stream) <= (10 if thorough else 8):
                            chunkings = list(sc.all_chunkings(stream))
                            tag = "all-chunkings"
                        else:
                            tag = "cuts"
                            chunkings.append([stream])
                            chunkings.append([stream[i:i + 1] for i in range(len(stream))])
                            bounds, pos = [], 0
                            for f in frames:
                                bounds += [pos + len(f), pos + len(f) + len(sep), pos + limit, pos + limit - len(sep)]
                                pos += len(f) + len(sep)
                            pts = sorted({p for b in bounds for p in range(b - 2, b + 3) if 0 < p < len(stream)})
                            for c in (pts if thorough else rng.sample(pts, min(len(pts), 10))):
                                chunkings.append(sc.cuts_to_chunks(stream, [c]))
                            pairs = list(itertools.combinations(pts, 2))
                            rng.shuffle(pairs)
                            for c1, c2 in pairs[: (10 if thorough else 3)]:
                                chunkings.append(sc.cuts_to_chunks(stream, [c1, c2]))
                        for chunks in chunkings:
                            cfg = [sep, limit, 0] + ([hint] if kind == 1 else [])
                            yield dict(input=[kind, cfg, 1, chunks, impl],
                                       tags=[f"kind{kind}", impl[0].decode(), f"seplen{len(sep)}", tag,
                                             "unsafe" if unsafe else "safe-band", "+".join(sorted(set(combo)))],
                                       nontrivial=bool(interesting or len(chunks) > 1 and unsafe))


def run_impl(inp):
    return sc2.run_impl(inp) if inp[0] == 4 else sc.run_impl(inp)


def json_oracle(inp):
    import json as _json
    chunks, docs = inp[3], inp[5]
    rounds = sc2.run_impl(inp)
    events = [e for r in rounds for e in r[1]]
    got = ["ok" if e[0] == 0 else ("err" if e[0] == 1 and e[1] != 0 else "other") for e in events]
    want = []
    for d in docs:
        try:
            _json.loads(d)
            want.append("ok")
        except (ValueError, RecursionError):
            want.append("err")
    if got != want:
        return f"raw JSON: events {got} differ from document-by-document decoding {want} (docs={docs!r})"
    return None


def oracle(inp):
    if inp[0] == 4:
        return json_oracle(inp)
    if inp[0] in (11, 12):
        return conv_oracle(inp)
    kind, cfg, _dec, chunks, impl = inp[:5]
    sep, limit = cfg[0], cfg[1]
    seplen = len(sep)
    stream = b"".join(chunks)
    rounds = run_impl(inp)
    if sc.abnormal(rounds):
        return sc.abnormal(rounds)
    events = [e for r in rounds for e in r[1]]
    if any(e[0] == 2 for e in events):
        return "consumer crashed with RuntimeError"
    got = [[0, e[1]] if e[0] == 0 else [1, e[1]] for e in events]      # drop the remainder field of errors
    # split into frames
    frames, pos = [], 0
    while True:
        j = stream.find(sep, pos)
        if j < 0:
            break
        frames.append((pos, j))
        pos = j + seplen
    tail_len = len(stream) - pos
    unsafe = [i for i, (a, b) in enumerate(frames) if (b - a) + seplen > limit - 1]
    if tail_len > limit - 2:
        return None     # unterminated tail outside the band: may or may not have raised already
    start = frames[unsafe[-1]][1] + seplen if unsafe else 0
    want, _left = sc.spec_events_py(kind, cfg, impl, stream[start:])
    if not unsafe:
        if got != want:
            return f"safe stream: delivered events differ from frame-by-frame decoding: want={want!r} got={got!r}"
        # the bytes a parse error hands to the application as remaining_data are the received bytes after the bad frame
        received, k = 0, 0
        for r in rounds:
            received += r[0]
            for e in r[1]:
                if e[0] == 1 and k < len(frames):
                    after = frames[k][1] + seplen
                    if bytes(e[2]) != stream[after:received]:
                        return (f"safe stream: the parse error of frame {k} carries remaining_data {bytes(e[2])!r}, "
                                f"the received bytes after that frame are {stream[after:received]!r}")
                k += 1
        return None
    if len(got) < len(want) or got[len(got) - len(want):] != want:
        return (f"after a size-rejected frame delivery did not resume intact with the frame after its terminator: "
                f"want suffix={want!r} got={got!r}")
    far = [i for i in unsafe if frames[i][1] - frames[i][0] > limit]
    if far and not any(e == [1, 0] for e in got):
        return "frame longer than the limit was not rejected with a limit error"
    return None


def signature(inp, failure):
    return failure.split(":")[0]


shrink = c07.shrink
