"""C04, asynchronous transports (part of the C04 driver; imported by c04.run_impl).

impl 3  AsyncioTransportStreamSocketAdapter.send_all_from_iterable on the deterministic loop: a real asyncio socket
        transport over a scripted socket.socket subclass (partial sends, EAGAIN, EINTR).  Observable: the bytes the
        peer reads once asyncio's own buffer has drained (on CPython 3.12 writelines() does not wait, finding F6 of C20).
impl 4  AsyncTLSStreamTransport.send_all_from_iterable with a scripted SSL object (write() answers: accept n,
        SSLWantRead, SSLWantWrite, SSLZeroReturn) over an in-memory transport.  Observable: the plaintext the SSL object
        accepted, outcome.
Both return [outcome, wire, [], 0].
"""
from __future__ import annotations

import asyncio
import ssl

import iosim
from common import detloop


def _bound(chunks, sscript):
    return 10 * (sum(len(c) for c in chunks) + len(sscript) + len(chunks) + 1) + 50


def run_asyncio_adapter(inp):
    from easynetwork.lowlevel.api_async.backend._asyncio.backend import AsyncIOBackend
    from easynetwork.lowlevel.api_async.backend._asyncio.stream.socket import (
        AsyncioTransportStreamSocketAdapter,
        StreamReaderBufferedProtocol,
    )
    import c04

    path, iov, chunks, T, ri, sscript, selscript, impl = inp[:8]
    clock = iosim.Clock()
    script = iosim.SockScript(clock, send=[tuple(a) for a in sscript], bound=_bound(chunks, sscript))
    sock, peer = iosim.make_pair(iosim.ScriptedSocket, script)
    sock.setblocking(False)
    outcome = 0

    async def main(loop):
        nonlocal outcome
        protocol = StreamReaderBufferedProtocol(loop=loop)
        transport = loop._make_socket_transport(sock, protocol)
        await asyncio.sleep(0)
        adapter = AsyncioTransportStreamSocketAdapter(AsyncIOBackend(), transport, protocol)
        try:
            await adapter.send_all_from_iterable(iter(c04._typed(chunks, wide=False)))
            for _ in range(20000):
                if not transport.get_write_buffer_size():
                    break
                await asyncio.sleep(0)
            else:
                outcome = 9
        except BaseException as exc:  # noqa: BLE001
            if isinstance(exc, (KeyboardInterrupt, SystemExit)):
                raise
            outcome = 8 if isinstance(exc, (detloop.DeadlockError, asyncio.CancelledError)) else iosim.exc_code(exc)
        finally:
            transport.abort()
            await asyncio.sleep(0)

    try:
        with iosim.alarm(120.0), detloop.running() as loop:
            loop.set_exception_handler(lambda _l, _c: None)      # asyncio's own log lines are not observables
            try:
                loop.run_until_complete(main(loop))
            except iosim.SpinDetected:
                outcome = 9
            except detloop.DeadlockError:
                outcome = 8
        wire = iosim.drain(peer)
        if wire != bytes(script.accepted):
            outcome = 40
    finally:
        try:
            sock.close()
        except Exception:
            pass
        peer.close()
    return [outcome, wire, [], 0]


class ScriptedSSLObject:
    def __init__(self, script):
        self.script = script
        self.context = None

    def write(self, data):
        sc = self.script
        with memoryview(data) as mv, mv.cast("B") as mv:
            if not sc.send:
                sc.tick(0)
                k = len(mv)
            else:
                kind, n, cost = sc.send.pop(0)
                sc.tick(cost)
                if kind in (1, 2):
                    raise ssl.SSLWantWriteError(ssl.SSL_ERROR_WANT_WRITE, "scripted")
                if kind in (3, 4):
                    raise ssl.SSLWantReadError(ssl.SSL_ERROR_WANT_READ, "scripted")
                if kind == 5:
                    raise ssl.SSLZeroReturnError(ssl.SSL_ERROR_ZERO_RETURN, "scripted")
                k = min(n, len(mv))
            sc.accepted += mv[:k]
            return k

    def getpeercert(self, binary_form=False):
        return None

    def cipher(self):
        return None

    def compression(self):
        return None

    def version(self):
        return None

    def pending(self):
        return 0


def run_async_tls(inp):
    from easynetwork.lowlevel.api_async.backend._asyncio.backend import AsyncIOBackend
    from easynetwork.lowlevel.api_async.transports.abc import AsyncStreamTransport
    from easynetwork.lowlevel.api_async.transports.tls import AsyncTLSStreamTransport
    import c04

    path, iov, chunks, T, ri, sscript, selscript, impl = inp[:8]
    clock = iosim.Clock()
    script = iosim.SockScript(clock, send=[tuple(a) for a in sscript],
                              bound=sum(len(c) for c in chunks) + len(sscript) + len(chunks) + 1)
    backend = AsyncIOBackend()

    class MemTransport(AsyncStreamTransport):
        def __init__(self):
            self.sent = bytearray()
            self.closed = False

        async def aclose(self):
            self.closed = True

        def is_closing(self):
            return self.closed

        def backend(self):
            return backend

        async def recv(self, bufsize):
            await asyncio.sleep(0)
            return b"\x00"

        async def recv_into(self, buffer):
            await asyncio.sleep(0)
            with memoryview(buffer) as mv:
                mv[0:1] = b"\x00"
            return 1

        async def send_all(self, data):
            await asyncio.sleep(0)
            self.sent += bytes(data)

        async def send_eof(self):
            pass

        @property
        def extra_attributes(self):
            return {}

    outcome = 0

    async def main():
        nonlocal outcome
        mem = MemTransport()
        tls = AsyncTLSStreamTransport(_transport=mem, _standard_compatible=True, _shutdown_timeout=1.0,
                                      _ssl_object=ScriptedSSLObject(script), _read_bio=ssl.MemoryBIO(), _write_bio=ssl.MemoryBIO())
        try:
            await tls.send_all_from_iterable(iter(c04._typed(chunks, wide=False)))
        except BaseException as exc:  # noqa: BLE001
            if isinstance(exc, (KeyboardInterrupt, SystemExit)):
                raise
            outcome = 8 if isinstance(exc, (detloop.DeadlockError, asyncio.CancelledError)) else iosim.exc_code(exc)
        finally:
            mem.closed = True

    with iosim.alarm(120.0), detloop.running() as loop:
        try:
            loop.run_until_complete(main())
        except iosim.SpinDetected:
            outcome = 9
        except detloop.DeadlockError:
            outcome = 8
    return [outcome, bytes(script.accepted), [], 0]


def run_adapter_multi(inp):
    """impl 12 (path 10): several send_all / send_all_from_iterable calls, one after the other, on the real adapter."""
    from easynetwork.lowlevel.api_async.backend._asyncio.backend import AsyncIOBackend
    from easynetwork.lowlevel.api_async.backend._asyncio.stream.socket import (
        AsyncioTransportStreamSocketAdapter,
        StreamReaderBufferedProtocol,
    )
    import c04
    import realio

    sends = inp[8]
    datas = [[realio.chunk_bytes(c if isinstance(c, bytes) else tuple(c)) for c in chunks] for _kind, chunks, _k in sends]
    total = sum(len(c) for d in datas for c in d)
    clock = iosim.Clock()
    script = iosim.SockScript(clock, send=[(0, k, 0) if k >= 0 else (5, 0, 0) for _kind, _chunks, k in sends],
                              bound=10 * (total + 3 * len(sends)) + 50)
    sock, peer = iosim.make_pair(iosim.ScriptedSocket, script)
    sock.setblocking(False)
    outcome = 0
    got = bytearray()

    async def main(loop):
        nonlocal outcome
        protocol = StreamReaderBufferedProtocol(loop=loop)
        transport = loop._make_socket_transport(sock, protocol)
        await asyncio.sleep(0)
        adapter = AsyncioTransportStreamSocketAdapter(AsyncIOBackend(), transport, protocol)
        try:
            for (kind, _chunks, _k), data in zip(sends, datas):
                if kind == 0:
                    await adapter.send_all(b"".join(data))
                else:
                    await adapter.send_all_from_iterable(iter(c04._typed(data, wide=False)))
                got.extend(iosim.drain(peer))
            for _ in range(20000):
                if not transport.get_write_buffer_size():
                    break
                await asyncio.sleep(0)
            else:
                outcome = 9
        except BaseException as exc:  # noqa: BLE001
            if isinstance(exc, (KeyboardInterrupt, SystemExit)):
                raise
            outcome = 8 if isinstance(exc, (detloop.DeadlockError, asyncio.CancelledError)) else iosim.exc_code(exc)
        finally:
            transport.abort()
            await asyncio.sleep(0)

    try:
        with iosim.alarm(120.0), detloop.running() as loop:
            loop.set_exception_handler(lambda _l, _c: None)      # asyncio's own log lines are not observables
            try:
                loop.run_until_complete(main(loop))
            except iosim.SpinDetected:
                outcome = 9
            except detloop.DeadlockError:
                outcome = 8
        got.extend(iosim.drain(peer))
        wire = bytes(got)
    finally:
        try:
            sock.close()
        except Exception:
            pass
        peer.close()
    return [outcome, wire, 1 if wire == bytes(script.accepted) else 0, 0]


def run(inp):
    if inp[7] == 12:
        return run_adapter_multi(inp)
    return run_asyncio_adapter(inp) if inp[7] == 3 else run_async_tls(inp)
