"""Generic driver: proofs + correspondence + verdict + evidence for one property module (harness/cXX.py).

Property module interface (all in harness/cXX.py):
    PROPERTY_ID   : "C07"
    RUN_MODULE    : "Run.C07"       Coq module (under coq/) exporting  run : sx -> sx
    PROPS_FILE    : "Props/C07.v"   only `Theorem .. Proof. exact lemma. Qed.` + `Print Assumptions`
    ALLOWED_AXIOMS: []              axiom names tolerated in Print Assumptions output (stdlib ones only)
    ANCHORS       : [(file, qualname)]  functions the model transcribes; digests recorded in the evidence
    RULE          : str             how cases are generated and what makes one non-trivial
    TRUSTED, ASSUMPTIONS : [str]
    params()      : optional -> str  Coq text for coq/Gen/Params<ID>.v regenerated from /repo (raise TranslateError)
    cases(tier, rng, escalate) -> iterable of dict(input=<sx value>, tags=[str], nontrivial=bool)
    run_impl(inp) -> sx value       what the implementation in /repo does on the case (canonicalised)
    oracle(inp)   -> None | str     the property stated directly on the implementation (failure description)
    signature(inp, failure) -> str  optional: signature used to match known_findings.json entries
    shrink(inp)   -> iterable of smaller inputs (optional)
    extra(ctx)    -> optional hook returning dict merged into coverage (may append to ctx.problems)
"""
from __future__ import annotations

import ast
import hashlib
import importlib
import json
import os
import random
import sys
import time
import traceback

from . import coqrun, sx

VERIF = coqrun.VERIF
REPO = os.environ.get("VERIF_REPO", "/repo")


class TranslateError(Exception):
    pass


def anchor_digest(file_rel, qualname):
    path = os.path.join(REPO, file_rel)
    try:
        tree = ast.parse(open(path).read())
    except Exception as exc:  # syntax error in the edited tree
        return f"unparsable:{exc.__class__.__name__}"
    node = tree
    for part in qualname.split("."):
        found = None
        for ch in ast.iter_child_nodes(node):
            if isinstance(ch, (ast.FunctionDef, ast.AsyncFunctionDef, ast.ClassDef)) and ch.name == part:
                found = ch          # keep the LAST definition: @overload stubs come first
                continue
            if found is not None:
                continue
            if isinstance(ch, ast.Assign) and any(isinstance(t, ast.Name) and t.id == part for t in ch.targets):
                found = ch
                break
            if isinstance(ch, ast.AnnAssign) and isinstance(ch.target, ast.Name) and ch.target.id == part:
                found = ch
                break
        if found is None:
            return "missing"
        node = found
    # drop docstrings
    for n in ast.walk(node):
        body = getattr(n, "body", None)
        if isinstance(body, list) and body and isinstance(body[0], ast.Expr) and isinstance(getattr(body[0], "value", None), ast.Constant) \
                and isinstance(body[0].value.value, str):
            n.body = body[1:] or [ast.Pass()]
    return hashlib.sha256(ast.dump(node).encode()).hexdigest()[:16]


def load_known(pid):
    path = os.path.join(VERIF, "known_findings.json")
    if not os.path.exists(path):
        return []
    data = json.load(open(path))
    return [e for e in data.get("findings", []) if e.get("property") == pid and e.get("status") == "known"]


class Ctx:
    def __init__(self, mod, tier, seed):
        self.mod, self.tier, self.seed = mod, tier, seed
        self.pid = mod.PROPERTY_ID
        self.work = os.path.join(coqrun.WORK, f"{self.pid}-{os.getpid()}")     # private to this run
        self.problems = []      # list of dict(kind, detail)   -- broken proof obligations / correspondence
        self.coverage = {}
        self.rng = random.Random(seed)


def _write_params(mod, ctx):
    if not hasattr(mod, "params"):
        return
    rel = f"Gen/Params{mod.PROPERTY_ID}.v"
    path = os.path.join(coqrun.COQ, rel)
    try:
        text = mod.params()
    except TranslateError as exc:
        ctx.problems.append(dict(kind="translator", detail=f"fail-closed translator rejected the source: {exc}"))
        return
    header = "(* REGENERATED from /repo on every run by harness/%s.py -- do not edit *)\n" % mod.PROPERTY_ID.lower()
    text = header + text
    with coqrun.build_lock():
        old = open(path).read() if os.path.exists(path) else None
        if old != text:
            os.makedirs(os.path.dirname(path), exist_ok=True)
            with open(path, "w") as fh:
                fh.write(text)
            ctx.coverage["params_changed"] = old is not None


def _proofs(mod, ctx):
    targets = [mod.RUN_MODULE.replace(".", "/") + ".vo", mod.PROPS_FILE[:-2] + ".vo"]
    ok, log = coqrun.make(targets)
    cov = ctx.coverage
    cov["checker_cmd"] = "coq_makefile -f _CoqProject -o Makefile && make " + " ".join(targets) + \
        " && coqc " + mod.PROPS_FILE + "  (Print Assumptions under every theorem)"
    if not ok:
        ctx.problems.append(dict(kind="proof", detail="Coq build failed", log=log[-3000:]))
        cov["obligations"] = max(1, cov.get("obligations", 1))
        cov["discharged"] = 0
        return False
    res = coqrun.check_props(mod.PROPS_FILE, getattr(mod, "ALLOWED_AXIOMS", ()))
    cov["obligations"] = len(res["theorems"])
    cov["theorems"] = res["theorems"]
    cov["axioms_reported"] = res["axioms"]
    cov["closed_under_global_context"] = res["closed"]
    if not res["ok"]:
        ctx.problems.append(dict(kind="proof", detail="Props file does not check / Print Assumptions missing",
                                 log=res["log"][-3000:]))
        cov["discharged"] = 0
        return False
    if res["unexpected"]:
        ctx.problems.append(dict(kind="proof", detail=f"unexpected axioms: {res['unexpected']}"))
        cov["discharged"] = 0
        return False
    files = coqrun.closure([mod.PROPS_FILE, mod.RUN_MODULE.replace('.', '/') + '.v'])
    cov['coq_files_in_closure'] = [os.path.relpath(f, coqrun.COQ) for f in files]
    bad = coqrun.hygiene(files)
    if bad:
        ctx.problems.append(dict(kind="proof", detail=f"forbidden construct: {bad[:5]}"))
        cov["discharged"] = 0
        return False
    cov["discharged"] = len(res["theorems"])
    if ctx.tier == "thorough" and os.environ.get("VERIF_COQCHK", "1") == "1":
        import subprocess
        lib = "EN." + mod.PROPS_FILE[:-2].replace("/", ".")
        r = subprocess.run(["timeout", "1500", "coqchk", "-silent", "-o", "-Q", coqrun.COQ, "EN", lib],
                           cwd=coqrun.COQ, stdout=subprocess.PIPE, stderr=subprocess.STDOUT, text=True)
        cov["coqchk"] = dict(exit=r.returncode, tail=r.stdout[-1500:])
        if r.returncode != 0:
            ctx.problems.append(dict(kind="proof", detail="coqchk rejected the compiled library", log=r.stdout[-2000:]))
            return False
    return True


def _load_corpus(pid):
    d = os.path.join(VERIF, "corpus", pid)
    out = []
    if os.path.isdir(d):
        for f in sorted(os.listdir(d)):
            if f.endswith(".json"):
                j = json.load(open(os.path.join(d, f)))
                out.append(dict(input=sx.from_text(j["input_sx"]), tags=["corpus:" + f] + j.get("tags", []),
                                nontrivial=True, known=j.get("known_finding")))
    return out


def _save_replay(ctx, name, payload):
    d = os.path.join(VERIF, "replays", ctx.pid)
    os.makedirs(d, exist_ok=True)
    path = os.path.join(d, name)
    with open(path, "w") as fh:
        json.dump(payload, fh, indent=1, default=str)
    return path


def _search_failure(mod, ctx, suspects, all_cases, known_sigs=()):
    """Look for a concrete input on which the property itself fails on the implementation.

    A failure whose signature is a known finding is only kept as a fallback: the search goes on (for a bounded number
    of further cases) for a failure that is NOT a known finding, so that known findings cannot hide a new one.
    Shrinking keeps the signature of the failure it started from."""
    seen = set()
    queue = list(suspects) + list(all_cases)
    tried = 0
    has_sig = hasattr(mod, "signature")
    fallback, budget = None, None

    def sig_of(i, f):
        try:
            return mod.signature(i, f) if has_sig else None
        except Exception:
            return None

    for inp in queue:
        key = sx.to_text(inp)
        if key in seen:
            continue
        seen.add(key)
        tried += 1
        if budget is not None:
            budget -= 1
            if budget < 0:
                break
        try:
            fail = mod.oracle(inp)
        except Exception:
            fail = "oracle crashed: " + traceback.format_exc(limit=3)
        if fail:
            sig0 = sig_of(inp, fail)
            if sig0 is not None and sig0 in known_sigs:
                if fallback is None:
                    fallback, budget = (inp, fail), int(getattr(mod, "SEARCH_BUDGET_AFTER_KNOWN", 6000))
                continue
            # shrink
            best, best_fail = inp, fail
            if hasattr(mod, "shrink"):
                improved = True
                rounds = 0
                while improved and rounds < 200:
                    improved = False
                    rounds += 1
                    for cand in mod.shrink(best):
                        try:
                            f2 = mod.oracle(cand)
                        except Exception:
                            f2 = None
                        if f2 and (not has_sig or sig_of(cand, f2) == sig0):
                            best, best_fail, improved = cand, f2, True
                            break
            return best, best_fail, tried
    if fallback is not None:
        return fallback[0], fallback[1], tried
    return None, None, tried


def run(pid, tier="quick", replay=None):
    t0 = time.time()
    sys.path.insert(0, os.path.join(VERIF, "harness"))
    mod = importlib.import_module(pid.lower())
    seed = int(os.environ.get("VERIF_SEED", "0"))
    ctx = Ctx(mod, tier, seed)
    coqrun.clean_work(ctx.work)
    os.makedirs(ctx.work, exist_ok=True)
    cov = ctx.coverage
    violations = []     # (replay_path, suffix)
    known_lines = []

    digests = {f"{f}:{q}": anchor_digest(f, q) for f, q in getattr(mod, "ANCHORS", [])}
    dpath = os.path.join(VERIF, "meta", "digests", pid + ".json")
    expected = json.load(open(dpath)) if os.path.exists(dpath) else {}
    escalate = bool(expected) and expected != digests
    cov["anchor_digests"] = digests
    cov["anchors_changed"] = sorted(k for k in digests if expected.get(k) not in (None, digests[k]))

    _write_params(mod, ctx)
    for dep in getattr(mod, "PARAMS_FROM", []):     # generated parameter files of models this property reuses
        _write_params(importlib.import_module(dep), ctx)
    proofs_ok = _proofs(mod, ctx) if not ctx.problems else False
    if not proofs_ok and "obligations" not in cov:
        cov["obligations"], cov["discharged"] = 1, 0

    # ---- correspondence
    cases = []
    if replay:
        j = json.load(open(replay))
        cases.append(dict(input=sx.from_text(j["input_sx"]), tags=["replay"], nontrivial=True))
    else:
        cases.extend(_load_corpus(pid))
        try:
            for c in mod.cases(tier, ctx.rng, escalate):
                cases.append(c)
        except Exception:
            ctx.problems.append(dict(kind="harness", detail="case generation crashed: " + traceback.format_exc(limit=5)))
    for c in cases:
        c["input"] = sx.norm(c["input"])
    pairs, impl_errors = [], []
    for c in cases:
        try:
            out = sx.norm(mod.run_impl(c["input"]))
        except Exception:
            out = None
            impl_errors.append((c["input"], traceback.format_exc(limit=4)))
        c["impl"] = out
        if out is not None:
            pairs.append((c["input"], out))
    mism, errors = [], []
    if pairs and not any(p["kind"] in ("translator",) for p in ctx.problems) and \
            os.path.exists(os.path.join(coqrun.COQ, mod.RUN_MODULE.replace(".", "/") + ".vo")):
        # bulk evaluation by the extracted OCaml model when it is available (VERIF_MODEL=vm forces vm_compute for
        # everything); a sample is always evaluated by vm_compute inside coqc, which also validates extraction + driver
        runner_bin = None if os.environ.get("VERIF_MODEL") == "vm" else coqrun.ensure_runner(pid, mod.RUN_MODULE)
        vm_budget = int(os.environ.get("VERIF_VM_SAMPLE", "600" if tier == "quick" else "2000"))
        if runner_bin and len(pairs) > vm_budget:
            mism, errors = coqrun.eval_cases_ml(runner_bin, pairs)
            step_ = max(1, len(pairs) // vm_budget)
            idxs = sorted(set(list(range(0, len(pairs), step_))[:vm_budget] + mism[:50]))
            m2, e2 = coqrun.eval_cases_vm(mod.RUN_MODULE, [pairs[i] for i in idxs], ctx.work)
            vm_mism = sorted(idxs[j] for j in m2)
            errors = list(errors) + list(e2)
            disagree = sorted(set(vm_mism) ^ (set(mism) & set(idxs)))
            if disagree:
                ctx.problems.append(dict(kind="correspondence",
                                         detail=f"extracted runner and vm_compute disagree on {len(disagree)} sampled cases "
                                                f"(extraction/driver fault)", input=sx.to_text(pairs[disagree[0]][0])))
            cov["model_eval"] = dict(ocaml_extracted=len(pairs), vm_compute_sample=len(idxs))
        else:
            mism, errors = coqrun.eval_cases_vm(mod.RUN_MODULE, pairs, ctx.work)
            cov["model_eval"] = dict(ocaml_extracted=0, vm_compute_sample=len(pairs))
    elif pairs:
        ctx.problems.append(dict(kind="correspondence", detail="model could not be built; correspondence not evaluated"))
    for idx, err in errors:
        ctx.problems.append(dict(kind="correspondence", detail=f"coqc failed on case shard {idx}", log=err))
    for inp, tb in impl_errors[:5]:
        ctx.problems.append(dict(kind="correspondence", detail="implementation harness raised", input=sx.to_text(inp), log=tb))
    suspects = []
    for i in mism[:50]:
        inp, out = pairs[i]
        suspects.append(inp)
    if mism:
        inp, out = pairs[mism[0]]
        mval, mraw = coqrun.eval_one_vm(mod.RUN_MODULE, inp, ctx.work)
        ctx.problems.append(dict(kind="correspondence",
                                 detail=f"model and implementation disagree on {len(mism)} of {len(pairs)} cases",
                                 input=sx.to_text(inp), impl=sx.show(out),
                                 model=sx.show(mval) if mval is not None else mraw))
    suspects.extend(inp for inp, _ in impl_errors)

    # ---- known findings: re-established on every run from the committed witnesses
    known = load_known(pid)
    known_sigs = {e["signature"]: e for e in known}
    for c in cases:
        if c.get("known"):
            try:
                fail = mod.oracle(c["input"])
            except Exception:
                fail = "oracle crashed: " + traceback.format_exc(limit=3)
            if fail:
                sig = mod.signature(c["input"], fail) if hasattr(mod, "signature") else c["known"]
                if sig in known_sigs:
                    known_lines.append(f"KNOWN-FINDING: property={pid} {known_sigs[sig]['what']}")
                else:
                    p = _save_replay(ctx, "unlisted_finding.json",
                                     dict(property=pid, input_sx=sx.to_text(c["input"]), failure=fail, signature=sig))
                    violations.append((p, ""))

    # ---- extra hook (property specific global checks)
    if hasattr(mod, "extra") and not replay:
        try:
            more = mod.extra(ctx) or {}
            cov.update(more)
        except Exception:
            ctx.problems.append(dict(kind="harness", detail="extra() crashed: " + traceback.format_exc(limit=5)))

    # a property-specific extra() hook may name inputs on which it saw the property fail (additive: C14/C19 sweeps)
    suspects = list(getattr(ctx, "extra_suspects", [])) + suspects

    # ---- verdict
    if ctx.problems or replay:
        inp, fail, tried = _search_failure(mod, ctx, suspects, [c["input"] for c in cases], known_sigs)
        cov["failure_search_tried"] = tried
        if inp is not None:
            sig = mod.signature(inp, fail) if hasattr(mod, "signature") else None
            if sig is not None and sig in known_sigs:
                line = f"KNOWN-FINDING: property={pid} {known_sigs[sig]['what']}"
                if line not in known_lines:
                    known_lines.append(line)
                # the tie is still broken: report it, without a failing input of its own
                if ctx.problems:
                    p = _save_replay(ctx, "broken_tie.json", dict(property=pid, problems=ctx.problems,
                                                                  note="only known findings fail the property oracle"))
                    violations.append((p, " no-failing-input-found"))
            else:
                p = _save_replay(ctx, "failing_input.json",
                                 dict(property=pid, input_sx=sx.to_text(inp), input=sx.show(inp), failure=fail,
                                      signature=sig, problems=ctx.problems,
                                      replay_cmd=f"./check {pid} --replay replays/{pid}/failing_input.json"))
                violations.append((p, ""))
        elif ctx.problems:
            first = ctx.problems[0]
            payload = dict(property=pid, broken=[p["detail"] for p in ctx.problems], problems=ctx.problems,
                           note="no input was found on which the property itself fails on the implementation; "
                                "the property is no longer shown to hold")
            if first.get("input"):
                payload["input_sx"] = first["input"]
            p = _save_replay(ctx, "broken_tie.json", payload)
            violations.append((p, " no-failing-input-found"))

    # ---- evidence
    distinct = {}
    dist = {}
    for c in cases:
        key = sx.to_text(c["input"])
        distinct[key] = distinct.get(key, False) or bool(c.get("nontrivial"))
        for t in c.get("tags", []):
            t = t.split(":")[0] if t.startswith("corpus:") else t
            dist[t] = dist.get(t, 0) + 1
    cov["evaluations"] = len(cases)
    cov["distinct_nontrivial"] = sum(1 for v in distinct.values() if v)
    cov["distinct_cases"] = len(distinct)
    cov["traces_validated_against_impl"] = len(pairs) - len(mism)
    cov["model_impl_disagreements"] = len(mism)
    cov["rule"] = getattr(mod, "RULE", "")
    cov["tag_distribution"] = dict(sorted(dist.items()))
    step = max(1, len(cases) // 5)
    cov["samples"] = [dict(input=sx.show(c["input"]), impl=sx.show(c["impl"]) if c.get("impl") is not None else None,
                           tags=c.get("tags", [])) for c in cases[::step][:6]] or [dict(note="no cases")]
    cov["trusted_base"] = [
        "Coq 8.16.1 kernel (coqc; vm_compute used for case evaluation and finite-table lemmas; native_compute not used)",
        "axioms per Print Assumptions: " + (", ".join(cov.get("axioms_reported", [])) or "none (Closed under the global context)"),
        "Python harness harness/%s.py + harness/common (drives /repo/src, canonicalises observables)" % pid.lower(),
        "correspondence by execution: model vs implementation on the cases counted here; model evaluated by vm_compute "
        "inside coqc and, for volume, by the OCaml extraction (Require Extraction + ExtrOcamlBasic only, no Extract "
        "Constant/Inductive of our own; nat/N/Z/positive stay inductive) with coq/Extract/driver.ml (sx text parser/printer), "
        "cross-checked against vm_compute on a sample every run",
    ] + list(getattr(mod, "TRUSTED", []))
    cov.setdefault("obligations", 1)
    cov.setdefault("discharged", 0)
    ev = dict(property_id=pid, tier=tier, seed=seed, level="proof", coverage=cov,
              assumptions=list(getattr(mod, "ASSUMPTIONS", [])), wall_s=round(time.time() - t0, 2),
              violations=len(violations), known_findings=known_lines,
              problems=[p["detail"] for p in ctx.problems])
    if not replay:
        os.makedirs(os.path.join(VERIF, "evidence"), exist_ok=True)
        with open(os.path.join(VERIF, "evidence", pid + ".json"), "w") as fh:
            json.dump(ev, fh, indent=1, default=str)
    coqrun.clean_work(ctx.work)

    for line in known_lines:
        print(line)
    for p in ctx.problems:
        print(f"[{pid}] problem: {p['kind']}: {p['detail']}")
    if violations:
        for path, suffix in violations:
            print(f"VIOLATION property={pid} replay={os.path.relpath(path, VERIF)}{suffix}")
        return 1
    print(f"[{pid}] OK tier={tier} theorems={cov.get('discharged')}/{cov.get('obligations')} cases={len(cases)} "
          f"agree={cov['traces_validated_against_impl']} wall={ev['wall_s']}s")
    return 0
