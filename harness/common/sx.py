"""S-expression values exchanged with the Coq model (EN.Lib.Sx): int -> A, bytes -> B, list/tuple -> L.

bool -> A 0/1, None -> L [] (use some(x) = [x] for Some x).
"""
from __future__ import annotations

import re


def norm(v):
    """Canonical python form: ints, bytes, lists."""
    if isinstance(v, bool):
        return 1 if v else 0
    if isinstance(v, int):
        return v
    if isinstance(v, (bytes, bytearray, memoryview)):
        return bytes(v)
    if v is None:
        return []
    if isinstance(v, (list, tuple)):
        return [norm(x) for x in v]
    raise TypeError(f"cannot encode {type(v)!r} as sx")


def some(x):
    return [x]


def to_coq(v) -> str:
    v = norm(v)
    if isinstance(v, int):
        return f"A {v}" if v >= 0 else f"A ({v})"
    if isinstance(v, bytes):
        return 'Bx "' + v.hex() + '"'
    return "L [" + "; ".join(to_coq(x) for x in v) + "]"


def to_text(v) -> str:
    """Line format read by the extracted OCaml runner: ints, #hex, ( ... )."""
    v = norm(v)
    if isinstance(v, int):
        return str(v)
    if isinstance(v, bytes):
        return "#" + v.hex()
    return "(" + " ".join(to_text(x) for x in v) + ")"


_tok = re.compile(r"\s*(\(|\)|#[0-9a-fA-F]*|-?\d+)")


def from_text(s: str):
    pos = 0

    def parse():
        nonlocal pos
        m = _tok.match(s, pos)
        if not m:
            raise ValueError(f"bad sx text at {pos}: {s[pos:pos+40]!r}")
        pos = m.end()
        t = m.group(1)
        if t == "(":
            out = []
            while True:
                m2 = _tok.match(s, pos)
                if m2 and m2.group(1) == ")":
                    pos = m2.end()
                    return out
                out.append(parse())
        if t.startswith("#"):
            return bytes.fromhex(t[1:])
        return int(t)

    v = parse()
    return v


_ctok = re.compile(r"\s*(A|B|L|\[|\]|\(|\)|;|-?\d+|%[A-Za-z]+)")


def from_coq(s: str):
    """Best-effort parser for an sx value as printed by Coq (used only to pretty-print model outputs in replays)."""
    toks = [t for t in _ctok.findall(s) if not t.startswith("%")]
    pos = 0

    def val():
        nonlocal pos
        t = toks[pos]
        if t == "(":
            pos += 1
            v = val()
            assert toks[pos] == ")"
            pos += 1
            return v
        if t == "A":
            pos += 1
            return num()
        if t == "B":
            pos += 1
            return bytes(lst(num))
        if t == "L":
            pos += 1
            return lst(val)
        raise ValueError(f"unexpected token {t}")

    def num():
        nonlocal pos
        t = toks[pos]
        if t == "(":
            pos += 1
            v = num()
            assert toks[pos] == ")"
            pos += 1
            return v
        pos += 1
        return int(t)

    def lst(item):
        nonlocal pos
        if toks[pos] == "(":
            pos += 1
            v = lst(item)
            assert toks[pos] == ")"
            pos += 1
            return v
        assert toks[pos] == "[", toks[pos]
        pos += 1
        out = []
        while toks[pos] != "]":
            if toks[pos] == ";":
                pos += 1
                continue
            out.append(item())
        pos += 1
        return out

    return val()


def show(v) -> object:
    """JSON-friendly rendering (bytes -> hex string prefixed with #)."""
    v = norm(v)
    if isinstance(v, bytes):
        return "#" + v.hex()
    if isinstance(v, list):
        return [show(x) for x in v]
    return v
