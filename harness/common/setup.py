"""setup_cmd: regenerate all Gen/Params*.v, write _CoqProject, full make, build extracted runner when defined."""
import glob, importlib, os, subprocess, sys
from . import coqrun, runner

def main():
    sys.path.insert(0, os.path.join(coqrun.VERIF, "harness"))
    for path in sorted(glob.glob(os.path.join(coqrun.VERIF, "harness", "c[0-9][0-9].py"))):
        name = os.path.basename(path)[:-3]
        try:
            mod = importlib.import_module(name)
        except Exception as exc:
            print(f"setup: cannot import {name}: {exc}")
            continue
        ctx = runner.Ctx(mod, "quick", 0)
        runner._write_params(mod, ctx)
        for p in ctx.problems:
            print(f"setup: {name}: {p['detail']}")
    # keep going: a file that does not compile only disables the properties that depend on it (their checks then
    # report the broken proof obligation themselves); it must not prevent the other properties from being checked
    ok, log = coqrun.make([], timeout=3000, keep_going=True)
    print(log[-3000:])
    if not ok:
        print("setup: WARNING some Coq files did not compile (see above); the checks depending on them will report it")
    ext = os.path.join(coqrun.COQ, "Extract", "build.sh")
    if os.path.exists(ext):
        r = subprocess.run(["sh", ext], cwd=os.path.dirname(ext))
        if r.returncode != 0:
            print("setup: extraction build failed (vm_compute evaluation still available)")
    print("setup: done")

main()
