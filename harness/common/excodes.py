"""Exception classes as small integers, shared by the C06 harness and the except-clause translator.

code_of(type(exc)) = code of the nearest class of the universe in the MRO; all classes involved have single inheritance
inside the universe, so for every universe class A:  issubclass(type(exc), A)  <=>  issubclass(universe[code], A)."""
from __future__ import annotations

import binascii
import json
import pickle
import struct
import zlib

import easynetwork.exceptions as enx

UNIVERSE = [
    (0, "BaseException", BaseException),
    (1, "Exception", Exception),
    (2, "ValueError", ValueError),
    (3, "UnicodeError", UnicodeError),
    (4, "UnicodeDecodeError", UnicodeDecodeError),
    (5, "json.JSONDecodeError", json.JSONDecodeError),
    (6, "RecursionError", RecursionError),
    (7, "RuntimeError", RuntimeError),
    (8, "struct.error", struct.error),
    (9, "binascii.Error", binascii.Error),
    (10, "zlib.error", zlib.error),
    (11, "OSError", OSError),
    (12, "EOFError", EOFError),
    (13, "MemoryError", MemoryError),
    (14, "OverflowError", OverflowError),
    (15, "ArithmeticError", ArithmeticError),
    (16, "TypeError", TypeError),
    (17, "KeyError", KeyError),
    (18, "IndexError", IndexError),
    (19, "LookupError", LookupError),
    (20, "AttributeError", AttributeError),
    (21, "ImportError", ImportError),
    (22, "ModuleNotFoundError", ModuleNotFoundError),
    (23, "NameError", NameError),
    (24, "pickle.UnpicklingError", pickle.UnpicklingError),
    (25, "pickle.PickleError", pickle.PickleError),
    (26, "AssertionError", AssertionError),
    (27, "NotImplementedError", NotImplementedError),
    (28, "StopIteration", StopIteration),
    (29, "SystemError", SystemError),
    (30, "UnicodeEncodeError", UnicodeEncodeError),
    (31, "BufferError", BufferError),
    (32, "SyntaxError", SyntaxError),
    (33, "ZeroDivisionError", ZeroDivisionError),
    (34, "UnicodeTranslateError", UnicodeTranslateError),
    (40, "DeserializeError", enx.DeserializeError),
    (41, "IncrementalDeserializeError", enx.IncrementalDeserializeError),
    (42, "LimitOverrunError", enx.LimitOverrunError),
    (43, "PacketConversionError", enx.PacketConversionError),
    (44, "StreamProtocolParseError", enx.StreamProtocolParseError),
    (45, "DatagramProtocolParseError", enx.DatagramProtocolParseError),
    (46, "BaseProtocolParseError", enx.BaseProtocolParseError),
]
BY_CLASS = {c: k for k, _n, c in UNIVERSE}
NAME = {k: n for k, n, _c in UNIVERSE}
CLASS = {k: c for k, _n, c in UNIVERSE}


def code_of(cls) -> int:
    for c in cls.__mro__:
        if c in BY_CLASS:
            return BY_CLASS[c]
    raise ValueError(f"{cls!r} is not an exception class")


def caught_by(classes) -> list[int]:
    """codes of every universe class that `except classes` catches"""
    classes = tuple(classes)
    return sorted(k for k, _n, c in UNIVERSE if issubclass(c, classes))


def in_universe(cls) -> bool:
    return cls in BY_CLASS
