"""Build the Coq development and evaluate model cases (vm_compute inside coqc, or the extracted OCaml runner)."""
from __future__ import annotations

import contextlib
import fcntl
import os
import re
import shutil
import subprocess
import time
from concurrent.futures import ThreadPoolExecutor

from . import sx

VERIF = os.path.abspath(os.path.join(os.path.dirname(__file__), "..", ".."))
COQ = os.path.join(VERIF, "coq")
WORK = os.path.join(VERIF, ".work")
JOBS = int(os.environ.get("VERIF_JOBS", "16"))

FORBIDDEN = re.compile(
    r"\b(Admitted|admit|Axiom|Axioms|Parameter|Parameters|Conjecture|Conjectures|Admit Obligations|bypass_check|"
    r"native_compute)\b|Unset\s+Guard|Unset\s+Positivity|Unset\s+Universe|type-in-type|impredicative-set"
)


@contextlib.contextmanager
def build_lock(shared=False):
    """Exclusive while building .vo files / runners; shared while reading them (case evaluation), so that a build
    started by a concurrent check cannot swap a library under a running evaluation."""
    os.makedirs(WORK, exist_ok=True)
    with open(os.path.join(WORK, "build.lock"), "a") as fh:
        fcntl.flock(fh, fcntl.LOCK_SH if shared else fcntl.LOCK_EX)
        try:
            yield
        finally:
            fcntl.flock(fh, fcntl.LOCK_UN)


def strip_comments(text: str) -> str:
    out, depth, i = [], 0, 0
    while i < len(text):
        if text.startswith("(*", i):
            depth += 1
            i += 2
        elif text.startswith("*)", i) and depth:
            depth -= 1
            i += 2
        else:
            if not depth:
                out.append(text[i])
            i += 1
    return "".join(out)


def all_v_files():
    res = []
    for root, _dirs, files in os.walk(COQ):
        for f in files:
            if f.endswith(".v"):
                res.append(os.path.join(root, f))
    return sorted(res)


def hygiene(files=None):
    """Return a list of (file, line_no, text) for forbidden constructs (comments ignored).
    Variable/Hypothesis/Context outside a Section are also flagged."""
    bad = []
    for path in files or all_v_files():
        text = strip_comments(open(path).read())
        depth = 0
        for n, line in enumerate(text.split("\n"), 1):
            if FORBIDDEN.search(line):
                bad.append((os.path.relpath(path, COQ), n, line.strip()))
            if re.match(r"\s*Section\s+\w+", line):
                depth += 1
            elif re.match(r"\s*End\s+\w+\s*\.", line) and depth:
                depth -= 1
            elif depth == 0 and re.match(r"\s*(Variable|Variables|Hypothesis|Hypotheses|Context)\b", line):
                bad.append((os.path.relpath(path, COQ), n, "outside section: " + line.strip()))
    return bad


def closure(rel_files):
    """.v files (absolute) reachable from the given files (relative to coq/) through `From EN Require ...`."""
    seen, todo = set(), [os.path.join(COQ, r) for r in rel_files]
    while todo:
        path = todo.pop()
        if path in seen or not os.path.exists(path):
            continue
        seen.add(path)
        text = strip_comments(open(path).read())
        for m in re.finditer(r"From\s+EN\s+Require\s+(?:Import\s+|Export\s+)?(.+?)\.(?:\s|$)", text, re.S):
            for name in m.group(1).split():
                todo.append(os.path.join(COQ, name.replace(".", "/") + ".v"))
        for m in re.finditer(r"(?<!EN\s)Require\s+(?:Import\s+|Export\s+)?(.+?)\.(?:\s|$)", text, re.S):
            for name in m.group(1).split():
                if name.startswith("EN."):
                    todo.append(os.path.join(COQ, name[3:].replace(".", "/") + ".v"))
    return sorted(seen)


def write_coqproject():
    files = [os.path.relpath(p, COQ) for p in all_v_files()]
    body = "-Q . EN\n-arg -w -arg -notation-overridden,-deprecated-hint-without-locality,-deprecated-instance-without-locality\n"
    body += "\n".join(files) + "\n"
    path = os.path.join(COQ, "_CoqProject")
    old = open(path).read() if os.path.exists(path) else ""
    if old != body:
        with open(path, "w") as fh:
            fh.write(body)
        return True
    return False


def make(targets, timeout=1800, keep_going=False):
    """Full .vo build of the given targets (relative to coq/), under the build lock.  Returns (ok, log)."""
    with build_lock():
        changed = write_coqproject()
        mk = os.path.join(COQ, "Makefile")
        if changed or not os.path.exists(mk):
            r = subprocess.run(["coq_makefile", "-f", "_CoqProject", "-o", "Makefile"], cwd=COQ,
                               stdout=subprocess.PIPE, stderr=subprocess.STDOUT, text=True)
            if r.returncode != 0:
                return False, r.stdout
        cmd = ["timeout", str(timeout), "make", f"-j{JOBS}"] + (["-k"] if keep_going else []) + list(targets)
        r = subprocess.run(cmd, cwd=COQ, stdout=subprocess.PIPE, stderr=subprocess.STDOUT, text=True)
        return r.returncode == 0, r.stdout


def coqc(path, timeout=600, cwd=COQ):
    """Compile one file (absolute path or relative to coq/); returns (ok, output)."""
    cmd = ["timeout", str(timeout), "coqc", "-Q", COQ, "EN", "-w",
           "-notation-overridden,-deprecated-hint-without-locality,-deprecated-instance-without-locality", path]
    r = subprocess.run(cmd, cwd=cwd, stdout=subprocess.PIPE, stderr=subprocess.STDOUT, text=True)
    return r.returncode == 0, r.stdout


def check_props(props_rel, allowed_axioms=()):
    """Re-compile Props/Cxx.v (its dependencies must be built) and analyse the Print Assumptions output.

    Returns dict(ok, theorems, closed, axioms, unexpected, log)."""
    path = os.path.join(COQ, props_rel)
    src = strip_comments(open(path).read())
    theorems = re.findall(r"^\s*(?:Theorem|Lemma|Corollary)\s+(\w+)", src, re.M)
    n_print = len(re.findall(r"Print\s+Assumptions\s+\w+", src))
    with build_lock():
        ok, out = coqc(path)
    closed = len(re.findall(r"Closed under the global context", out))
    axioms = set()
    for block in re.findall(r"Axioms:\n((?:.+\n?)+?)(?=\n\S|\Z)", out):
        for m in re.finditer(r"^(\S+)\s*:", block, re.M):
            axioms.add(m.group(1))
    # robust fallback: any "name : type" line following "Axioms:" headers
    if "Axioms:" in out and not axioms:
        axioms.add("<unparsed>")
    unexpected = sorted(a for a in axioms if a not in set(allowed_axioms))
    return dict(ok=ok and n_print >= len(theorems) and (closed + out.count("Axioms:")) >= n_print,
                theorems=theorems, n_print=n_print, closed=closed, axioms=sorted(axioms),
                unexpected=unexpected, log=out)


_res = re.compile(r"=\s*\[([^\]]*)\]")


def _big_stack():
    """coqc evaluating a case with a long byte string needs more than the default 8 MB stack"""
    import resource
    try:
        resource.setrlimit(resource.RLIMIT_STACK, (resource.RLIM_INFINITY, resource.RLIM_INFINITY))
    except (ValueError, OSError):
        pass


def _eval_shard(args):
    run_mod, idx, texts, workdir = args
    name = f"cases_{idx}"
    path = os.path.join(workdir, name + ".v")
    with open(path, "w") as fh:
        fh.write(f"From Coq Require Import String.\nFrom EN Require Import Lib.Bytes Lib.Sx {run_mod}.\nOpen Scope string_scope.\nOpen Scope Z_scope.\n")
        fh.write("Definition cases : list (sx * sx) := [\n")
        fh.write(";\n".join(texts))
        fh.write("\n].\nEval vm_compute in (mismatches run cases).\n")
    cmd = ["timeout", "900", "coqc", "-Q", COQ, "EN", "-Q", workdir, "W", "-w", "-all", path]
    r = subprocess.run(cmd, cwd=workdir, stdout=subprocess.PIPE, stderr=subprocess.STDOUT, text=True, preexec_fn=_big_stack)
    if r.returncode != 0:
        return idx, None, r.stdout[-2000:]
    m = _res.search(r.stdout)
    if not m:
        return idx, None, r.stdout[-2000:]
    body = m.group(1).strip()
    mism = [int(x) for x in re.findall(r"\d+", body)] if body else []
    return idx, mism, ""


def eval_cases_vm(run_mod, cases, workdir, shard=400, shard_bytes=200_000):
    """cases: list of (input, expected_output) python sx values.  Returns (mismatch_indices, errors).
    Shards are bounded both in number of cases and in text size (coqc needs ~2 GB per MB of case text)."""
    os.makedirs(workdir, exist_ok=True)
    shards, cur, cur_bytes, start = [], [], 0, 0
    bounds = []
    for k, (i, o) in enumerate(cases):
        t = f"({sx.to_coq(i)}, {sx.to_coq(o)})"
        if cur and (len(cur) >= shard or cur_bytes + len(t) > shard_bytes):
            shards.append((run_mod, len(shards), cur, workdir))
            bounds.append(start)
            cur, cur_bytes, start = [], 0, k
        cur.append(t)
        cur_bytes += len(t)
    if cur:
        shards.append((run_mod, len(shards), cur, workdir))
        bounds.append(start)
    mism, errors = [], []
    with build_lock(shared=True), ThreadPoolExecutor(max_workers=JOBS) as ex:
        for idx, m, err in ex.map(_eval_shard, shards):
            if m is None:
                errors.append((idx, err))
            else:
                mism.extend(bounds[idx] + j for j in m)
    return sorted(mism), errors


def eval_one_vm(run_mod, inp, workdir, tag="one"):
    """Model output for one input, as (parsed value or None, raw text)."""
    os.makedirs(workdir, exist_ok=True)
    path = os.path.join(workdir, f"{tag}.v")
    with open(path, "w") as fh:
        fh.write(f"From Coq Require Import String.\nFrom EN Require Import Lib.Bytes Lib.Sx {run_mod}.\nOpen Scope string_scope.\nOpen Scope Z_scope.\n")
        fh.write(f"Eval vm_compute in (run ({sx.to_coq(inp)})).\n")
    cmd = ["timeout", "300", "coqc", "-Q", COQ, "EN", "-w", "-all", path]
    with build_lock(shared=True):
        r = subprocess.run(cmd, cwd=workdir, stdout=subprocess.PIPE, stderr=subprocess.STDOUT, text=True, preexec_fn=_big_stack)
    raw = r.stdout
    m = re.search(r"=\s*(.*?)\n\s*:\s*sx", raw, re.S)
    if not m:
        return None, raw
    txt = " ".join(m.group(1).split())
    try:
        return sx.from_coq(txt), txt
    except Exception:
        return None, txt


def runner_path(pid):
    return os.path.join(COQ, "Extract", "bin", f"modelrun_{pid}")


def ensure_runner(pid, run_mod):
    """Extracted OCaml runner for the property, rebuilt when older than any .vo it depends on.  None if unavailable."""
    path = runner_path(pid)
    deps = [f[:-2] + ".vo" for f in closure([run_mod.replace(".", "/") + ".v"])]
    deps.append(os.path.join(COQ, "Extract", "driver.ml"))
    try:
        newest = max(os.path.getmtime(d) for d in deps if os.path.exists(d))
    except ValueError:
        return None
    if not os.path.exists(path) or os.path.getmtime(path) < newest:
        with build_lock():
            if not os.path.exists(path) or os.path.getmtime(path) < newest:
                subprocess.run(["sh", os.path.join(COQ, "Extract", "build.sh"), pid], stdout=subprocess.PIPE,
                               stderr=subprocess.STDOUT)
    if os.path.exists(path) and os.path.getmtime(path) >= newest:
        return path
    return None


def _ml_chunk(args):
    path, inputs = args
    text = "\n".join(sx.to_text(i) for i in inputs) + "\n"
    r = subprocess.run(["timeout", "900", path], input=text, stdout=subprocess.PIPE, stderr=subprocess.PIPE, text=True,
                       preexec_fn=_big_stack)
    if r.returncode != 0:
        return None, r.stderr[-500:]
    lines = [l for l in r.stdout.split("\n") if l.strip()]
    if len(lines) != len(inputs):
        return None, f"runner printed {len(lines)} results for {len(inputs)} inputs"
    return [sx.from_text(l) for l in lines], ""


def eval_cases_ml(path, cases, chunk=2000):
    """cases: list of (input, expected).  Returns (mismatch_indices, errors) using the extracted runner."""
    jobs = [(path, [i for i, _ in cases[k:k + chunk]]) for k in range(0, len(cases), chunk)]
    mism, errors = [], []
    with ThreadPoolExecutor(max_workers=JOBS) as ex:
        for n, (outs, err) in enumerate(ex.map(_ml_chunk, jobs)):
            if outs is None:
                errors.append((n, err))
                continue
            for j, out in enumerate(outs):
                if sx.norm(out) != sx.norm(cases[n * chunk + j][1]):
                    mism.append(n * chunk + j)
    return sorted(mism), errors


def clean_work(workdir):
    shutil.rmtree(workdir, ignore_errors=True)
