"""Fail-closed `ast` translator: the except clauses of the deserializers -> coq/Gen/ParamsC06.v.

For every except handler guarding a library call in the anchored functions it emits a Coq `site`
(list of caught class codes, class code raised by the handler).  Any AST shape it does not recognise raises
TranslateError (reported by the runner as a broken correspondence, never guessed)."""
from __future__ import annotations

import ast
import builtins
import importlib
import os

from . import excodes
from .runner import REPO, TranslateError

SRC = os.path.join(REPO, "src", "easynetwork")
PARAM = "PARAM"
RERAISE = -1
PASS = -2


class Mod:
    def __init__(self, rel):
        self.rel = rel
        path = os.path.join(SRC, rel)
        try:
            self.tree = ast.parse(open(path).read())
        except (OSError, SyntaxError) as exc:
            raise TranslateError(f"{rel}: cannot parse: {exc}")
        pkg = ["easynetwork"] + rel.split("/")[:-1]
        self.names = {}      # local name -> ("module", modname) | ("attr", modname, attr)
        for node in ast.walk(self.tree):
            if isinstance(node, ast.Import):
                for a in node.names:
                    self.names[a.asname or a.name.split(".")[0]] = ("module", a.name if a.asname else a.name.split(".")[0])
            elif isinstance(node, ast.ImportFrom):
                base = pkg[: len(pkg) - (node.level - 1)] if node.level else []
                modname = ".".join(base + ([node.module] if node.module else []))
                for a in node.names:
                    self.names[a.asname or a.name] = ("attr", modname, a.name)

    def find(self, qualname):
        node = self.tree
        for part in qualname.split("."):
            found = [ch for ch in ast.iter_child_nodes(node)
                     if isinstance(ch, (ast.FunctionDef, ast.ClassDef)) and ch.name == part]
            if len(found) != 1:
                raise TranslateError(f"{self.rel}: {qualname}: expected exactly one definition of {part}")
            node = found[0]
        return node

    def resolve_name(self, ident):
        if ident in self.names:
            ent = self.names[ident]
            try:
                if ent[0] == "module":
                    return importlib.import_module(ent[1])
                return getattr(importlib.import_module(ent[1]), ent[2])
            except Exception as exc:
                raise TranslateError(f"{self.rel}: cannot resolve import of {ident}: {exc}")
        if hasattr(builtins, ident):
            return getattr(builtins, ident)
        raise TranslateError(f"{self.rel}: unknown name {ident}")


def _is_exc_class(obj):
    return isinstance(obj, type) and issubclass(obj, BaseException)


def resolve_classes(mod, expr, cls_node, qual):
    """-> list of exception classes, or PARAM (the value is a constructor argument)."""
    if isinstance(expr, ast.Tuple):
        out = []
        for e in expr.elts:
            r = resolve_classes(mod, e, cls_node, qual)
            if r == PARAM:
                raise TranslateError(f"{qual}: constructor parameter inside a tuple of exception classes")
            out.extend(r)
        return out
    if isinstance(expr, ast.Name):
        obj = mod.resolve_name(expr.id)
        if not _is_exc_class(obj):
            raise TranslateError(f"{qual}: {expr.id} is not an exception class")
        return [obj]
    if isinstance(expr, ast.Attribute) and isinstance(expr.value, ast.Name) and expr.value.id == "self":
        if cls_node is None:
            raise TranslateError(f"{qual}: self attribute outside a class")
        attr = expr.attr
        init = [n for n in cls_node.body if isinstance(n, ast.FunctionDef) and n.name == "__init__"]
        if len(init) != 1:
            raise TranslateError(f"{qual}: class has no single __init__")
        params = {a.arg for a in init[0].args.args + init[0].args.kwonlyargs}
        values = []
        for n in ast.walk(init[0]):
            tgt = None
            if isinstance(n, ast.Assign) and len(n.targets) == 1:
                tgt, val = n.targets[0], n.value
            elif isinstance(n, ast.AnnAssign) and n.value is not None:
                tgt, val = n.target, n.value
            if isinstance(tgt, ast.Attribute) and isinstance(tgt.value, ast.Name) and tgt.value.id == "self" and tgt.attr == attr:
                values.append(val)
        if len(values) != 1:
            raise TranslateError(f"{qual}: self.{attr} must be assigned exactly once in __init__ (found {len(values)})")
        val = values[0]
        if isinstance(val, ast.Name) and val.id in params:
            return PARAM
        return resolve_classes(mod, val, None, qual)
    if isinstance(expr, ast.Attribute) and isinstance(expr.value, ast.Name):
        base = mod.resolve_name(expr.value.id)
        obj = getattr(base, expr.attr, None)
        if not _is_exc_class(obj):
            raise TranslateError(f"{qual}: {expr.value.id}.{expr.attr} is not an exception class")
        return [obj]
    raise TranslateError(f"{qual}: unsupported except expression {ast.dump(expr)[:80]}")


def tries_in_order(fn):
    """the try statements of a function in source order (nested definitions are not entered)"""
    out = []

    def visit(node):
        for ch in ast.iter_child_nodes(node):
            if isinstance(ch, (ast.FunctionDef, ast.AsyncFunctionDef, ast.Lambda, ast.ClassDef)):
                continue
            if isinstance(ch, ast.Try):
                out.append(ch)
            elif type(ch).__name__ == "TryStar":
                raise TranslateError("try/except* is not supported")
            visit(ch)

    visit(fn)
    return out


def raised_class(mod, handler, qual):
    body = handler.body
    if len(body) == 1 and isinstance(body[0], ast.Pass):
        return PASS
    raises = []

    def visit(node):
        for ch in ast.iter_child_nodes(node):
            if isinstance(ch, (ast.FunctionDef, ast.AsyncFunctionDef, ast.Lambda, ast.ClassDef, ast.Try)):
                raise TranslateError(f"{qual}: nested definition/try inside an except handler")
            if isinstance(ch, ast.Raise):
                raises.append(ch)
            visit(ch)

    visit(handler)
    if not raises or not isinstance(body[-1], ast.Raise):
        raise TranslateError(f"{qual}: except handler does not end with a raise")
    names = set()
    for r in raises:
        if r.exc is None:
            names.add(None)
        elif isinstance(r.exc, ast.Call) and isinstance(r.exc.func, ast.Name):
            names.add(r.exc.func.id)
        else:
            raise TranslateError(f"{qual}: unsupported raise expression in handler")
    if len(names) != 1:
        raise TranslateError(f"{qual}: handler raises different classes {names}")
    name = names.pop()
    if name is None:
        return RERAISE
    obj = mod.resolve_name(name)
    if not _is_exc_class(obj) or not excodes.in_universe(obj):
        raise TranslateError(f"{qual}: handler raises {name}, not a class of the universe")
    return excodes.BY_CLASS[obj]


def sites_of(mod, qualname, expect):
    """expect = number of try statements (with handlers) the function must contain.
    -> per try statement, the list of its handlers (caught classes | PARAM, raised code)"""
    fn = mod.find(qualname)
    cls_node = mod.find(qualname.rsplit(".", 1)[0]) if "." in qualname else None
    tries = [t for t in tries_in_order(fn) if t.handlers]
    if len(tries) != expect:
        raise TranslateError(f"{mod.rel}: {qualname}: expected {expect} try statements, found {len(tries)}")
    out = []
    for tr in tries:
        hs = []
        for h in tr.handlers:
            if h.type is None:
                raise TranslateError(f"{qualname}: bare except")
            classes = resolve_classes(mod, h.type, cls_node, qualname)
            if classes != PARAM:
                for c in classes:
                    if not excodes.in_universe(c):
                        raise TranslateError(f"{qualname}: class {c!r} named in an except clause is not in the universe")
            hs.append((classes, raised_class(mod, h, qualname)))
        out.append(hs)
    return out


def super_init_kw(mod, clsname, kw):
    cls_node = mod.find(clsname)
    init = mod.find(clsname + ".__init__")
    found = []
    for n in ast.walk(init):
        if isinstance(n, ast.Call) and isinstance(n.func, ast.Attribute) and n.func.attr == "__init__" \
                and isinstance(n.func.value, ast.Call) and isinstance(n.func.value.func, ast.Name) and n.func.value.func.id == "super":
            for k in n.keywords:
                if k.arg == kw:
                    found.append(k.value)
    if len(found) != 1:
        raise TranslateError(f"{clsname}.__init__: super().__init__({kw}=...) not found exactly once")
    r = resolve_classes(mod, found[0], cls_node, clsname)
    if r == PARAM:
        raise TranslateError(f"{clsname}: {kw} is a parameter")
    return r


def zl(codes):
    return "[" + "; ".join(f"{c}" for c in codes) + "]"


def site_coq(site, qual):
    classes, raised = site
    if classes == PARAM:
        raise TranslateError(f"{qual}: unexpected constructor parameter in an except clause")
    return f"({zl(excodes.caught_by(classes))}, {raised})"


def try_coq(handlers, qual):
    return "[" + "; ".join(site_coq(h, qual) for h in handlers) + "]"


def need(cond, msg):
    if not cond:
        raise TranslateError(msg)


def generate() -> str:
    js = Mod("serializers/json.py")
    ln = Mod("serializers/line.py")
    st = Mod("serializers/struct.py")
    pk = Mod("serializers/pickle.py")
    b64 = Mod("serializers/wrapper/base64.py")
    cz = Mod("serializers/wrapper/compressor.py")
    bs = Mod("serializers/base_stream.py")
    pr = Mod("protocol.py")
    out = ["From Coq Require Import ZArith List.", "Import ListNotations.", "Local Open Scope Z_scope.", "",
           "(* class codes: " + ", ".join(f"{k}={n}" for k, n, _ in excodes.UNIVERSE) + " *)", ""]

    def defn(name, typ, body):
        out.append(f"Definition {name} : {typ} := {body}.")

    T = "list (list Z * Z)%type"        # one try statement: its handlers

    def site_list(name, mod, qual, expect, pick=None):
        """list of try statements"""
        sites = sites_of(mod, qual, expect)
        if pick is not None:
            sites = [sites[i] for i in pick]
        defn(name, f"list ({T})", "[" + "; ".join(try_coq(s, qual) for s in sites) + "]")
        return sites

    def one_site(name, mod, qual, expect, idx):
        sites = sites_of(mod, qual, expect)
        defn(name, T, try_coq(sites[idx], qual))
        return sites[idx]

    defn("c_DeserializeError", "Z", str(excodes.BY_CLASS[excodes.CLASS[40]]))
    defn("c_EOFError", "Z", "12")
    defn("exception_codes", "list Z", zl(excodes.caught_by([Exception])))
    defn("deserialize_codes", "list Z", zl(excodes.caught_by([excodes.CLASS[40]])))
    # JSON: [str(); decoder.decode]
    site_list("json_oneshot", js, "JSONSerializer.deserialize", 2)
    site_list("json_incr", js, "JSONSerializer.incremental_deserialize", 2)
    # line: [str()]
    site_list("line_oneshot", ln, "StringLineSerializer.deserialize", 1)
    site_list("line_incr", ln, "StringLineSerializer.incremental_deserialize", 1)
    site_list("line_buf", ln, "StringLineSerializer.buffered_incremental_deserialize", 1)
    # struct: [Struct.unpack] ; NamedTuple: [str() of the string fields]
    site_list("struct_oneshot", st, "AbstractStructSerializer.deserialize", 1)
    site_list("namedtuple_from_tuple", st, "NamedTupleStructSerializer.from_tuple", 1)
    # base classes: the handler around self.deserialize(data)
    one_site("fixed_incr", bs, "FixedSizePacketSerializer.incremental_deserialize", 1, 0)
    one_site("fixed_buf", bs, "FixedSizePacketSerializer.buffered_incremental_deserialize", 1, 0)
    one_site("autosep_incr", bs, "AutoSeparatedPacketSerializer.incremental_deserialize", 1, 0)
    one_site("autosep_buf", bs, "AutoSeparatedPacketSerializer.buffered_incremental_deserialize", 1, 0)
    # base64: [b64decode]
    site_list("base64_oneshot", b64, "Base64EncoderSerializer.deserialize", 1)
    # pickle: [Unpickler.load]
    site_list("pickle_oneshot", pk, "PickleSerializer.deserialize", 1)
    # file based: one try statement with the handlers EOFError, self.__expected_errors
    fbo = sites_of(bs, "FileBasedPacketSerializer.deserialize", 1)[0]
    need(len(fbo) == 2 and fbo[0][0] != PARAM and fbo[1][0] == PARAM,
         "FileBasedPacketSerializer.deserialize: expected `except EOFError` then `except self.__expected_errors`")
    need(set(fbo[0][0]) == {EOFError}, "FileBasedPacketSerializer.deserialize: first handler must catch exactly EOFError")
    defn("fb_oneshot_eof_raised", "Z", str(fbo[0][1]))
    defn("fb_oneshot_raised", "Z", str(fbo[1][1]))
    fbi = sites_of(bs, "FileBasedPacketSerializer.__generic_incremental_deserialize", 1)[0]
    need(len(fbi) == 2 and fbi[0][0] != PARAM and set(fbi[0][0]) == {EOFError} and fbi[0][1] == PASS,
         "FileBased generic deserializer: first handler must be `except EOFError: pass`")
    need(fbi[1][0] == PARAM, "FileBased generic deserializer: second handler must catch self.__expected_errors")
    defn("fb_incr_raised", "Z", str(fbi[1][1]))
    # compressors
    czo = sites_of(cz, "AbstractCompressorSerializer.deserialize", 1)[0]
    need(len(czo) == 1 and czo[0][0] == PARAM, "AbstractCompressorSerializer.deserialize: handler must catch self.__expected_error")
    defn("cz_oneshot_raised", "Z", str(czo[0][1]))
    czi = sites_of(cz, "AbstractCompressorSerializer.__generic_incremental_deserialize", 2)
    need(len(czi[0]) == 1 and czi[0][0][0] == PARAM, "compressor generic deserializer: first try must catch self.__expected_error")
    need(all(h[0] != PARAM for h in czi[1]), "compressor generic deserializer: second try must name its classes")
    defn("cz_incr_raised", "Z", str(czi[0][0][1]))
    defn("cz_incr_inner", T, try_coq(czi[1], "compressor inner"))
    defn("zlib_expected", "list Z", zl(excodes.caught_by(super_init_kw(cz, "ZlibCompressorSerializer", "expected_decompress_error"))))
    defn("bz2_expected", "list Z", zl(excodes.caught_by(super_init_kw(cz, "BZ2CompressorSerializer", "expected_decompress_error"))))
    # protocols: first try statement = [IncrementalDeserializeError -> StreamProtocolParseError ; DeserializeError -> RuntimeError]
    one_site("stream_protocol", pr, "StreamProtocol.build_packet_from_chunks", 2, 0)
    one_site("bstream_protocol", pr, "BufferedStreamProtocol.build_packet_from_buffer", 2, 0)
    one_site("dgram_protocol", pr, "DatagramProtocol.build_packet_from_datagram", 2, 0)
    defn("c_StreamProtocolParseError", "Z", "44")
    defn("c_DatagramProtocolParseError", "Z", "45")
    return "\n".join(out) + "\n"
