"""Fail-closed `ast` translator: the except clauses of the deserializers -> coq/Gen/ParamsC06.v.

For every except handler guarding a library call in the anchored functions it emits a Coq `site`
(list of caught class codes, class code raised by the handler).  Any AST shape it does not recognise raises
TranslateError (reported by the runner as a broken correspondence, never guessed)."""
from __future__ import annotations

import ast
import builtins
import importlib
import os

from . import excodes
from .runner import REPO, TranslateError

SRC = os.path.join(REPO, "src", "easynetwork")
PARAM = "PARAM"
RERAISE = -1
PASS = -2


class Mod:
    def __init__(self, rel):
        self.rel = rel
        path = os.path.join(SRC, rel)
        try:
            self.tree = ast.parse(open(path).read())
        except (OSError, SyntaxError) as exc:
            raise TranslateError(f"{rel}: cannot parse: {exc}")
        pkg = ["easynetwork"] + rel.split("/")[:-1]
        self.names = {}      # local name -> ("module", modname) | ("attr", modname, attr)
        for node in ast.walk(self.tree):
            if isinstance(node, ast.Import):
                for a in node.names:
                    self.names[a.asname or a.name.split(".")[0]] = ("module", a.name if a.asname else a.name.split(".")[0])
            elif isinstance(node, ast.ImportFrom):
                base = pkg[: len(pkg) - (node.level - 1)] if node.level else []
                modname = ".".join(base + ([node.module] if node.module else []))
                for a in node.names:
                    self.names[a.asname or a.name] = ("attr", modname, a.name)

    def find(self, qualname):
        node = self.tree
        for part in qualname.split("."):
            found = [ch for ch in ast.iter_child_nodes(node)
                     if isinstance(ch, (ast.FunctionDef, ast.ClassDef)) and ch.name == part]
            if len(found) != 1:
                raise TranslateError(f"{self.rel}: {qualname}: expected exactly one definition of {part}")
            node = found[0]
        return node

    def resolve_name(self, ident):
        if ident in self.names:
            ent = self.names[ident]
            try:
                if ent[0] == "module":
                    return importlib.import_module(ent[1])
                return getattr(importlib.import_module(ent[1]), ent[2])
            except Exception as exc:
                raise TranslateError(f"{self.rel}: cannot resolve import of {ident}: {exc}")
        if hasattr(builtins, ident):
            return getattr(builtins, ident)
        raise TranslateError(f"{self.rel}: unknown name {ident}")


def _is_exc_class(obj):
    return isinstance(obj, type) and issubclass(obj, BaseException)


def resolve_classes(mod, expr, cls_node, qual):
    """-> list of exception classes, or PARAM (the value is a constructor argument)."""
    if isinstance(expr, ast.Tuple):
        out = []
        for e in expr.elts:
            r = resolve_classes(mod, e, cls_node, qual)
            if r == PARAM:
                raise TranslateError(f"{qual}: constructor parameter inside a tuple of exception classes")
            out.extend(r)
        return out
    if isinstance(expr, ast.Name):
        obj = mod.resolve_name(expr.id)
        if not _is_exc_class(obj):
            raise TranslateError(f"{qual}: {expr.id} is not an exception class")
        return [obj]
    if isinstance(expr, ast.Attribute) and isinstance(expr.value, ast.Name) and expr.value.id == "self":
        if cls_node is None:
            raise TranslateError(f"{qual}: self attribute outside a class")
        attr = expr.attr
        init = [n for n in cls_node.body if isinstance(n, ast.FunctionDef) and n.name == "__init__"]
        if len(init) != 1:
            raise TranslateError(f"{qual}: class has no single __init__")
        params = {a.arg for a in init[0].args.args + init[0].args.kwonlyargs}
        values = []
        for n in ast.walk(init[0]):
            tgt = None
            if isinstance(n, ast.Assign) and len(n.targets) == 1:
                tgt, val = n.targets[0], n.value
            elif isinstance(n, ast.AnnAssign) and n.value is not None:
                tgt, val = n.target, n.value
            if isinstance(tgt, ast.Attribute) and isinstance(tgt.value, ast.Name) and tgt.value.id == "self" and tgt.attr == attr:
                values.append(val)
        if len(values) != 1:
            raise TranslateError(f"{qual}: self.{attr} must be assigned exactly once in __init__ (found {len(values)})")
        val = values[0]
        if isinstance(val, ast.Name) and val.id in params:
            return PARAM
        return resolve_classes(mod, val, None, qual)
    if isinstance(expr, ast.Attribute) and isinstance(expr.value, ast.Name):
        base = mod.resolve_name(expr.value.id)
        obj = getattr(base, expr.attr, None)
        if not _is_exc_class(obj):
            raise TranslateError(f"{qual}: {expr.value.id}.{expr.attr} is not an exception class")
        return [obj]
    raise TranslateError(f"{qual}: unsupported except expression {ast.dump(expr)[:80]}")


def tries_in_order(fn):
    """the try statements of a function in source order (nested definitions are not entered)"""
    out = []

    def visit(node):
        for ch in ast.iter_child_nodes(node):
            if isinstance(ch, (ast.FunctionDef, ast.AsyncFunctionDef, ast.Lambda, ast.ClassDef)):
                continue
            if isinstance(ch, ast.Try):
                out.append(ch)
            elif type(ch).__name__ == "TryStar":
                raise TranslateError("try/except* is not supported")
            visit(ch)

    visit(fn)
    return out


_NEUTRAL = (ast.Pass, ast.Assign, ast.AnnAssign, ast.AugAssign, ast.Delete, ast.Global, ast.Nonlocal)


def _find_helper(mod, cls_node, func):
    """the FunctionDef a call refers to: self.name / cls.name / ClassName.name (method of the same class) or a module
    level function; None when it is something else"""
    if isinstance(func, ast.Attribute) and isinstance(func.value, ast.Name) and cls_node is not None \
            and func.value.id in ("self", "cls", cls_node.name):
        found = [n for n in cls_node.body if isinstance(n, ast.FunctionDef) and n.name == func.attr]
        return found[0] if len(found) == 1 else None
    if isinstance(func, ast.Name):
        found = [n for n in mod.tree.body if isinstance(n, ast.FunctionDef) and n.name == func.id]
        return found[0] if len(found) == 1 else None
    return None


def _class_of_call(mod, call, qual):
    """X for an expression X(...) where X is an exception class of the universe; None otherwise"""
    if isinstance(call, ast.Call) and isinstance(call.func, ast.Name):
        try:
            obj = mod.resolve_name(call.func.id)
        except TranslateError:
            return None
        if _is_exc_class(obj):
            if not excodes.in_universe(obj):
                raise TranslateError(f"{qual}: handler raises {call.func.id}, not a class of the universe")
            return excodes.BY_CLASS[obj]
    return None


def _returned_classes(mod, fn, qual):
    """classes of the exception objects a helper returns (every return must be `return X(...)`)"""
    out = set()
    for n in ast.walk(fn):
        if isinstance(n, ast.Return):
            c = _class_of_call(mod, n.value, qual) if n.value is not None else None
            if c is None:
                raise TranslateError(f"{qual}: helper {fn.name} returns something that is not `X(...)`")
            out.add(c)
    if not out:
        raise TranslateError(f"{qual}: helper {fn.name} returns nothing")
    return out


def _outcomes(mod, cls_node, stmts, excname, qual, depth):
    """Outcomes of a statement list on every path: ("raise", code) | ("reraise",) | ("fall",) = control leaves the
    handler without an exception (pass / continue) | ("next",) = reaches the end of the list."""
    cur = {("next",)}
    done = set()
    for st in stmts:
        if ("next",) not in cur:
            break
        cur.discard(("next",))
        if isinstance(st, _NEUTRAL) or (isinstance(st, ast.Expr) and isinstance(st.value, ast.Constant)):
            new = {("next",)}
        elif isinstance(st, ast.Continue):
            new = {("fall",)}
        elif isinstance(st, ast.Raise):
            if st.exc is None or (isinstance(st.exc, ast.Name) and st.exc.id == excname):
                new = {("reraise",)}
            else:
                c = _class_of_call(mod, st.exc, qual)
                if c is not None:
                    new = {("raise", c)}
                else:
                    helper = _find_helper(mod, cls_node, st.exc.func) if isinstance(st.exc, ast.Call) else None
                    if helper is None or depth > 0:
                        raise TranslateError(f"{qual}: unsupported raise expression in handler")
                    new = {("raise", c2) for c2 in _returned_classes(mod, helper, qual)}
        elif isinstance(st, ast.If):
            new = _outcomes(mod, cls_node, st.body, excname, qual, depth) | _outcomes(mod, cls_node, st.orelse, excname, qual, depth)
        elif isinstance(st, ast.Expr) and isinstance(st.value, ast.Call):
            helper = _find_helper(mod, cls_node, st.value.func)
            if helper is None:
                new = {("next",)}          # a call that is not one of our helpers (logging ...): neutral
            elif depth > 0:
                raise TranslateError(f"{qual}: helper calls nested more than one level")
            else:
                new = _outcomes(mod, cls_node, helper.body, None, qual, depth + 1)
                if ("reraise",) in new or ("fall",) in new:
                    raise TranslateError(f"{qual}: helper {helper.name} re-raises or continues")
        else:
            raise TranslateError(f"{qual}: unsupported statement {type(st).__name__} in an except handler")
        done |= new - {("next",)}
        cur = new & {("next",)}
    return done | cur


def raised_class(mod, handler, qual, cls_node=None):
    """PASS (the exception is swallowed), RERAISE, or the code of the class every path of the handler raises."""
    outs = _outcomes(mod, cls_node, handler.body, handler.name, qual, 0)
    outs = {("fall",) if o == ("next",) else o for o in outs}
    if len(outs) != 1:
        raise TranslateError(f"{qual}: the paths of an except handler end differently: {sorted(map(str, outs))}")
    o = outs.pop()
    if o == ("fall",):
        return PASS
    if o == ("reraise",):
        return RERAISE
    return o[1]


def sites_of(mod, qualname, expect):
    """expect = number of try statements (with handlers) the function must contain.
    -> per try statement, the list of its handlers (caught classes | PARAM, raised code)"""
    fn = mod.find(qualname)
    cls_node = mod.find(qualname.rsplit(".", 1)[0]) if "." in qualname else None
    tries = [t for t in tries_in_order(fn) if t.handlers]
    if len(tries) != expect:
        raise TranslateError(f"{mod.rel}: {qualname}: expected {expect} try statements, found {len(tries)}")
    out = []
    for tr in tries:
        hs = []
        for h in tr.handlers:
            if h.type is None:
                raise TranslateError(f"{qualname}: bare except")
            classes = resolve_classes(mod, h.type, cls_node, qualname)
            if classes != PARAM:
                for c in classes:
                    if not excodes.in_universe(c):
                        raise TranslateError(f"{qualname}: class {c!r} named in an except clause is not in the universe")
            hs.append((classes, raised_class(mod, h, qualname, cls_node)))
        out.append(hs)
    return out


def super_init_kw(mod, clsname, kw):
    cls_node = mod.find(clsname)
    init = mod.find(clsname + ".__init__")
    found = []
    for n in ast.walk(init):
        if isinstance(n, ast.Call) and isinstance(n.func, ast.Attribute) and n.func.attr == "__init__" \
                and isinstance(n.func.value, ast.Call) and isinstance(n.func.value.func, ast.Name) and n.func.value.func.id == "super":
            for k in n.keywords:
                if k.arg == kw:
                    found.append(k.value)
    if len(found) != 1:
        raise TranslateError(f"{clsname}.__init__: super().__init__({kw}=...) not found exactly once")
    r = resolve_classes(mod, found[0], cls_node, clsname)
    if r == PARAM:
        raise TranslateError(f"{clsname}: {kw} is a parameter")
    return r


def zl(codes):
    return "[" + "; ".join(f"{c}" for c in codes) + "]"


class _Disagree(Exception):
    pass


def _through(handlers, k):
    for caught, raised in handlers:
        codes = sorted(caught) if type(caught).__name__ == "Codes" else (None if caught == PARAM else excodes.caught_by(caught))
        if codes is not None and k in codes:
            return raised
    return k


def _semantic_diff(a, b):
    """'' when the two table values have the same effect on every probed class"""
    from . import c06probe
    if isinstance(a, dict):
        for key in a:
            d = _semantic_diff(a[key], b[key])
            if d:
                return f"{key}: {d}"
        return ""
    if isinstance(a, int) or isinstance(b, int):
        return "" if a == b else f"{a} vs {b}"
    if a and isinstance(a[0], list):        # list of try statements
        if len(a) != len(b):
            return "different number of try statements"
        for i, (x, y) in enumerate(zip(a, b)):
            d = _semantic_diff(x, y)
            if d:
                return f"try #{i}: {d}"
        return ""
    bad = [excodes.NAME[k] for k, _c in c06probe.probe_classes() if _through(a, k) != _through(b, k)]
    return ("classes " + ", ".join(bad[:6])) if bad else ""


METHODS = {}      # definition name -> "ast" | "behavioural" (filled by generate(), reported in the evidence)


def site_coq(site, qual):
    classes, raised = site
    if type(classes).__name__ == "Codes":
        return f"({zl(sorted(classes))}, {raised})"
    if classes == PARAM:
        raise TranslateError(f"{qual}: unexpected constructor parameter in an except clause")
    return f"({zl(excodes.caught_by(classes))}, {raised})"


def try_coq(handlers, qual):
    return "[" + "; ".join(site_coq(h, qual) for h in handlers) + "]"


def need(cond, msg):
    if not cond:
        raise TranslateError(msg)


def generate() -> str:
    js = Mod("serializers/json.py")
    ln = Mod("serializers/line.py")
    st = Mod("serializers/struct.py")
    pk = Mod("serializers/pickle.py")
    b64 = Mod("serializers/wrapper/base64.py")
    cz = Mod("serializers/wrapper/compressor.py")
    bs = Mod("serializers/base_stream.py")
    pr = Mod("protocol.py")
    out = ["From Coq Require Import ZArith List.", "Import ListNotations.", "Local Open Scope Z_scope.", "",
           "(* class codes: " + ", ".join(f"{k}={n}" for k, n, _ in excodes.UNIVERSE) + " *)", ""]

    def defn(name, typ, body):
        out.append(f"Definition {name} : {typ} := {body}.")

    T = "list (list Z * Z)%type"        # one try statement: its handlers

    from . import c06probe
    METHODS.clear()

    def with_fallback(name, ast_fn, probe_fn):
        """AST first; a shape outside the fragment falls back on running the real method with probes"""
        try:
            if os.environ.get("VERIF_C06_FORCE_BEHAVIOURAL") == "1" and probe_fn is not None:
                raise TranslateError("AST translation disabled by VERIF_C06_FORCE_BEHAVIOURAL")
            val = ast_fn()
            METHODS[name] = "ast"
            if probe_fn is not None:
                # cross-check: what the AST says the try statements do must be what the real method does
                try:
                    beh = probe_fn()
                except Exception:
                    beh = None          # the probe is only a fallback: its failure is not an alarm
                if beh is not None:
                    diff = _semantic_diff(val, beh)
                    if diff:
                        raise _Disagree(f"{name}: the except clauses as read from the AST and the behaviour of the real method "
                                        f"disagree: {diff}")
                    METHODS[name] = "ast (probe agrees)"
            return val
        except _Disagree as exc:
            raise TranslateError(str(exc))
        except TranslateError as ast_err:
            if probe_fn is None:
                raise
            try:
                val = probe_fn()
            except TranslateError as probe_err:
                raise TranslateError(f"{ast_err} ; behavioural fallback: {probe_err}")
            except Exception as exc:
                raise TranslateError(f"{ast_err} ; behavioural fallback crashed: {type(exc).__name__}: {exc}")
            METHODS[name] = "behavioural"
            out.append(f"(* {name}: (behavioural) the AST translator said: {str(ast_err)[:160].replace('*)', '* )').replace(chr(34), chr(39))} *)")
            return val

    def site_list(name, mod, qual, expect, pick=None, probe=None):
        """list of try statements"""
        def ast_fn():
            sites = sites_of(mod, qual, expect)
            if pick is not None:
                sites = [sites[i] for i in pick]
            for s in sites:
                try_coq(s, qual)
            return sites
        sites = with_fallback(name, ast_fn, probe)
        defn(name, f"list ({T})", "[" + "; ".join(try_coq(s, qual) for s in sites) + "]")
        return sites

    def one_site(name, mod, qual, expect, idx, probe=None):
        def ast_fn():
            s = sites_of(mod, qual, expect)[idx]
            try_coq(s, qual)
            return s
        site = with_fallback(name, ast_fn, probe)
        defn(name, T, try_coq(site, qual))
        return site

    defn("c_DeserializeError", "Z", str(excodes.BY_CLASS[excodes.CLASS[40]]))
    defn("c_EOFError", "Z", "12")
    defn("exception_codes", "list Z", zl(excodes.caught_by([Exception])))
    defn("deserialize_codes", "list Z", zl(excodes.caught_by([excodes.CLASS[40]])))
    # JSON: [str(); decoder.decode]
    site_list("json_oneshot", js, "JSONSerializer.deserialize", 2, probe=lambda: c06probe.json_sites("oneshot"))
    site_list("json_incr", js, "JSONSerializer.incremental_deserialize", 2, probe=lambda: c06probe.json_sites("incr"))
    # line: [str()]
    site_list("line_oneshot", ln, "StringLineSerializer.deserialize", 1, probe=lambda: c06probe.line_sites("oneshot"))
    site_list("line_incr", ln, "StringLineSerializer.incremental_deserialize", 1, probe=lambda: c06probe.line_sites("incr"))
    site_list("line_buf", ln, "StringLineSerializer.buffered_incremental_deserialize", 1, probe=lambda: c06probe.line_sites("buf"))
    # struct: [Struct.unpack] ; NamedTuple: [str() of the string fields]
    site_list("struct_oneshot", st, "AbstractStructSerializer.deserialize", 1)
    site_list("namedtuple_from_tuple", st, "NamedTupleStructSerializer.from_tuple", 1, probe=c06probe.namedtuple_sites)
    # base classes: the handler around self.deserialize(data)
    one_site("fixed_incr", bs, "FixedSizePacketSerializer.incremental_deserialize", 1, 0, probe=lambda: c06probe.base_site("fixed", "incr"))
    one_site("fixed_buf", bs, "FixedSizePacketSerializer.buffered_incremental_deserialize", 1, 0, probe=lambda: c06probe.base_site("fixed", "buf"))
    one_site("autosep_incr", bs, "AutoSeparatedPacketSerializer.incremental_deserialize", 1, 0, probe=lambda: c06probe.base_site("autosep", "incr"))
    one_site("autosep_buf", bs, "AutoSeparatedPacketSerializer.buffered_incremental_deserialize", 1, 0, probe=lambda: c06probe.base_site("autosep", "buf"))
    # base64: [b64decode]
    site_list("base64_oneshot", b64, "Base64EncoderSerializer.deserialize", 1)
    # pickle: [Unpickler.load]
    site_list("pickle_oneshot", pk, "PickleSerializer.deserialize", 1, probe=c06probe.pickle_sites)
    # file based: one try statement with the handlers EOFError, self.__expected_errors
    def fb_ast():
        fbo = sites_of(bs, "FileBasedPacketSerializer.deserialize", 1)[0]
        need(len(fbo) == 2 and fbo[0][0] != PARAM and fbo[1][0] == PARAM,
             "FileBasedPacketSerializer.deserialize: expected `except EOFError` then `except self.__expected_errors`")
        need(set(fbo[0][0]) == {EOFError}, "FileBasedPacketSerializer.deserialize: first handler must catch exactly EOFError")
        fbi = sites_of(bs, "FileBasedPacketSerializer.__generic_incremental_deserialize", 1)[0]
        need(len(fbi) == 2 and fbi[0][0] != PARAM and set(fbi[0][0]) == {EOFError} and fbi[0][1] == PASS,
             "FileBased generic deserializer: first handler must be `except EOFError` that swallows the error")
        need(fbi[1][0] == PARAM, "FileBased generic deserializer: second handler must catch self.__expected_errors")
        return {"fb_oneshot_eof_raised": fbo[0][1], "fb_oneshot_raised": fbo[1][1], "fb_incr_raised": fbi[1][1]}

    fbv = with_fallback("filebased", fb_ast, c06probe.filebased_values)
    for key in ("fb_oneshot_eof_raised", "fb_oneshot_raised", "fb_incr_raised"):
        need(isinstance(fbv[key], int) and fbv[key] >= 0, f"file based: {key} is not a class")
        defn(key, "Z", str(fbv[key]))

    # compressors
    def cz_ast():
        czo = sites_of(cz, "AbstractCompressorSerializer.deserialize", 1)[0]
        need(len(czo) == 1 and czo[0][0] == PARAM, "AbstractCompressorSerializer.deserialize: handler must catch self.__expected_error")
        czi = sites_of(cz, "AbstractCompressorSerializer.__generic_incremental_deserialize", 2)
        need(len(czi[0]) == 1 and czi[0][0][0] == PARAM, "compressor generic deserializer: first try must catch self.__expected_error")
        need(all(h[0] != PARAM for h in czi[1]), "compressor generic deserializer: second try must name its classes")
        try_coq(czi[1], "compressor inner")
        return {"cz_oneshot_raised": czo[0][1], "cz_incr_raised": czi[0][0][1], "cz_incr_inner": czi[1]}

    czv = with_fallback("compressor", cz_ast, c06probe.compressor_values)
    for key in ("cz_oneshot_raised", "cz_incr_raised"):
        need(isinstance(czv[key], int) and czv[key] >= 0, f"compressor: {key} is not a class")
    defn("cz_oneshot_raised", "Z", str(czv["cz_oneshot_raised"]))
    defn("cz_incr_raised", "Z", str(czv["cz_incr_raised"]))
    defn("cz_incr_inner", T, try_coq(czv["cz_incr_inner"], "compressor inner"))
    defn("zlib_expected", "list Z", zl(excodes.caught_by(super_init_kw(cz, "ZlibCompressorSerializer", "expected_decompress_error"))))
    defn("bz2_expected", "list Z", zl(excodes.caught_by(super_init_kw(cz, "BZ2CompressorSerializer", "expected_decompress_error"))))
    # protocols: first try statement = [IncrementalDeserializeError -> StreamProtocolParseError ; DeserializeError -> RuntimeError]
    one_site("stream_protocol", pr, "StreamProtocol.build_packet_from_chunks", 2, 0, probe=lambda: c06probe.protocol_site("stream"))
    one_site("bstream_protocol", pr, "BufferedStreamProtocol.build_packet_from_buffer", 2, 0, probe=lambda: c06probe.protocol_site("bstream"))
    one_site("dgram_protocol", pr, "DatagramProtocol.build_packet_from_datagram", 2, 0, probe=lambda: c06probe.protocol_site("dgram"))
    out.append("(* how each table was obtained: " + ", ".join(f"{k}={v}" for k, v in sorted(METHODS.items())) + " *)")
    defn("c_StreamProtocolParseError", "Z", "44")
    defn("c_DatagramProtocolParseError", "Z", "45")
    return "\n".join(out) + "\n"
