"""Run the real consumers of /repo on a stream case in the format of coq/Run/Stream.v.

input = [kind, cfg, dec, chunks, impl]   (see Run/Stream.v); impl = [name, args...] selects the real serializer:
   [b"autosep"]                       test subclass of AutoSeparatedPacketSerializer, identity codec (dec = 0)
   [b"autosep-ascii"]                 same, deserialize fails on a byte >= 128                   (dec = 1)
   [b"line", b"ascii"|b"latin-1"]     StringLineSerializer                                       (dec = 1 | 0)
   [b"fixed"] / [b"fixed-ascii"]      test subclass of FixedSizePacketSerializer                 (dec = 0 | 1)
   [b"b64", alphabet, checksum]       Base64EncoderSerializer over a bytes pass-through          (dec = table)
   [b"struct", fmt]                   StructSerializer                                           (dec = table)
   [b"jsonl"]                         JSONSerializer(use_lines=True)  (copying only)             (dec = table)
"""
from __future__ import annotations

from easynetwork.exceptions import DeserializeError, StreamProtocolParseError
from easynetwork.lowlevel._stream import BufferedStreamDataConsumer, StreamDataConsumer
from easynetwork.protocol import BufferedStreamProtocol, StreamProtocol
from easynetwork.serializers.abc import AbstractPacketSerializer
from easynetwork.serializers.base_stream import AutoSeparatedPacketSerializer, FixedSizePacketSerializer

ERR_CODES = {"LimitOverrunError": 0, "IncrementalDeserializeError": 1, "PacketConversionError": 2}


class IdAutoSep(AutoSeparatedPacketSerializer[bytes, bytes]):
    def __init__(self, sep, limit, ascii_only=False, **kw):
        super().__init__(sep, limit=limit, **kw)
        self.ascii_only = ascii_only

    def serialize(self, packet):
        return bytes(packet)

    def deserialize(self, data):
        if self.ascii_only and any(b >= 128 for b in data):
            raise DeserializeError("non-ascii")
        return data         # the very object the framing layer hands over (an alias of a reused buffer would show)


class IdFixed(FixedSizePacketSerializer[bytes, bytes]):
    def __init__(self, size, ascii_only=False):
        super().__init__(size)
        self.ascii_only = ascii_only

    def serialize(self, packet):
        return bytes(packet)

    def deserialize(self, data):
        if self.ascii_only and any(b >= 128 for b in data):
            raise DeserializeError("non-ascii")
        return data         # see IdAutoSep.deserialize


class BytesPassThrough(AbstractPacketSerializer[bytes, bytes]):
    def serialize(self, packet):
        return bytes(packet)

    def deserialize(self, data):
        return bytes(data)


def canon_packet(p) -> bytes:
    if isinstance(p, memoryview):
        try:
            return bytes(p)
        except ValueError:
            return b"<released memoryview>"
    if isinstance(p, (bytes, bytearray)):
        return bytes(p)
    if isinstance(p, str):
        try:
            return p.encode("latin-1")      # line serializers (ascii / latin-1): the received bytes themselves
        except UnicodeEncodeError:
            return p.encode("utf-8", "surrogateescape")
    return repr(p).encode()


NEWLINES = {b"\n": "LF", b"\r": "CR", b"\r\n": "CRLF"}


def make_serializer(kind, cfg, impl):
    name = impl[0]
    if kind in (0, 1):
        sep, limit, keep_end = cfg[0], cfg[1], bool(cfg[2])
        if name in (b"autosep", b"autosep-ascii"):
            assert not keep_end
            return IdAutoSep(sep, limit, ascii_only=(name == b"autosep-ascii"))
        if name == b"line":
            from easynetwork.serializers.line import StringLineSerializer
            errors = impl[2].decode() if len(impl) > 2 else "strict"     # [b"line", encoding, unicode_errors]
            return StringLineSerializer(NEWLINES[sep], encoding=impl[1].decode(), unicode_errors=errors, limit=limit,
                                        keep_end=keep_end)
        if name == b"b64":
            from easynetwork.serializers.wrapper.base64 import Base64EncoderSerializer
            assert not keep_end
            return Base64EncoderSerializer(BytesPassThrough(), alphabet=impl[1].decode(), checksum=bool(impl[2]),
                                           separator=sep, limit=limit)
        if name == b"jsonl":
            from easynetwork.serializers.json import JSONSerializer
            assert sep == b"\n" and keep_end and kind == 0
            return JSONSerializer(limit=limit, use_lines=True)
    else:
        size = cfg[0]
        if name in (b"fixed", b"fixed-ascii"):
            return IdFixed(size, ascii_only=(name == b"fixed-ascii"))
        if name == b"struct":
            from easynetwork.serializers.struct import StructSerializer
            s = StructSerializer(impl[1].decode())
            assert s.packet_size == size
            return s
    raise ValueError(f"unknown impl {impl!r} for kind {kind}")


def _event(fn):
    """Call consumer.next; return (event or None for StopIteration, crashed)."""
    try:
        pkt = fn()
    except StopIteration:
        return None, False
    except StreamProtocolParseError as exc:
        code = ERR_CODES.get(type(exc.error).__name__, 9)
        return [1, code, bytes(exc.remaining_data)], False
    except RuntimeError:
        return [2], True
    except Exception as exc:        # any other class leaving next(): never produced by the model
        return [9, type(exc).__name__.encode()], True
    return [0, _Raw(pkt)], False


class _Raw:
    """a delivered packet kept as the object the consumer returned; canonicalised only once the whole run is over
    (the application still holds its packets then: a packet aliasing a receive buffer that is reused would differ)"""
    __slots__ = ("obj",)

    def __init__(self, obj):
        self.obj = obj


def _canon_rounds(rounds):
    for r in rounds:
        for ev in r[1]:
            if len(ev) == 2 and isinstance(ev[1], _Raw):
                ev[1] = canon_packet(ev[1].obj)
    return rounds


class DigitsConverter:
    """accepts exactly the non-empty all-ASCII-digit strings"""

    def __new__(cls):
        from easynetwork.converter import AbstractPacketConverter
        from easynetwork.exceptions import PacketConversionError

        class _C(AbstractPacketConverter[str, str]):
            def create_from_dto_packet(self, packet):
                if not (packet and all("0" <= ch <= "9" for ch in packet)):
                    raise PacketConversionError("not digits")
                return packet

            def convert_to_dto_packet(self, obj):
                return obj

        return _C()


def run_copy(serializer, chunks, converter=None):
    consumer = StreamDataConsumer(StreamProtocol(serializer, converter))
    rounds = []
    for ch in chunks:
        evs = []
        ev, crashed = _event(lambda: consumer.next(ch))
        while ev is not None:
            evs.append(ev)
            if crashed:
                break
            ev, crashed = _event(lambda: consumer.next(None))
        rounds.append([len(ch), evs, bytes(consumer.get_buffer())])
        if crashed:
            break
    return _canon_rounds(rounds)


def run_buffered(serializer, sizehint, chunks, converter=None):
    consumer = BufferedStreamDataConsumer(BufferedStreamProtocol(serializer, converter), sizehint)
    rounds = []

    def held():
        v = consumer.get_value()
        return [] if v is None else [v]

    for ch in chunks:
        data = memoryview(ch)
        crashed = False
        guard = len(ch) + 1
        while len(data) and guard:
            guard -= 1
            try:
                view = consumer.get_write_buffer()
            except RuntimeError:
                rounds.append([0, [[2]], held()])
                crashed = True
                break
            with memoryview(view) as mv:
                n = min(mv.nbytes, len(data))
                mv[:n] = data[:n]
            del view
            data = data[n:]
            evs = []
            ev, crashed = _event(lambda: consumer.next(n))
            while ev is not None:
                evs.append(ev)
                if crashed:
                    break
                ev, crashed = _event(lambda: consumer.next(None))
            rounds.append([n, evs, held()])
            if crashed:
                break
        if crashed:
            break
    return _canon_rounds(rounds)


_TIMEOUTS = [0]


def run_impl(inp):
    """every run is bounded by a watchdog: a receive path that spins (e.g. inside an exception constructor) yields the
    event [8] (never produced by the model) instead of hanging the check"""
    import contextlib
    import faulthandler
    import signal

    class _Timeout(BaseException):
        pass

    def _on_alarm(_sig, _frm):
        raise _Timeout()

    # after a few expiries the receive path is known to spin: later cases get a short leash, and after ten the
    # remaining cases are answered with the hang event at once, so that the run still ends with a verdict
    if _TIMEOUTS[0] >= 10:
        return [[0, [[8]], b""]]
    seconds = (20 if _TIMEOUTS[0] < 3 else 2) + sum(len(c) for c in inp[3]) // 2000
    old = signal.signal(signal.SIGALRM, _on_alarm)
    signal.setitimer(signal.ITIMER_REAL, seconds)
    faulthandler.dump_traceback_later(seconds * 6, exit=True)
    try:
        return _run_impl(inp)
    except _Timeout:
        _TIMEOUTS[0] += 1
        return [[0, [[8]], b""]]
    finally:
        signal.setitimer(signal.ITIMER_REAL, 0)
        faulthandler.cancel_dump_traceback_later()
        signal.signal(signal.SIGALRM, old)


def _run_impl(inp):
    kind, cfg, _dec, chunks, impl = inp[:5]
    if kind in (11, 12):        # kinds 0 / 1 with a converter in the protocol
        ser = make_serializer(kind - 11, cfg, impl)
        conv = DigitsConverter()
        return run_copy(ser, chunks, conv) if kind == 11 else run_buffered(ser, cfg[3], chunks, conv)
    ser = make_serializer(kind, cfg, impl)
    if kind in (0, 2):
        return run_copy(ser, chunks)
    hint = cfg[3] if kind == 1 else cfg[1]
    return run_buffered(ser, hint, chunks)


def decode_table(kind, cfg, impl, stream: bytes, positions="frames"):
    """Tabulate the inner one-shot codec on the payloads the framing extracts from [stream].
    positions="frames": the frames of the sequential split from position 0 (what a correct framer extracts);
    positions="all": for every start position, the bytes up to the first separator at or after it / the next
    [size] bytes (needed when overruns make the framer restart in the middle of a frame).  A payload the model
    extracts that is not tabulated shows up as a disagreement, never as agreement."""
    ser = make_serializer(kind, cfg, impl)
    rows, seen = [], set()

    def add(payload):
        if payload in seen:
            return
        seen.add(payload)
        try:
            p = ser.deserialize(payload)
        except DeserializeError:
            rows.append([payload, [1]])
        else:
            rows.append([payload, [0, canon_packet(p)]])

    if kind in (0, 1):
        sep, keep_end = cfg[0], bool(cfg[2])
        i = 0
        while i <= len(stream):
            j = stream.find(sep, i)
            if j < 0:
                break
            add(stream[i:j + len(sep)] if keep_end else stream[i:j])
            i = i + 1 if positions == "all" else j + len(sep)
    else:
        size = cfg[0]
        step = 1 if positions == "all" else size
        for i in range(0, len(stream) - size + 1, step):
            add(stream[i:i + size])
    return rows


def all_chunkings(s: bytes):
    n = len(s)
    if n == 0:
        yield []
        return
    for mask in range(1 << (n - 1)):
        out, start = [], 0
        for i in range(1, n):
            if mask >> (i - 1) & 1:
                out.append(s[start:i])
                start = i
        out.append(s[start:])
        yield out


def cuts_to_chunks(s: bytes, cuts):
    cuts = sorted(set(c for c in cuts if 0 < c < len(s)))
    out, start = [], 0
    for c in cuts:
        out.append(s[start:c])
        start = c
    out.append(s[start:])
    return [c for c in out if c]


def abnormal(rounds):
    """a hang (event 8) or an exception class the receive path must never let out (event 9)"""
    for r in rounds:
        for e in r[1]:
            if e and e[0] == 8:
                return "the receive path did not come back (watchdog expired)"
            if e and e[0] == 9:
                return f"the receive path raised {bytes(e[1]).decode(errors='replace')}"
    return None


def spec_events_py(kind, cfg, impl, stream: bytes):
    """Frame-by-frame decoding of [stream] stated directly (the property oracle's reference):
    returns (events, leftover) where events = [0, pkt] | [1, 1(decode error)] ; no size limit applied."""
    ser = make_serializer(kind, cfg, impl)
    evs = []
    pos = 0
    if kind in (0, 1):
        sep, keep_end = cfg[0], bool(cfg[2])
        while True:
            j = stream.find(sep, pos)
            if j < 0:
                break
            payload = stream[pos:j + len(sep)] if keep_end else stream[pos:j]
            pos = j + len(sep)
            try:
                evs.append([0, canon_packet(ser.deserialize(payload))])
            except DeserializeError:
                evs.append([1, 1])
    else:
        size = cfg[0]
        while len(stream) - pos >= size:
            payload = stream[pos:pos + size]
            pos += size
            try:
                evs.append([0, canon_packet(ser.deserialize(payload))])
            except DeserializeError:
                evs.append([1, 1])
    return evs, stream[pos:]
