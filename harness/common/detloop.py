"""Deterministic asyncio event loop: virtual clock, never sleeps.

DetLoop is a SelectorEventLoop whose selector polls real file descriptors with a zero timeout and, when nothing is
ready, advances a virtual clock by the timeout asyncio asked for.  `loop.time()` is the virtual clock, so every
call_later / timeout / sleep in the code under test is exact and instantaneous.  If the loop would block forever
(no timer, nothing ready) DeadlockError is raised instead of hanging (set allow_block=seconds to wait for threads).

Typical use:
    with detloop.running() as loop:
        result = loop.run_until_complete(main())
or  detloop.run(main())             # like asyncio.run, on a fresh DetLoop
Helpers: loop.steps (number of _run_once iterations), loop.advance_log (virtual sleeps performed).
"""
from __future__ import annotations

import asyncio
import contextlib
import selectors


class DeadlockError(RuntimeError):
    pass


class _VirtualSelector(selectors.BaseSelector):
    def __init__(self):
        self._real = selectors.DefaultSelector()
        self.loop = None

    def register(self, fileobj, events, data=None):
        return self._real.register(fileobj, events, data)

    def unregister(self, fileobj):
        return self._real.unregister(fileobj)

    def modify(self, fileobj, events, data=None):
        return self._real.modify(fileobj, events, data)

    def get_key(self, fileobj):
        return self._real.get_key(fileobj)

    def get_map(self):
        return self._real.get_map()

    def close(self):
        self._real.close()

    def select(self, timeout=None):
        loop = self.loop
        loop.steps += 1
        if loop.max_steps is not None and loop.steps > loop.max_steps:
            raise DeadlockError(f"more than {loop.max_steps} loop iterations (livelock?)")
        ready = self._real.select(0)
        if ready:
            return ready
        if timeout is None:
            if loop.allow_block:
                ready = self._real.select(loop.allow_block)
                if ready:
                    return ready
            raise DeadlockError("event loop would block forever: no ready callback, no timer, no I/O")
        if timeout > 0:
            loop._vtime += timeout
            loop.advance_log.append(timeout)
        return []


class DetLoop(asyncio.SelectorEventLoop):
    def __init__(self, max_steps=200000, allow_block=0.0):
        sel = _VirtualSelector()
        super().__init__(selector=sel)
        sel.loop = self
        self._vtime = 0.0
        self.steps = 0
        self.max_steps = max_steps
        self.allow_block = allow_block
        self.advance_log = []
        self._clock_resolution = 1e-9

    def time(self):
        return self._vtime


@contextlib.contextmanager
def running(**kw):
    loop = DetLoop(**kw)
    try:
        asyncio.set_event_loop(loop)
        yield loop
    finally:
        try:
            pending = [t for t in asyncio.all_tasks(loop) if not t.done()]
            for t in pending:
                t.cancel()
            if pending:
                with contextlib.suppress(BaseException):
                    loop.run_until_complete(asyncio.gather(*pending, return_exceptions=True))
            with contextlib.suppress(BaseException):
                loop.run_until_complete(loop.shutdown_asyncgens())
        finally:
            asyncio.set_event_loop(None)
            loop.close()


def run(coro, **kw):
    with running(**kw) as loop:
        return loop.run_until_complete(coro)
