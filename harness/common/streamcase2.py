"""Run the REAL serializers of /repo on the cases of coq/Run/C06.v (raw JSON, file based, compressors, and the
all-modes kind 20), and tabulate the library oracles those models take as input.

kinds 4..8 (one consumer, see Run/C06.v):  input = [kind, cfg, tabs, chunks, impl]
kind 20 (all modes of one serializer):     input = [20, family, cfg, tabs, data, chunks, hint, impl]
   impl = [name, args...] selects the real class:
     family 0  [b"line", encoding]                      StringLineSerializer
     family 1  [b"jsonl"]                               JSONSerializer(use_lines=True)
     family 2  [b"jsonraw"]                             JSONSerializer(use_lines=False)
     family 3  [b"struct", fmt] | [b"ntstruct", fmt]    StructSerializer | NamedTupleStructSerializer (string fields, utf-8)
     family 4  [b"b64", alphabet, checksum, inner]      Base64EncoderSerializer(inner)
     family 5  [b"pickle"]                              PickleSerializer (restricted unpickler)
     family 6  [b"zlib"|b"bz2", inner]                  ZlibCompressorSerializer | BZ2CompressorSerializer (inner)
     family 7  [b"fb", variant]                         test subclass of FileBasedPacketSerializer, see LenPrefixed
   inner = b"json" | b"pickle" | b"bytes"
Every call into the implementation runs under a watchdog (SIGALRM -> WatchdogTimeout, faulthandler as a last resort)."""
from __future__ import annotations

import base64
import binascii
import bz2
import contextlib
import faulthandler
import hashlib
import io
import json
import pickle
import signal
import struct
import sys
import zlib
from typing import NamedTuple

from easynetwork.exceptions import (
    DatagramProtocolParseError,
    DeserializeError,
    StreamProtocolParseError,
)
from easynetwork.lowlevel._stream import BufferedStreamDataConsumer, StreamDataConsumer
from easynetwork.protocol import BufferedStreamProtocol, DatagramProtocol, StreamProtocol
from easynetwork.serializers.base_stream import FileBasedPacketSerializer

from . import excodes
from .streamcase import ERR_CODES, BytesPassThrough, NEWLINES

WATCHDOG_S = 20
WS = b" \t\n\r"


class WatchdogTimeout(BaseException):
    pass


def _on_alarm(_sig, _frm):
    raise WatchdogTimeout()


EXPIRIES = [0]            # how many times the watchdog fired in this process
LEASH_AFTER, SHORT_LEASH_S, GIVE_UP_AFTER = 3, 2, 10
HARD_DEADLINE_S = 90      # a hang the interpreter cannot interrupt (inside C code): verdict and exit instead of a dead check
CURRENT = [None]          # the case being run, for the hard-deadline verdict
ACTIVE = [0]


def leash(seconds):
    """the time a call may take: generous at first, short once several calls have hung (a check must end with a verdict
    in minutes even when MANY cases hang)"""
    return seconds if EXPIRIES[0] < LEASH_AFTER else min(seconds, SHORT_LEASH_S)


def _hard_deadline():
    """last resort, from a timer thread: the main thread is stuck where signals are not delivered"""
    import json
    import os
    import sys
    from . import sx as _sx
    try:
        d = os.path.join(os.path.dirname(os.path.dirname(os.path.dirname(os.path.abspath(__file__)))), "replays", "C06")
        os.makedirs(d, exist_ok=True)
        path = os.path.join(d, "hang.json")
        with open(path, "w") as fh:
            json.dump(dict(property="C06", failure="hang: the implementation did not return and could not be interrupted",
                           input_sx=_sx.to_text(_sx.norm(CURRENT[0])) if CURRENT[0] is not None else None), fh)
        faulthandler.dump_traceback(file=sys.stderr)
        print("VIOLATION property=C06 replay=replays/C06/hang.json", flush=True)
    finally:
        os._exit(1)


@contextlib.contextmanager
def watchdog(seconds=WATCHDOG_S):
    import threading
    seconds = leash(seconds)
    ACTIVE[0] += 1
    old = signal.signal(signal.SIGALRM, _on_alarm)
    signal.setitimer(signal.ITIMER_REAL, seconds)
    hard = threading.Timer(HARD_DEADLINE_S, _hard_deadline)
    hard.daemon = True
    hard.start()
    try:
        yield
    except WatchdogTimeout:
        EXPIRIES[0] += 1
        raise
    finally:
        ACTIVE[0] -= 1
        signal.setitimer(signal.ITIMER_REAL, 0)
        hard.cancel()
        signal.signal(signal.SIGALRM, old)


def _expired():
    """a call timed out and the event was recorded: count it and re-arm the timer for what the enclosing watchdog still runs"""
    EXPIRIES[0] += 1
    if ACTIVE[0] > 0:
        signal.setitimer(signal.ITIMER_REAL, leash(WATCHDOG_S))


def guarded(fn, on_hang):
    """run fn() under its own watchdog; on_hang when it does not return in time"""
    try:
        with watchdog():
            return fn()
    except WatchdogTimeout:
        return on_hang


def canon_packet(p) -> bytes:
    try:
        if isinstance(p, (bytes, bytearray, memoryview)):
            return bytes(p)
        if isinstance(p, str):
            return p.encode("utf-8", "surrogatepass")
        r = repr(p)
        if len(r) > 200:
            return (r[:80] + "#" + hashlib.sha256(r.encode("utf-8", "surrogatepass")).hexdigest()[:16]).encode("utf-8", "surrogatepass")
        return r.encode("utf-8", "surrogatepass")
    except (RecursionError, ValueError, MemoryError):
        return b"<unrepresentable>"


# ------------------------------------------------------------------ real serializers

class RestrictedUnpickler(pickle.Unpickler):
    """No global lookup: random bytes must not be able to import or call anything."""

    def find_class(self, module, name):
        raise pickle.UnpicklingError(f"global {module}.{name} is forbidden")


class LenPrefixed(FileBasedPacketSerializer[bytes, bytes]):
    """Test file format: one length byte n, then n payload bytes.
       payload starting with b"!"   -> ValueError (declared as expected_load_error)
       payload starting with b"?"   -> KeyError   (NOT declared: escapes)
       variant b"eager": a short read leaves the file position at the end (what pickle/cbor do)
       variant b"lazy" : a short read is detected from the buffer size and leaves the position after the length byte
       variant b"back1": ValueError is raised after stepping the file position back by one byte
       variant b"seek1": ValueError is raised after file.seek(1) (an error position far behind what was read: with a small
                         receive buffer the remainder does not fit and BufferedStreamDataConsumer raises ValueError)"""

    def __init__(self, limit, variant=b"eager", debug=False, expected=(ValueError,)):
        super().__init__(expected_load_error=expected, limit=limit, debug=debug)
        self.variant = variant
        self.log = None        # when a list: (content, answer) of every load_from_file call

    def dump_to_file(self, packet, file):
        file.write(bytes([len(packet)]) + bytes(packet))

    def _load(self, file):
        head = file.read(1)
        if not head:
            raise EOFError
        n = head[0]
        if self.variant == b"lazy":
            if len(file.getbuffer()) - file.tell() < n:
                raise EOFError
        payload = file.read(n)
        if len(payload) < n:
            raise EOFError
        if payload[:1] == b"!":
            if self.variant == b"back1":
                file.seek(file.tell() - 1)
            elif self.variant == b"seek1":
                file.seek(1)
            raise ValueError("bang")
        if payload[:1] == b"?":
            raise KeyError("what")
        return payload

    def load_from_file(self, file):
        if self.log is None:
            return self._load(file)
        content = file.getvalue()
        try:
            p = self._load(file)
        except EOFError:
            self.log.append((content, [0, file.tell()]))
            raise
        except Exception as exc:
            self.log.append((content, [2, excodes.code_of(type(exc)), file.tell()]))
            raise
        self.log.append((content, [1, canon_packet(p), file.tell()]))
        return p


FB_EXPECTED = excodes.caught_by([ValueError])
FB_EXPECTED_BROAD = excodes.caught_by([Exception])      # expected_load_error=Exception: every load failure is declared


class Point(NamedTuple):
    name: bytes
    x: int


def make_inner(name, debug=False):
    if name == b"json":
        from easynetwork.serializers.json import JSONSerializer
        return JSONSerializer(debug=debug)
    if name == b"pickle":
        from easynetwork.serializers.pickle import PickleSerializer
        return PickleSerializer(unpickler_cls=RestrictedUnpickler, debug=debug)
    if name == b"line":
        from easynetwork.serializers.line import StringLineSerializer
        return StringLineSerializer("LF", encoding="ascii", debug=debug)
    if name == b"bytes":
        return BytesPassThrough()
    raise ValueError(name)


INNER_FAM = {b"json": 1, b"pickle": 5, b"bytes": 9, b"line": 0}


def make_serializer(family, cfg, impl):
    """impl may end with b"debug": the serializer (and the one it wraps) is built with debug=True, so that the
    error_info construction of every error path runs"""
    impl = list(impl)
    debug = bool(impl) and impl[-1] == b"debug"
    if debug:
        impl = impl[:-1]
    name = impl[0]
    if family == 0:
        from easynetwork.serializers.line import StringLineSerializer
        sep, limit, keep_end = cfg[0], cfg[1], bool(cfg[2])
        return StringLineSerializer(NEWLINES[sep], encoding=impl[1].decode(), limit=limit, keep_end=keep_end, debug=debug)
    if family in (1, 2):
        from easynetwork.serializers.json import JSONSerializer
        return JSONSerializer(limit=cfg[0], use_lines=(family == 1), debug=debug)
    if family == 3:
        from easynetwork.serializers.struct import NamedTupleStructSerializer, StructSerializer
        if name == b"struct":
            s = StructSerializer(impl[1].decode(), debug=debug)
        else:
            s = NamedTupleStructSerializer(Point, {"name": impl[1].decode(), "x": "B"}, encoding="utf-8", debug=debug)
        assert s.packet_size == cfg[0], (s.packet_size, cfg)
        return s
    if family == 4:
        from easynetwork.serializers.wrapper.base64 import Base64EncoderSerializer
        sep, limit = cfg[0], cfg[1]
        assert INNER_FAM[impl[3]] == cfg[2]
        return Base64EncoderSerializer(make_inner(impl[3], debug), alphabet=impl[1].decode(), checksum=bool(impl[2]),
                                       separator=sep, limit=limit, debug=debug)
    if family == 5:
        return make_inner(b"pickle", debug)
    if family == 6:
        from easynetwork.serializers.wrapper.compressor import BZ2CompressorSerializer, ZlibCompressorSerializer
        assert (name == b"zlib") == (cfg[0] == 0) and INNER_FAM[impl[1]] == cfg[1]
        cls = ZlibCompressorSerializer if name == b"zlib" else BZ2CompressorSerializer
        return cls(make_inner(impl[1], debug), debug=debug)
    if family == 7:
        if list(cfg[1]) == FB_EXPECTED_BROAD:
            return LenPrefixed(cfg[0], impl[1], debug=debug, expected=(Exception,))
        assert list(cfg[1]) == FB_EXPECTED
        return LenPrefixed(cfg[0], impl[1], debug=debug)
    raise ValueError(f"unknown family {family}")


# ------------------------------------------------------------------ running the consumers

def _event(fn):
    """consumer.next -> (event or None for StopIteration, stop?)"""
    try:
        pkt = fn()
    except StopIteration:
        return None, False
    except StreamProtocolParseError as exc:
        code = ERR_CODES.get(type(exc.error).__name__, 9)
        return [1, code, bytes(exc.remaining_data)], False
    except RuntimeError:
        return [2], True
    except WatchdogTimeout:
        _expired()
        return [8], True
    except Exception as exc:      # any other class leaving next(): never produced by the model
        return [9, excodes.code_of(type(exc))], True
    return [0, canon_packet(pkt)], False


def run_copy(serializer, chunks, spans=None):
    consumer = StreamDataConsumer(StreamProtocol(serializer))
    rounds, fed = [], 0
    for ch in chunks:
        fed += len(ch)
        evs = []
        budget = len(consumer.get_buffer()) + len(ch) + 2
        ev, stop = _event(lambda: consumer.next(ch))
        while ev is not None:
            evs.append(ev)
            if spans is not None:
                spans.append(fed - len(consumer.get_buffer()))
            if len(evs) > budget:          # a receive loop that makes no progress: never produced by the model
                evs.append([7])
                stop = True
            if stop:
                break
            ev, stop = _event(lambda: consumer.next(None))
        rounds.append([len(ch), evs, bytes(consumer.get_buffer())])
        if stop:
            break
    return rounds


def run_buffered(serializer, sizehint, chunks, spans=None):
    consumer = BufferedStreamDataConsumer(BufferedStreamProtocol(serializer), sizehint)
    rounds, fed = [], 0

    def held():
        v = consumer.get_value()
        return [] if v is None else [v]

    for ch in chunks:
        data = memoryview(ch)
        stop = False
        guard = len(ch) + 1
        while len(data) and guard:
            guard -= 1
            try:
                view = consumer.get_write_buffer()
            except RuntimeError:
                rounds.append([0, [[2]], held()])
                stop = True
                break
            with memoryview(view) as mv:
                n = min(mv.nbytes, len(data))
                mv[:n] = data[:n]
            del view
            data = data[n:]
            fed += n
            evs = []
            ev, stop = _event(lambda: consumer.next(n))
            while ev is not None:
                if ev[0] == 1:
                    # the observable is what the CALLER reads from the exception (exc.remaining_data); the model
                    # predicts the remainder the consumer re-injects, so a view of the receive buffer that was
                    # overwritten before being copied shows up as a disagreement (defect fixed in /repo 330bfb7)
                    _saved_remainder(consumer, ev[2])
                evs.append(ev)
                if spans is not None and ev[0] in (0, 1):
                    spans.append(fed - (len(ev[2]) if ev[0] == 1 else _saved_len(consumer)))
                if len(evs) > fed + 2:
                    evs.append([7])
                    stop = True
                if stop:
                    break
                ev, stop = _event(lambda: consumer.next(None))
            rounds.append([n, evs, held()])
            if stop:
                break
        if stop:
            break
    return rounds


ALIASED = [0]


def _saved_remainder(consumer, seen: bytes) -> bytes:
    """The remainder the buffered consumer kept for the next parse, compared with what the exception carries (a
    difference is counted in ALIASED; since /repo 330bfb7 the exception carries a copy, so the count must be 0)."""
    if not seen:
        return b""
    kept = (consumer.get_value() or b"")[:len(seen)]
    if kept != seen:
        ALIASED[0] += 1
    return kept


def _saved_len(consumer):
    return getattr(consumer, "_BufferedStreamDataConsumer__already_written", 0)


def run_oneshot(serializer, data):
    try:
        p = serializer.deserialize(data)
    except DeserializeError:
        return [1]
    except WatchdogTimeout:
        _expired()
        return [8]
    except Exception as exc:
        return [2, excodes.code_of(type(exc))]
    return [0, canon_packet(p)]


def run_dgram(serializer, data):
    try:
        p = DatagramProtocol(serializer).build_packet_from_datagram(data)
    except DatagramProtocolParseError:
        return [1]
    except WatchdogTimeout:
        _expired()
        return [8]
    except Exception as exc:
        return [2, excodes.code_of(type(exc))]
    return [0, canon_packet(p)]


HAS_COPY = {0, 1, 2, 3, 4, 6, 7}
HAS_BUF = {0, 3, 4, 6, 7}


HUNG = {}                 # (family, implementation name) -> number of cases of that configuration that hung


def _has_hang(out):
    if isinstance(out, list):
        return out == [8] or any(_has_hang(x) for x in out)
    return False


def run_impl(inp):
    kind = inp[0]
    CURRENT[0] = inp
    hung_round = [[0, [[8]], b""]]
    if kind == 20:
        _k, family, cfg, _tabs, data, chunks, hint, impl = inp[:8]
    else:
        _k, cfg0, _tabs, chunks, impl = inp[:5]
        family, cfg, hint = simple_family(kind, cfg0, impl)
    key = (family, bytes(impl[0]))
    if HUNG.get(key, 0) >= LEASH_AFTER and EXPIRIES[0] >= GIVE_UP_AFTER:
        # hanging is established for this serializer: answer at once (an outcome the model never produces)
        if kind == 20:
            return [[8], [8], hung_round if family in HAS_COPY else [], hung_round if family in HAS_BUF and hint > 0 else []]
        return hung_round
    if kind == 20:
        out = [guarded(lambda: run_oneshot(make_serializer(family, cfg, impl), data), [8]),
               guarded(lambda: run_dgram(make_serializer(family, cfg, impl), data), [8])]
        out.append(guarded(lambda: run_copy(make_serializer(family, cfg, impl), chunks), hung_round) if family in HAS_COPY else [])
        out.append(guarded(lambda: run_buffered(make_serializer(family, cfg, impl), hint, chunks), hung_round)
                   if family in HAS_BUF and hint > 0 else [])
    else:
        ser = make_serializer(family, cfg, impl)
        if kind in (4, 5, 7):
            out = guarded(lambda: run_copy(ser, chunks), hung_round)
        else:
            out = guarded(lambda: run_buffered(ser, hint, chunks), hung_round)
    if _has_hang(out):
        HUNG[key] = HUNG.get(key, 0) + 1
    return out


def simple_family(kind, cfg, impl):
    """kinds 4..8 -> (family, family cfg, sizehint)"""
    if kind == 4:
        return 2, [cfg[0]], 0
    if kind == 5:
        return 7, [cfg[0], cfg[1]], 0
    if kind == 6:
        return 7, [cfg[0], cfg[1]], cfg[2]
    if kind in (7, 8):
        which = 0 if impl[0] == b"zlib" else 1
        return 6, [which, INNER_FAM[impl[1]]], (cfg[1] if kind == 8 else 0)
    raise ValueError(kind)


# ------------------------------------------------------------------ library oracles (tabulated by calling the libraries)

def _raise_row(step, exc):
    return [2, step, excodes.code_of(type(exc))]


def json_answer(payload: bytes):
    """what str(payload, 'utf-8', 'strict') then json.JSONDecoder().decode answer"""
    try:
        doc = str(payload, "utf-8", "strict")
    except Exception as exc:
        return _raise_row(0, exc)
    try:
        p = json.JSONDecoder().decode(doc)
    except Exception as exc:
        return _raise_row(1, exc)
    return [0, canon_packet(p)]


def str_answer(payload: bytes, encoding: str):
    try:
        return [0, canon_packet(str(payload, encoding, "strict"))]
    except Exception as exc:
        return _raise_row(0, exc)


def struct_answer(payload: bytes, impl):
    if impl[0] == b"struct":
        try:
            return [0, canon_packet(struct.Struct("!" + impl[1].decode() if impl[1][:1] not in b"@=<>!" else impl[1].decode()).unpack(payload))]
        except Exception as exc:
            return _raise_row(0, exc)
    fmt = "!" + impl[1].decode() + "B"
    try:
        name, x = struct.Struct(fmt).unpack(payload)
    except Exception as exc:
        return _raise_row(0, exc)
    try:
        name = str(name.rstrip(b"\0"), "utf-8", "strict")
    except Exception as exc:
        return _raise_row(1, exc)
    return [0, canon_packet(Point(name, x))]


def pickle_load_answer(data: bytes):
    """loader-table answer of RestrictedUnpickler(BytesIO(data)).load()"""
    with io.BytesIO(data) as f:
        try:
            p = RestrictedUnpickler(f).load()
        except EOFError:
            return [0, f.tell()]
        except Exception as exc:
            return [2, excodes.code_of(type(exc)), f.tell()]
        return [1, canon_packet(p), f.tell()]


def pickle_answer(data: bytes):
    """ans-table answer of PickleSerializer.deserialize's library part (used for an inner pickle serializer)"""
    a = pickle_load_answer(data)
    if a[0] == 0:
        return [2, 0, excodes.BY_CLASS[EOFError]]
    if a[0] == 2:
        return [2, 0, a[1]]
    if a[2] != len(data):
        return [1]
    return [0, a[1]]


def inner_key(inner: bytes, data: bytes) -> bytes:
    """what the inner serializer hands to its library call: the line serializer first strips trailing separators"""
    if inner == b"line":
        while data.endswith(b"\n"):
            data = data.removesuffix(b"\n")
    return bytes(data)


def inner_answer(inner: bytes, data: bytes):
    if inner == b"line":
        return str_answer(inner_key(inner, data), "ascii")
    if inner == b"json":
        return json_answer(data)
    if inner == b"pickle":
        return pickle_answer(data)
    return [0, bytes(data)]


def b64_answer(token: bytes, alphabet: bytes, checksum: bool):
    dec = base64.standard_b64decode if alphabet == b"standard" else base64.urlsafe_b64decode
    try:
        data = dec(token)
    except Exception as exc:
        return _raise_row(0, exc)
    if checksum:
        data, digest = data[:-32], data[-32:]
        if hashlib.sha256(data).digest() != digest:
            return [1]
    return [0, bytes(data)]


class _RecDecompressor:
    def __init__(self, real, log):
        self._real, self._log, self._total, self._out = real, log, b"", []

    def decompress(self, data):
        self._total += bytes(data)
        try:
            out = self._real.decompress(data)
        except Exception as exc:
            self._log.append((self._total, [2, excodes.code_of(type(exc))]))
            raise
        if out:
            self._out.append(out)
        if self._real.eof:
            self._log.append((self._total, [1, b"".join(self._out), bytes(self._real.unused_data)]))
        else:
            self._log.append((self._total, [0]))
        return out

    @property
    def eof(self):
        return self._real.eof

    @property
    def unused_data(self):
        return self._real.unused_data


def _recording_compressor(cfg, impl, log):
    real = make_serializer(6, cfg, impl)

    class Rec(type(real)):
        def new_decompressor_stream(self):
            return _RecDecompressor(super().new_decompressor_stream(), log)

    dbg = bool(impl) and impl[-1] == b"debug"
    return Rec(make_inner(impl[1], dbg), debug=dbg)


def _merge(rows_list):
    table, seen = [], {}
    for key, ans in rows_list:
        key = bytes(key)
        if key in seen:
            if seen[key] != ans:
                raise AssertionError(f"library oracle is not a function of its input: {key!r}: {seen[key]!r} vs {ans!r}")
            continue
        seen[key] = ans
        table.append([key, ans])
    return table


def _sep_payloads(stream, sep, keep_end, starts):
    out = []
    for i in starts:
        j = stream.find(sep, i)
        if j < 0:
            continue
        out.append(stream[i:j + len(sep)] if keep_end else stream[i:j])
    return out


def _starts(family, cfg, impl, stream, chunks, hint, small=48):
    """candidate frame starts: every position for small streams, else the event boundaries of the real runs"""
    if len(stream) <= small:
        return list(range(len(stream) + 1))
    spans = [0]
    if family in HAS_COPY:
        run_copy(make_serializer(family, cfg, impl), chunks, spans)
    if family in HAS_BUF and hint > 0:
        run_buffered(make_serializer(family, cfg, impl), hint, chunks, spans)
    return sorted({s for s in spans if 0 <= s <= len(stream)})


def tabulate(family, cfg, impl, data, chunks, hint):
    """The `tabs` field of a kind-20 case: the answers of every library call the models can make on this input."""
    stream = b"".join(chunks)
    with watchdog(60):
        if family == 0:
            sep, keep_end, enc = cfg[0], bool(cfg[2]), impl[1].decode()
            keys = _sep_payloads(stream, sep, keep_end, _starts(family, cfg, impl, stream, chunks, hint))
            d = data
            if not keep_end:
                while d.endswith(sep):
                    d = d.removesuffix(sep)
            keys.append(d)
            return _merge((k, str_answer(k, enc)) for k in keys)
        if family == 1:
            keys = _sep_payloads(stream, b"\n", True, _starts(family, cfg, impl, stream, chunks, hint)) + [data]
            return _merge((k, json_answer(k)) for k in keys)
        if family == 2:
            keys = [data]
            if len(stream) <= 24:
                keys += [stream[i:j] for i in range(len(stream)) for j in range(i + 1, len(stream) + 1)]
            else:
                bounds = _starts(family, cfg, impl, stream, chunks, hint, small=0)
                for a, b in zip(bounds, bounds[1:] + [len(stream)]):
                    for span in (stream[a:b], stream[a:]):
                        keys += [span, span.lstrip(WS)]
            return _merge((k, json_answer(k)) for k in keys if k or k == data)
        if family == 3:
            size = cfg[0]
            st = _starts(family, cfg, impl, stream, chunks, hint)
            keys = [stream[i:i + size] for i in st if i + size <= len(stream)] + [data]
            return _merge((k, struct_answer(k, impl)) for k in keys)
        if family == 4:
            sep = cfg[0]
            keys = _sep_payloads(stream, sep, False, _starts(family, cfg, impl, stream, chunks, hint)) + [data]
            t1 = _merge((k, b64_answer(k, impl[1], bool(impl[2]))) for k in keys)
            t2 = _merge((inner_key(impl[3], row[1][1]), inner_answer(impl[3], row[1][1])) for row in t1 if row[1][0] == 0)
            return [t1, t2]
        if family == 5:
            return _merge([(data, pickle_load_answer(data))])
        if family == 6:
            log = []
            run_oneshot(_recording_compressor(cfg, impl, log), data)
            run_copy(_recording_compressor(cfg, impl, log), chunks)
            if hint > 0:
                run_buffered(_recording_compressor(cfg, impl, log), hint, chunks)
            t1 = _merge(log)
            t2 = _merge((inner_key(impl[1], row[1][1]), inner_answer(impl[1], row[1][1])) for row in t1 if row[1][0] == 1)
            return [t1, t2]
        if family == 7:
            log = []
            for runner in (lambda s: run_oneshot(s, data), lambda s: run_copy(s, chunks), lambda s: run_buffered(s, hint, chunks) if hint > 0 else None):
                ser = make_serializer(family, cfg, impl)
                ser.log = log
                runner(ser)
            return _merge(log)
    raise ValueError(family)


def _tabulate_or_empty(family, cfg, impl, data, chunks, hint):
    key = (family, bytes(impl[0]))
    if HUNG.get(key, 0) >= LEASH_AFTER and EXPIRIES[0] >= GIVE_UP_AFTER:
        return []
    before = EXPIRIES[0]
    try:
        tabs = tabulate(family, cfg, impl, data, chunks, hint)
    except WatchdogTimeout:
        tabs = []
    if EXPIRIES[0] > before:
        HUNG[key] = HUNG.get(key, 0) + 1
    return tabs


def make_case(family, cfg, impl, data, chunks, hint):
    return [20, family, cfg, _tabulate_or_empty(family, cfg, impl, data, chunks, hint), data, chunks, hint, impl]


def simple_tabs(kind, cfg, impl, chunks):
    """`tabs` of a kind 4..8 case (declared failures only, as Run/Stream.v's dec)."""
    family, fcfg, hint = simple_family(kind, cfg, impl)
    stream = b"".join(chunks)
    full = _tabulate_or_empty(family, fcfg, impl, stream, chunks, hint)
    if full == []:
        return []

    def plain(rows):
        return [[k, ([0, a[1]] if a[0] == 0 else [1])] for k, a in rows]

    if kind == 4:
        return plain(full)
    if kind in (5, 6):
        return full
    return [full[0], plain(full[1])]


def make_simple_case(kind, cfg, impl, chunks):
    return [kind, cfg, simple_tabs(kind, cfg, impl, chunks), chunks, impl]
