"""Behavioural extraction of the except-clause tables (fallback of c06params when a handler is outside the AST fragment).

For one call site, run the REAL method with a probe (codec, decoder hook, unpickler, loader, decompressor, wrapped
serializer, serializer) that raises each exception class of the universe at that site, with debug=False and debug=True,
and tabulate which class comes out.  The result is the same structure the AST translator produces: for the try statement
guarding the site, handlers (codes caught, code raised).  Fails closed (TranslateError) when the probe does not reach the
site, when something is swallowed where a raise is expected, or when the outcome is not a function of the raised class
(debug on/off disagree)."""
from __future__ import annotations

import codecs

from . import excodes
from .runner import TranslateError

_CURRENT = [None]          # the exception instance the probes raise


def make_exc(cls):
    import json
    from easynetwork import exceptions as enx
    if issubclass(cls, UnicodeDecodeError):
        return cls("probe", b"x", 0, 1, "probe")
    if issubclass(cls, UnicodeEncodeError):
        return cls("probe", "x", 0, 1, "probe")
    if issubclass(cls, UnicodeTranslateError):
        return cls("x", 0, 1, "probe")
    if issubclass(cls, json.JSONDecodeError):
        return cls("probe", "{}", 0)
    if issubclass(cls, enx.LimitOverrunError):
        return cls("probe", b"", 0)
    if issubclass(cls, enx.IncrementalDeserializeError):
        return cls("probe", b"")
    if issubclass(cls, enx.StreamProtocolParseError):
        return cls(b"", enx.IncrementalDeserializeError("probe", b""))
    if issubclass(cls, enx.BaseProtocolParseError):
        return cls(enx.DeserializeError("probe"))
    return cls("probe")


def _raise_current(*_a, **_k):
    raise _CURRENT[0]


def _codec_search(name):
    if name == "verif_probe":
        return codecs.CodecInfo(name="verif_probe", encode=lambda s, e="strict": (s.encode("latin-1"), len(s)),
                                decode=lambda b, e="strict": _raise_current())
    return None


codecs.register(_codec_search)


def _outcome(fn):
    """code of the class that leaves fn, or "none" """
    try:
        fn()
    except BaseException as exc:      # noqa: BLE001 - the whole point
        if isinstance(exc, StopIteration):
            return "none"
        return excodes.code_of(type(exc))
    return "none"


def probe_classes():
    # StopIteration is left out: it is how a generator returns, so it cannot be told apart from a normal completion
    return [(k, c) for k, _n, c in excodes.UNIVERSE if issubclass(c, Exception) and c is not StopIteration]


class Codes(list):
    """a handler's caught set given directly as class codes"""


def table(run, what, allow_none=()):
    """run(debug) -> callable executing the method once.  -> handlers [(Codes, raised)] of the try statement."""
    groups = {}
    for k, cls in probe_classes():
        outs = []
        for dbg in (False, True):
            _CURRENT[0] = make_exc(cls)
            outs.append(_outcome(run(dbg)))
        if outs[0] != outs[1]:
            raise TranslateError(f"{what}: behavioural probe: class {excodes.NAME[k]} gives {outs[0]} without debug and {outs[1]} with debug")
        o = outs[0]
        if o == "none":
            if k in allow_none:
                continue
            raise TranslateError(f"{what}: behavioural probe: raising {excodes.NAME[k]} at the site is swallowed (or the site was not reached)")
        if o != k:
            groups.setdefault(o, Codes()).append(k)
    return [(codes, raised) for raised, codes in sorted(groups.items())]


def reaches(run, what):
    """the probe must reach the site: a class nobody catches (SystemError-like marker) must come out unchanged"""
    class _Marker(Exception):
        pass
    _CURRENT[0] = _Marker("probe")
    try:
        run(False)()
    except _Marker:
        return
    except BaseException as exc:      # noqa: BLE001
        raise TranslateError(f"{what}: behavioural probe: an unknown class came out as {type(exc).__name__}: site not isolated")
    raise TranslateError(f"{what}: behavioural probe did not reach the site")


# ------------------------------------------------------------------ the sites

def _drive(gen, data):
    next(gen)
    gen.send(data)


def _drive_buffered(ser, data, size=64):
    buf = ser.create_deserializer_buffer(size)
    gen = ser.buffered_incremental_deserialize(buf)
    next(gen)
    with memoryview(buf) as mv:
        mv[:len(data)] = data
    gen.send(len(data))


def json_sites(mode):
    from easynetwork.serializers.json import JSONDecoderConfig, JSONSerializer

    def call(s):
        if mode == "oneshot":
            return lambda: s.deserialize(b"{}")
        return lambda: _drive(s.incremental_deserialize(), b"{}")

    def site0(dbg):
        return call(JSONSerializer(encoding="verif_probe", use_lines=False, debug=dbg))

    def site1(dbg):
        return call(JSONSerializer(decoder_config=JSONDecoderConfig(object_hook=_raise_current), use_lines=False, debug=dbg))

    what = f"JSONSerializer ({mode})"
    reaches(site0, what + " str()")
    reaches(site1, what + " decode()")
    return [table(site0, what + " str()"), table(site1, what + " decode()")]


def line_sites(mode):
    from easynetwork.serializers.line import StringLineSerializer

    def site(dbg):
        s = StringLineSerializer("LF", encoding="verif_probe", debug=dbg)
        if mode == "oneshot":
            return lambda: s.deserialize(b"x")
        if mode == "incr":
            return lambda: _drive(s.incremental_deserialize(), b"x\n")
        return lambda: _drive_buffered(s, b"x\n")

    what = f"StringLineSerializer ({mode})"
    reaches(site, what)
    return [table(site, what)]


def namedtuple_sites():
    from typing import NamedTuple
    from easynetwork.serializers.struct import NamedTupleStructSerializer

    class Pt(NamedTuple):
        name: str
        x: int

    def site(dbg):
        s = NamedTupleStructSerializer(Pt, {"name": "2s", "x": "B"}, encoding="verif_probe", debug=dbg)
        return lambda: s.from_tuple((b"ab", 1))

    reaches(site, "NamedTupleStructSerializer.from_tuple")
    return [table(site, "NamedTupleStructSerializer.from_tuple")]


def pickle_sites():
    from easynetwork.serializers.pickle import PickleSerializer

    class U:
        def __init__(self, *a, **k):
            pass
        load = _raise_current

    def site(dbg):
        s = PickleSerializer(unpickler_cls=U, debug=dbg)
        return lambda: s.deserialize(b"x")

    return [table(site, "PickleSerializer.deserialize")]


def base_site(kind, mode):
    from easynetwork.serializers.base_stream import AutoSeparatedPacketSerializer, FixedSizePacketSerializer
    base = FixedSizePacketSerializer if kind == "fixed" else AutoSeparatedPacketSerializer

    class S(base):
        def serialize(self, p):
            return b"x"
        deserialize = _raise_current

    def site(dbg):
        s = S(1, debug=dbg) if kind == "fixed" else S(b"\n", limit=64, debug=dbg)
        data = b"x" if kind == "fixed" else b"x\n"
        if mode == "incr":
            return lambda: _drive(s.incremental_deserialize(), data)
        return lambda: _drive_buffered(s, data)

    what = f"{base.__name__} ({mode})"
    reaches(site, what)
    return table(site, what)


def _expected_raised(run, what, expected_cls, other_cls):
    """a handler `except self.__expected...`: the class that comes out for an expected error; an unexpected class must
    come out unchanged"""
    outs = set()
    for dbg in (False, True):
        _CURRENT[0] = make_exc(expected_cls)
        outs.add(_outcome(run(dbg)))
    if len(outs) != 1 or "none" in outs:
        raise TranslateError(f"{what}: behavioural probe: expected error gives {outs}")
    _CURRENT[0] = make_exc(other_cls)
    if _outcome(run(False)) != excodes.code_of(other_cls):
        raise TranslateError(f"{what}: behavioural probe: an error that is not declared expected does not come out unchanged")
    return outs.pop()


def filebased_values():
    from easynetwork.serializers.base_stream import FileBasedPacketSerializer

    class S(FileBasedPacketSerializer):
        def __init__(self, dbg):
            super().__init__(expected_load_error=(ValueError,), limit=64, debug=dbg)

        def dump_to_file(self, p, f):
            f.write(b"x")
        load_from_file = _raise_current

    one = lambda dbg: (lambda: S(dbg).deserialize(b"x"))
    inc = lambda dbg: (lambda: _drive(S(dbg).incremental_deserialize(), b"x"))
    out = {}
    _CURRENT[0] = EOFError("probe")
    o = {_outcome(one(False)), _outcome(one(True))}
    if len(o) != 1 or "none" in o:
        raise TranslateError(f"FileBasedPacketSerializer.deserialize: behavioural probe: EOFError gives {o}")
    out["fb_oneshot_eof_raised"] = o.pop()
    out["fb_oneshot_raised"] = _expected_raised(one, "FileBasedPacketSerializer.deserialize", ValueError, KeyError)
    _CURRENT[0] = EOFError("probe")
    if _outcome(inc(False)) != "none" or _outcome(inc(True)) != "none":
        raise TranslateError("FileBased generic deserializer: behavioural probe: EOFError is not swallowed (the generator must yield again)")
    out["fb_incr_raised"] = _expected_raised(inc, "FileBased generic deserializer", ValueError, KeyError)
    return out


def compressor_values():
    from easynetwork.serializers.abc import AbstractPacketSerializer
    from easynetwork.serializers.wrapper.compressor import AbstractCompressorSerializer

    class Inner(AbstractPacketSerializer):
        def serialize(self, p):
            return b"x"

        def deserialize(self, d):
            return d

    class RInner(Inner):
        deserialize = _raise_current

    class DRaise:
        eof = False
        unused_data = b""
        decompress = _raise_current

    class DEof:
        unused_data = b""

        def __init__(self):
            self.eof = False

        def decompress(self, d):
            self.eof = True
            return bytes(d)

    def mk(inner, dec):
        class S(AbstractCompressorSerializer):
            def __init__(self, dbg):
                super().__init__(inner(), ValueError, debug=dbg)

            def new_compressor_stream(self):
                raise NotImplementedError

            def new_decompressor_stream(self):
                return dec()
        return S

    A = mk(Inner, DRaise)
    B = mk(RInner, DEof)
    one = lambda dbg: (lambda: A(dbg).deserialize(b"x"))
    inc = lambda dbg: (lambda: _drive(A(dbg).incremental_deserialize(), b"x"))
    inner_inc = lambda dbg: (lambda: _drive(B(dbg).incremental_deserialize(), b"x"))
    reaches(inner_inc, "compressor generic deserializer (inner deserialize)")
    return {
        "cz_oneshot_raised": _expected_raised(one, "AbstractCompressorSerializer.deserialize", ValueError, KeyError),
        "cz_incr_raised": _expected_raised(inc, "compressor generic deserializer", ValueError, KeyError),
        "cz_incr_inner": table(inner_inc, "compressor generic deserializer (inner deserialize)"),
    }


def protocol_site(which):
    from easynetwork.protocol import BufferedStreamProtocol, DatagramProtocol, StreamProtocol
    from easynetwork.serializers.abc import AbstractPacketSerializer, BufferedIncrementalPacketSerializer

    class S(BufferedIncrementalPacketSerializer):
        def serialize(self, p):
            return b"x"

        def incremental_serialize(self, p):
            yield b"x"

        deserialize = _raise_current

        def incremental_deserialize(self):
            yield
            raise _CURRENT[0]

        def create_deserializer_buffer(self, sizehint):
            return bytearray(8)

        def buffered_incremental_deserialize(self, buffer):
            yield
            raise _CURRENT[0]

    def site(_dbg):
        if which == "stream":
            return lambda: _drive(StreamProtocol(S()).build_packet_from_chunks(), b"x")
        if which == "bstream":
            p = BufferedStreamProtocol(S())

            def run():
                gen = p.build_packet_from_buffer(p.create_buffer(8))
                next(gen)
                gen.send(1)
            return run
        return lambda: DatagramProtocol(S()).build_packet_from_datagram(b"x")

    what = f"{which} protocol"
    reaches(site, what)
    return table(site, what)
