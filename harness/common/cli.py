import argparse, os, sys
from . import runner

def main():
    ap = argparse.ArgumentParser()
    ap.add_argument("property")
    ap.add_argument("--tier", default=os.environ.get("VERIF_TIER", "quick"), choices=["quick", "thorough"])
    ap.add_argument("--replay", default=None)
    a = ap.parse_args()
    sys.exit(runner.run(a.property.upper(), a.tier, a.replay))

main()
