"""C11 — a timeout is a budget for the whole blocking operation.

Case formats: see coq/Run/C11.v.  Trailing field (ignored by the model) `impl`:
  op 1: 0 StreamEndpoint over SocketStreamTransport | 1 StreamEndpoint over SSLStreamTransport (scripted SSL socket)
        | 2 TCPNetworkClient (lock layer)
  op 3: 0 TCPNetworkClient
Times are integer ticks of 2**-10 s on a virtual clock (time.perf_counter patched); selector, socket and locks are scripted.
"""
from __future__ import annotations

import itertools
import math
import socket as _socket

import iosim
import c04
from common import runner

PROPERTY_ID = "C11"
RUN_MODULE = "Run.C11"
PROPS_FILE = "Props/C11.v"
ALLOWED_AXIOMS = []
ANCHORS = [
    ("src/easynetwork/lowlevel/api_sync/transports/base_selector.py", "SelectorBaseTransport._retry"),
    ("src/easynetwork/lowlevel/api_sync/transports/base_selector.py", "SelectorStreamReadTransport.recv"),
    ("src/easynetwork/lowlevel/api_sync/transports/base_selector.py", "SelectorStreamWriteTransport.send"),
    ("src/easynetwork/lowlevel/api_sync/transports/base_selector.py", "SelectorDatagramReadTransport.recv"),
    ("src/easynetwork/lowlevel/api_sync/transports/base_selector.py", "SelectorDatagramWriteTransport.send"),
    ("src/easynetwork/lowlevel/api_sync/transports/abc.py", "StreamWriteTransport.send_all"),
    ("src/easynetwork/lowlevel/api_sync/transports/abc.py", "StreamReadTransport.recv"),
    ("src/easynetwork/lowlevel/api_sync/endpoints/stream.py", "_DataReceiverImpl.receive"),
    ("src/easynetwork/lowlevel/api_sync/endpoints/stream.py", "StreamEndpoint.recv_packet"),
    ("src/easynetwork/lowlevel/api_sync/endpoints/stream.py", "StreamEndpoint.send_packet"),
    ("src/easynetwork/lowlevel/_utils.py", "ElapsedTime.recompute_timeout"),
    ("src/easynetwork/lowlevel/_utils.py", "ElapsedTime.get_elapsed"),
    ("src/easynetwork/lowlevel/_utils.py", "lock_with_timeout"),
    ("src/easynetwork/lowlevel/_utils.py", "validate_timeout_delay"),
    ("src/easynetwork/clients/tcp.py", "TCPNetworkClient.send_packet"),
    ("src/easynetwork/clients/tcp.py", "TCPNetworkClient.recv_packet"),
    ("src/easynetwork/clients/udp.py", "UDPNetworkClient.send_packet"),
    ("src/easynetwork/clients/udp.py", "UDPNetworkClient.recv_packet"),
    ("src/easynetwork/clients/_iter.py", "ClientRecvIterator.__next__"),
    ("src/easynetwork/clients/_iter.py", "AsyncClientRecvIterator.__anext__"),
    ("src/easynetwork/clients/_iter.py", "AsyncClientRecvIterator.__init__"),
    ("src/easynetwork/clients/abc.py", "AbstractNetworkClient.iter_received_packets"),
]
RULE = ("_retry: every callback script of <= 3 answers over {returns, would-block-read, would-block-write, raises} x every "
        "selector script of <= 3 answers over {ready/not-ready} x elapsed {0, part, full, overshoot} x T in {0,1,3,8,inf,-1} x "
        "retry_interval {1,2,inf}; recv_packet / iter_received_packets: arrival schedules of <= 6 events over {data of k "
        "bytes, would-block, EOF, error} against packet sizes 1..4 and read sizes 1..4, lock free/held(acquired|not, elapsed), "
        "plain and TLS transports, endpoint and client level, UDP client; send_packet with lock contention.  Non-trivial = "
        "at least one selector or lock wait, or a partial read.")
TRUSTED = [
    "models coq/IO/{Retry,Budget,SendAll,SendMsg}.v hand-written from base_selector.py/_utils.py/endpoints/stream.py/clients",
    "harness/iosim.py: scripted socket/selector/lock and virtual clock (time.perf_counter) in integer ticks",
]
ASSUMPTIONS = [
    "processing time is not a model quantity: only selector and lock waits (and scripted call costs) advance the clock",
    "total_wait <= T holds under the environment hypothesis that no wait lasts longer than requested; in general the "
    "overshoot of the last wait only is added",
]


# ---- the lock table of the clients, re-derived from the AST (fail closed)
def _lock_acquisitions(cls, name, seen=()):
    """[(lock, 'timed'|'plain'), ...] performed by method `name` of class node `cls`, calls to other methods inlined."""
    import ast
    methods = {n.name: n for n in cls.body if isinstance(n, ast.FunctionDef)}
    if name not in methods or name in seen:
        return []
    out = []

    def lock_name(node):
        # self.__send_lock.get()  /  self.__receive_lock.get()
        if isinstance(node, ast.Call) and isinstance(node.func, ast.Attribute) and node.func.attr == "get" \
                and isinstance(node.func.value, ast.Attribute) and isinstance(node.func.value.value, ast.Name) \
                and node.func.value.value.id == "self" and node.func.value.attr.endswith("_lock"):
            return node.func.value.attr.strip("_").replace("_lock", "")
        return None

    for node in ast.walk(methods[name]):
        if isinstance(node, ast.With):
            for item in node.items:
                ce = item.context_expr
                ln = lock_name(ce)
                if ln:
                    out.append((ln, "plain"))
                elif isinstance(ce, ast.Call) and isinstance(ce.func, ast.Attribute) and ce.func.attr == "lock_with_timeout":
                    ln = lock_name(ce.args[0]) if ce.args else None
                    if not ln:
                        raise runner.TranslateError(f"{cls.name}.{name}: lock_with_timeout on an unrecognised lock")
                    out.append((ln, "timed"))
        elif isinstance(node, ast.Call) and isinstance(node.func, ast.Attribute) and isinstance(node.func.value, ast.Name) \
                and node.func.value.id == "self" and node.func.attr in methods and node.func.attr != name:
            out.extend(_lock_acquisitions(cls, node.func.attr, seen + (name,)))
        elif isinstance(node, ast.Attribute) and node.attr.endswith("_lock") and isinstance(node.value, ast.Name) \
                and node.value.id == "self":
            pass
    return out


def check_lock_table():
    """The model (coq/IO/ClientLocks.v) assumes: send_packet = [send lock, timed]; recv_packet = [receive lock, timed];
    every other public method takes at most the send lock, without timeout."""
    import ast
    import os
    for rel, clsname in (("src/easynetwork/clients/tcp.py", "TCPNetworkClient"), ("src/easynetwork/clients/udp.py", "UDPNetworkClient")):
        try:
            tree = ast.parse(open(os.path.join(runner.REPO, rel)).read())
        except SyntaxError as exc:
            raise runner.TranslateError(f"{rel} does not parse: {exc}")
        cls = next((n for n in tree.body if isinstance(n, ast.ClassDef) and n.name == clsname), None)
        if cls is None:
            raise runner.TranslateError(f"{clsname} not found")
        for fn in cls.body:
            if not isinstance(fn, ast.FunctionDef) or fn.name.startswith("_"):
                continue
            acq = _lock_acquisitions(cls, fn.name)
            want = {"send_packet": [("send", "timed")], "recv_packet": [("receive", "timed")]}.get(fn.name)
            if want is not None:
                if acq != want:
                    raise runner.TranslateError(f"lock table: {clsname}.{fn.name} acquires {acq}, the model assumes {want}")
            elif any(a != ("send", "plain") for a in acq):
                raise runner.TranslateError(f"lock table: {clsname}.{fn.name} acquires {acq}, the model assumes only "
                                            f"the send lock without timeout")


def params():
    check_lock_table()
    flag = c04.drops_empty_views()
    return f"Definition sendmsg_drops_empty_views : bool := {'true' if flag else 'false'}.\n"


# ---------------------------------------------------------------------------------------------------------------
class ScriptedLock:
    """threading.Lock look-alike: ans = None (free) | (acquired, elapsed_ticks) for a blocking acquire."""

    def __init__(self, clock):
        self.clock = clock
        self.ans = None
        self.waits = []
        self.held = False

    def acquire(self, blocking=True, timeout=-1):
        if self.ans is None:
            self.held = True
            return True
        if not blocking:
            return False
        self.waits.append([] if timeout == -1 else ([-7] if isinstance(iosim.ticks(timeout), tuple) else [iosim.ticks(timeout)]))
        acq, el = self.ans
        self.clock.advance(el)
        if acq:
            self.held = True
        return bool(acq)

    def release(self):
        self.held = False

    def __enter__(self):
        self.acquire()
        return self

    def __exit__(self, *a):
        self.release()

    def locked(self):
        return self.held


class _LockBox:
    def __init__(self, lock):
        self.lock = lock

    def get(self):
        return self.lock


_listener = None


def tcp_pair(cls, script):
    """A connected AF_INET pair: (scripted socket of class cls, peer)."""
    global _listener
    if _listener is None:
        _listener = _socket.socket(_socket.AF_INET, _socket.SOCK_STREAM)
        _listener.bind(("127.0.0.1", 0))
        _listener.listen(16)
    c = cls(_socket.AF_INET, _socket.SOCK_STREAM)
    c.script = script
    _socket.socket.connect(c, _listener.getsockname())
    peer, _ = _listener.accept()
    peer.setblocking(False)
    return c, peer


def fixed_protocol(n):
    from easynetwork.protocol import StreamProtocol
    from easynetwork.serializers.base_stream import FixedSizePacketSerializer

    class Fixed(FixedSizePacketSerializer):
        def serialize(self, packet):
            return bytes(packet)

        def deserialize(self, data):
            return bytes(data)

    return StreamProtocol(Fixed(n))


def _lock_of(v):
    """sx lock -> ('none' | None | (acq, el))"""
    if v == -1:
        return "none"
    if v == 0:
        return None
    return (v[0], v[1])


def _py_timeout(T):
    return None if T is None else iosim.secs(T)


# ---- op 0
def run_retry(inp):
    from easynetwork.lowlevel.api_sync.transports.base_selector import SelectorBaseTransport, WouldBlockOnRead, WouldBlockOnWrite

    class T0(SelectorBaseTransport):
        def close(self):
            pass

        def is_closed(self):
            return False

        @property
        def extra_attributes(self):
            return {}

    _, T, ri, cbs, sels = inp[:5]
    T, ri = iosim.sx_tmo(T), iosim.sx_tmo(ri)
    clock = iosim.Clock()
    sel = iosim.SelectorScript(clock, [tuple(a) for a in sels])
    script = [tuple(a) for a in cbs]
    calls = [0]
    bound = len(script) + 1

    class Boom(Exception):
        pass

    def callback():
        calls[0] += 1
        if calls[0] > bound:
            raise iosim.SpinDetected()
        if not script:
            return "ok"
        kind, cost = script.pop(0)
        clock.advance(cost)
        if kind == 0:
            return "ok"
        if kind == 1:
            raise WouldBlockOnRead(0)
        if kind == 2:
            raise WouldBlockOnWrite(0)
        raise Boom()

    tr = T0(iosim.secs(ri), sel.factory)
    start = clock.now
    code, ret = 0, []
    with clock.installed(), iosim.alarm(120.0):
        try:
            val, rest = tr._retry(callback, iosim.secs(T))
            t = iosim.ticks(rest)
            ret = [iosim.tmo_sx(t) if not isinstance(t, tuple) else [-7]]
            if val != "ok":
                code = 41
        except Boom:
            code = 30
        except BaseException as exc:  # noqa: BLE001
            if isinstance(exc, (KeyboardInterrupt, SystemExit)):
                raise
            code = iosim.exc_code(exc)
    return [code, ret, sel.waits, iosim.ticks(clock.now - start)]


# ---- op 1 / 2
def _stream_target(impl, ri, n, bufsize, clock, sel, script):
    """-> (object with recv_packet / iter_received_packets, closer, locks or None)"""
    from easynetwork.lowlevel.api_sync.transports.socket import SocketStreamTransport, SSLStreamTransport
    from easynetwork.lowlevel.api_sync.endpoints.stream import StreamEndpoint
    from easynetwork.clients.tcp import TCPNetworkClient

    proto = fixed_protocol(n)
    if impl == 2:
        sock, peer = tcp_pair(iosim.ScriptedSocket, script)
        client = TCPNetworkClient(sock, proto, max_recv_size=bufsize, retry_interval=iosim.secs(ri))
        endpoint = client._TCPNetworkClient__endpoint
        transport = endpoint._StreamEndpoint__transport
        transport._selector_factory = sel.factory
        rlock, slock = ScriptedLock(clock), ScriptedLock(clock)
        client._TCPNetworkClient__receive_lock = _LockBox(rlock)
        client._TCPNetworkClient__send_lock = _LockBox(slock)

        def close():
            slock.ans = None
            client.close()
            peer.close()
        return client, close, (rlock, slock), peer
    if impl == 1:
        raw, peer = iosim.make_pair(_socket.socket, None)
        transport = SSLStreamTransport(raw, iosim.FakeSSLContext(script), iosim.secs(ri), server_side=False,
                                       server_hostname="x", standard_compatible=False, selector_factory=sel.factory)
    else:
        sock, peer = iosim.make_pair(iosim.ScriptedSocket, script)
        transport = SocketStreamTransport(sock, iosim.secs(ri), selector_factory=sel.factory)
    ep = StreamEndpoint(transport, proto, max_recv_size=bufsize)

    def close():
        ep.close()
        peer.close()
    return ep, close, None, peer


OTHER_HELD = (1, 77)      # the lock the call must NOT touch is held elsewhere (it would be granted after 77 ticks)


def _locks_after(locks, other, o0):
    """[send lock free, receive lock free, waits on the other lock during the call]"""
    if not locks:
        return [1, 1, []]
    rlock, slock = locks
    return [0 if slock.held else 1, 0 if rlock.held else 1, other.waits[o0:]]


def _one_call(fn, clock, sel, lock, locks=None, other=None):
    """Run one blocking call; -> [outcome, waits, dt, lockwaits, locks afterwards]"""
    w0 = len(sel.waits)
    l0 = len(lock.waits) if lock else 0
    o0 = len(other.waits) if other else 0
    if other is not None:
        other.ans = OTHER_HELD
    start = clock.now
    try:
        with iosim.alarm(120.0):
            pkt = fn()
        outcome = [0, bytes(pkt)]
    except StopIteration as exc:
        cause = exc.__cause__
        outcome = [iosim.exc_code(cause)] if cause is not None else [42]
    except BaseException as exc:  # noqa: BLE001
        if isinstance(exc, (KeyboardInterrupt, SystemExit)):
            raise
        outcome = [iosim.exc_code(exc)]
    dt = iosim.ticks(clock.now - start)
    if other is not None:
        other.ans = None
    return [outcome, sel.waits[w0:], dt if isinstance(dt, int) else -7, lock.waits[l0:] if lock else [],
            _locks_after(locks, other, o0)]


def _recv_script(script):
    return [(a[0], a[1], a[2]) for a in script]


def run_calls(inp):
    _, ri, n, bufsize, calls, rscript, sels = inp[:7]
    impl = inp[7]
    ri = iosim.sx_tmo(ri)
    clock = iosim.Clock()
    sel = iosim.SelectorScript(clock, [tuple(a) for a in sels])
    total = sum(len(a[1]) for a in rscript)
    script = iosim.SockScript(clock, recv=_recv_script(rscript), bound=len(rscript) + total + 2 + 4 * len(calls))
    target, close, locks, _peer = _stream_target(impl, ri, n, bufsize, clock, sel, script)
    out = []
    try:
        with clock.installed():
            for T, lk in calls:
                T = iosim.sx_tmo(T)
                lock = None
                if locks:
                    lock = locks[0]
                    lock.ans = _lock_of(lk)
                out.append(_one_call(lambda: target.recv_packet(timeout=_py_timeout(T)), clock, sel, lock, locks,
                                     locks[1] if locks else None))
    finally:
        close()
    return out


def run_iter(inp):
    _, ri, n, bufsize, T, lockans, rscript, sels = inp[:8]
    ri, T = iosim.sx_tmo(ri), iosim.sx_tmo(T)
    clock = iosim.Clock()
    sel = iosim.SelectorScript(clock, [tuple(a) for a in sels])
    total = sum(len(a[1]) for a in rscript)
    script = iosim.SockScript(clock, recv=_recv_script(rscript), bound=len(rscript) + total + 2 + 4 * len(lockans))
    target, close, locks, _peer = _stream_target(2, ri, n, bufsize, clock, sel, script)
    out = []
    try:
        with clock.installed():
            it = target.iter_received_packets(timeout=_py_timeout(T))
            for lk in lockans:
                locks[0].ans = _lock_of(lk)
                out.append(_one_call(lambda: next(it), clock, sel, locks[0], locks, locks[1]))
    finally:
        close()
    return out


# ---- op 3
def run_client_send(inp):
    from easynetwork.lowlevel import constants
    from easynetwork.clients.tcp import TCPNetworkClient

    _, has_sendmsg, iov, chunks, T, ri, lk, sscript, sels = inp[:9]
    T, ri = iosim.sx_tmo(T), iosim.sx_tmo(ri)
    clock = iosim.Clock()
    sel = iosim.SelectorScript(clock, [tuple(a) for a in sels])
    script = iosim.SockScript(clock, send=[tuple(a) for a in sscript], bound=c04.fuel_bound(chunks, sscript))
    sock, peer = tcp_pair(iosim.ScriptedSocket if has_sendmsg else iosim.NoSendmsgSocket, script)
    client = TCPNetworkClient(sock, c04._chunk_protocol(), max_recv_size=64, retry_interval=iosim.secs(ri))
    transport = client._TCPNetworkClient__endpoint._StreamEndpoint__transport
    transport._selector_factory = sel.factory
    slock, rlock = ScriptedLock(clock), ScriptedLock(clock)
    client._TCPNetworkClient__send_lock = _LockBox(slock)
    client._TCPNetworkClient__receive_lock = _LockBox(rlock)
    slock.ans = _lock_of(lk)
    rlock.ans = OTHER_HELD
    saved = constants.SC_IOV_MAX
    constants.SC_IOV_MAX = iov
    start = clock.now
    code = 0
    try:
        with clock.installed(), iosim.alarm(120.0):
            try:
                client.send_packet(c04._typed(chunks), timeout=_py_timeout(T))
            except BaseException as exc:  # noqa: BLE001
                if isinstance(exc, (KeyboardInterrupt, SystemExit)):
                    raise
                code = iosim.exc_code(exc)
        dt = iosim.ticks(clock.now - start)
        import time as _t
        wire = b""
        want = bytes(script.accepted)
        deadline = _t.monotonic() + 120.0
        while len(wire) < len(want) and _t.monotonic() < deadline:     # loopback TCP delivery is asynchronous
            wire += iosim.drain(peer)
        if wire != want:
            code = 40
        after = [0 if slock.held else 1, 0 if rlock.held else 1, list(rlock.waits)]
    finally:
        constants.SC_IOV_MAX = saved
        slock.ans = None
        rlock.ans = None
        client.close()
        peer.close()
    return [code, wire, sel.waits, dt, slock.waits, after]


# ---- op 4 / 5 (UDP client)
def _udp_client(ri, clock, sel, script):
    from easynetwork.clients.udp import UDPNetworkClient
    from easynetwork.protocol import DatagramProtocol
    from easynetwork.serializers.abc import AbstractPacketSerializer

    class Raw(AbstractPacketSerializer):
        def serialize(self, packet):
            return bytes(packet)

        def deserialize(self, data):
            return bytes(data)

    a = iosim.ScriptedSocket(_socket.AF_INET, _socket.SOCK_DGRAM)
    a.script = script
    b = _socket.socket(_socket.AF_INET, _socket.SOCK_DGRAM)
    a.bind(("127.0.0.1", 0))
    b.bind(("127.0.0.1", 0))
    _socket.socket.connect(a, b.getsockname())
    b.connect(a.getsockname())
    b.setblocking(False)
    client = UDPNetworkClient(a, DatagramProtocol(Raw()), retry_interval=iosim.secs(ri))
    endpoint = client._UDPNetworkClient__endpoint
    transport = endpoint._DatagramEndpoint__transport
    transport._selector_factory = sel.factory
    rlock, slock = ScriptedLock(clock), ScriptedLock(clock)
    client._UDPNetworkClient__receive_lock = _LockBox(rlock)
    client._UDPNetworkClient__send_lock = _LockBox(slock)

    def close():
        slock.ans = None
        rlock.ans = None
        client.close()
        b.close()
    return client, close, rlock, slock, b


def run_udp_recv(inp):
    _, ri, T, lk, rscript, sels = inp[:6]
    ri, T = iosim.sx_tmo(ri), iosim.sx_tmo(T)
    clock = iosim.Clock()
    sel = iosim.SelectorScript(clock, [tuple(a) for a in sels])
    script = iosim.SockScript(clock, recv=_recv_script(rscript), bound=len(rscript) + len(sels) + 2)
    script.dgram = True
    client, close, rlock, slock, _peer = _udp_client(ri, clock, sel, script)
    rlock.ans = _lock_of(lk)
    try:
        with clock.installed():
            return _one_call(lambda: client.recv_packet(timeout=_py_timeout(T)), clock, sel, rlock, (rlock, slock), slock)
    finally:
        close()


def run_udp_send(inp):
    _, ri, T, lk, data, sscript, sels = inp[:7]
    ri, T = iosim.sx_tmo(ri), iosim.sx_tmo(T)
    clock = iosim.Clock()
    sel = iosim.SelectorScript(clock, [tuple(a) for a in sels])
    script = iosim.SockScript(clock, send=[(a[0], 1 << 20, a[2]) if a[0] == 0 else tuple(a) for a in sscript], bound=len(sscript) + 2)
    client, close, rlock, slock, peer = _udp_client(ri, clock, sel, script)
    slock.ans = _lock_of(lk)
    rlock.ans = OTHER_HELD
    start = clock.now
    code = 0
    try:
        with clock.installed(), iosim.alarm(120.0):
            try:
                client.send_packet(data, timeout=_py_timeout(T))
            except BaseException as exc:  # noqa: BLE001
                if isinstance(exc, (KeyboardInterrupt, SystemExit)):
                    raise
                code = iosim.exc_code(exc)
        dt = iosim.ticks(clock.now - start)
        wire = bytes(script.accepted)
        after = [0 if slock.held else 1, 0 if rlock.held else 1, list(rlock.waits)]
    finally:
        close()
    return [code, wire, sel.waits, dt, slock.waits, after]


# ---- op 6: _retry in a time-indexed environment
def run_retry_env(inp):
    import selectors as _selectors
    from easynetwork.lowlevel.api_sync.transports.base_selector import SelectorBaseTransport, WouldBlockOnRead

    class T0(SelectorBaseTransport):
        def close(self):
            pass

        def is_closed(self):
            return False

        @property
        def extra_attributes(self):
            return {}

    _, T, ri, tau, spur = inp[:5]
    cost = inp[5] if len(inp) > 5 else 0
    T, ri = iosim.sx_tmo(T), iosim.sx_tmo(ri)
    clock = iosim.Clock()
    start = clock.now
    waits = []
    calls = [0]
    bound = max(tau, 0) + 3

    def now():
        return int(round((clock.now - start) / iosim.TICK))

    class EnvSelector:
        def __enter__(self):
            return self

        def __exit__(self, *a):
            pass

        def register(self, fileobj, events, data=None):
            self.events = events

        def select(self, timeout=None):
            n = now()
            if tau <= n:                                              # already ready: returns at once
                waits.append([0, [] if timeout is None else [iosim.ticks(timeout)]])
                return [(None, self.events)]
            ev = min([tau] + [x for x in spur if n < x < tau])       # first readiness instant after now
            if timeout is None:
                waits.append([0, []])
                clock.advance(ev - n)
                return [(None, self.events)]
            t = iosim.ticks(timeout)
            waits.append([0, [t] if isinstance(t, int) else [-7]])
            if not isinstance(t, int):
                return []
            if ev <= n + t:
                clock.advance(ev - n)
                return [(None, self.events)]
            clock.advance(t)
            return []

    def callback():
        calls[0] += 1
        if calls[0] > bound:
            raise iosim.SpinDetected()
        ready = tau <= now()
        clock.advance(cost)
        if ready:
            return "ok"
        raise WouldBlockOnRead(0)

    tr = T0(iosim.secs(ri), EnvSelector)
    code, ret = 0, []
    with clock.installed(), iosim.alarm(120.0):
        try:
            val, rest = tr._retry(callback, iosim.secs(T))
            t = iosim.ticks(rest)
            ret = [iosim.tmo_sx(t) if not isinstance(t, tuple) else [-7]]
        except BaseException as exc:  # noqa: BLE001
            if isinstance(exc, (KeyboardInterrupt, SystemExit)):
                raise
            code = iosim.exc_code(exc)
    return [code, ret, waits, now()]


# ---- op 7: AsyncClientRecvIterator on the deterministic loop
def run_async_iter(inp):
    import asyncio
    import time as _time
    from common import detloop
    from easynetwork.clients._iter import AsyncClientRecvIterator
    from easynetwork.lowlevel.api_async.backend._asyncio.backend import AsyncIOBackend

    _, T, arr = inp[:3]
    T = iosim.sx_tmo(T)
    out = []
    with iosim.alarm(120.0), detloop.running() as loop:
        backend = AsyncIOBackend()
        saved = _time.perf_counter
        _time.perf_counter = loop.time

        class Client:
            i = 0

            def backend(self):
                return backend

            async def recv_packet(self):
                d = arr[Client.i]
                Client.i += 1
                if d < 0:
                    raise ConnectionResetError(104, "scripted")
                if d > 0:
                    await asyncio.sleep(d * iosim.TICK)
                return b"p"

        async def main():
            it = AsyncClientRecvIterator(Client(), _py_timeout(T))
            for _ in arr:
                t0 = loop.time()
                try:
                    await anext(it)
                    code = 0
                except StopAsyncIteration as exc:
                    code = iosim.exc_code(exc.__cause__) if exc.__cause__ is not None else 42
                except BaseException as exc:  # noqa: BLE001
                    if isinstance(exc, (KeyboardInterrupt, SystemExit)):
                        raise
                    code = iosim.exc_code(exc)
                dt = iosim.ticks(loop.time() - t0)
                out.append([code, dt if isinstance(dt, int) else -7])

        try:
            loop.run_until_complete(main())
        finally:
            _time.perf_counter = saved
    return out


# ---- op 8: real loopback sockets
def run_real_recv(inp, force=False):
    import time as _t0
    import realio as _r
    if not force and _r.skip_now():
        return [[45]]
    t0 = _t0.monotonic()
    out = _run_real_recv(inp)
    _r.note_duration(_t0.monotonic() - t0, not any(o and o[0] in (1, 8, 41) for o in out))
    return out


def _run_real_recv(inp):
    import fcntl
    import struct
    import termios
    import time as _time
    import realio
    from easynetwork.clients.tcp import TCPNetworkClient
    from easynetwork.lowlevel.api_sync.endpoints.stream import StreamEndpoint
    from easynetwork.lowlevel.api_sync.transports.socket import SSLStreamTransport

    _, n, bufsize, ncalls, T, spec, mode, extra = inp[:8]
    T = iosim.sx_tmo(T)
    pieces, ver = extra[0], extra[1]
    stream = realio.chunk_bytes(spec if isinstance(spec, bytes) else tuple(spec))
    proto = fixed_protocol(n)
    out = []
    if mode == 2:
        import tlskit
        a, b = realio.unix_pair()
        sctx = tlskit.server_ctx(ver)

        class TLSWriter(realio.Writer):
            def run(self):
                try:
                    self.sock.settimeout(realio.limit(2.0))
                    self.sock = sctx.wrap_socket(self.sock, server_side=True)
                    pos = 0
                    for k in self.pieces:
                        if pos >= len(self.stream):
                            break
                        self.sock.sendall(self.stream[pos:pos + k])
                        pos += k
                    if pos < len(self.stream):
                        self.sock.sendall(self.stream[pos:])
                    self.sock.close()
                except Exception as exc:  # noqa: BLE001
                    self.error = exc

        writer = TLSWriter(b, stream, pieces)
        writer.start()
        transport = SSLStreamTransport(a, tlskit.client_ctx(ver), 1.0, server_hostname="localhost", server_side=False,
                                       handshake_timeout=realio.limit(), shutdown_timeout=1.0, standard_compatible=False)
        target = StreamEndpoint(transport, proto, max_recv_size=bufsize)
        peer = b
    else:
        sock, peer = realio.tcp_pair()
        writer = realio.Writer(peer, stream, pieces)
        writer.start()
        target = TCPNetworkClient(sock, proto, max_recv_size=bufsize, retry_interval=1.0)
        if T == 0:
            # a zero timeout is only deterministic once everything has arrived: wait for the kernel to hold it all
            writer.join(realio.limit(2.0))
            deadline = _time.monotonic() + realio.limit()
            while _time.monotonic() < deadline:
                avail = struct.unpack("i", fcntl.ioctl(sock.fileno(), termios.FIONREAD, b"\0\0\0\0"))[0]
                if avail >= len(stream):
                    break
                _time.sleep(0.002)
            import select as _select
            po = _select.poll()                 # ... and until the peer's FIN has been received (POLLRDHUP)
            po.register(sock.fileno(), _select.POLLRDHUP)
            deadline = _time.monotonic() + realio.limit()
            while _time.monotonic() < deadline:
                if any(ev & _select.POLLRDHUP for _fd, ev in po.poll(50)):
                    break
    try:
        timeout = realio.limit() if T is None else 0.0
        if mode == 1:
            it = target.iter_received_packets(timeout=None if T is None else 0.0)
            fn = lambda: next(it)  # noqa: E731
        else:
            fn = lambda: target.recv_packet(timeout=timeout)  # noqa: E731
        for _ in range(ncalls):
            try:
                with iosim.alarm(realio.limit(2.5)):
                    pkt = fn()
                out.append([0, realio.digest(bytes(pkt))])
            except StopIteration as exc:
                out.append([iosim.exc_code(exc.__cause__) if exc.__cause__ is not None else 42])
            except BaseException as exc:  # noqa: BLE001
                if isinstance(exc, (KeyboardInterrupt, SystemExit)):
                    raise
                out.append([iosim.exc_code(exc)])
    finally:
        target.close()
        writer.join(realio.limit(2.0))
        try:
            peer.close()
        except Exception:
            pass
    if writer.is_alive() or writer.error is not None:
        out.append([41])
    return out


def run_impl(inp):
    op = inp[0]
    if op == 9:
        import c11_threads
        return c11_threads.run(inp)
    if op == 8:
        return run_real_recv(inp)
    if op == 6:
        return run_retry_env(inp)
    if op == 7:
        return run_async_iter(inp)
    return {0: run_retry, 1: run_calls, 2: run_iter, 3: run_client_send, 4: run_udp_recv, 5: run_udp_send}[op](inp)


# ---------------------------------------------------------------------------------------------------------------
# the property, stated on the implementation
_budget_failure = iosim.budget_failure


def _class_failure(code, T, what):
    """A timed call may end with its value, TimeoutError, a connection error / end-of-stream / closed client; ValueError only
    for a negative timeout.  Anything else leaving the call is a failure (e.g. ValueError('negative delay') from a budget
    that went below zero)."""
    if code in (0, 1, 2, 5, 6):
        return None
    if code == 3 and T is not None and T < 0:
        return None
    if code == 4 and T is None:
        return None        # documented RuntimeError: select() without timeout returned nothing (scripted impossibility)
    return f"{what}: unexpected exception class (code {code}) leaves a timed call (timeout {'None' if T is None else T})"


def _lock_failure(after, what):
    send_free, recv_free, other_waits = after
    if other_waits:
        return f"{what}: lock discipline: the call waited on the other lock ({other_waits})"
    if not (send_free and recv_free):
        return (f"{what}: lock discipline: after the call send lock free={send_free}, receive lock free={recv_free} "
                f"(a lock acquired by lock_with_timeout was not released)")
    return None


def oracle(inp):
    op = inp[0]
    out = run_real_recv(inp, force=True) if op == 8 else run_impl(inp)
    if op == 0:
        _, T, ri, cbs, sels = inp[:5]
        T = iosim.sx_tmo(T)
        code, ret, waits, dt = out
        if code in (8, 9):
            return "_retry does not terminate"
        f = _budget_failure(T, waits, [], sels, None, code, "_retry", dt)
        if f:
            return f
        if code == 1 and T is not None and T > 0:
            # only if exhausted: every wait was not-ready or the time is used up
            spent = sum(sels[i][1] if i < len(sels) else 0 for i in range(len(waits)))
            full = all((sels[i][0] == 1) or sels[i][1] >= waits[i][1][0] for i in range(min(len(waits), len(sels))))
            if full and spent < T:
                return f"_retry: TimeoutError after only {spent} of {T} ticks"
        return None
    if op in (1, 2):
        if op == 1:
            _, ri, n, bufsize, calls, rscript, sels = inp[:7]
            Ts = [iosim.sx_tmo(c[0]) for c in calls]
            lks = [_lock_of(c[1]) for c in calls]
        else:
            _, ri, n, bufsize, T, lockans, rscript, sels = inp[:8]
            lks = [_lock_of(l) for l in lockans]
            Ts = None
        all_waits = [w for call in out for w in call[1]]
        f = iosim.event_failure(all_waits, [1 if a[0] == 3 else 0 for a in rscript if a[0] in (1, 2, 3)], "recv_packet")
        if f:
            return f
        used_sel = 0
        T_left = iosim.sx_tmo(inp[4]) if op == 2 else None
        for i, call in enumerate(out):
            outcome, waits, dt, lockwaits, after = call
            f = _lock_failure(after, f"call {i}")
            if f:
                return f
            if outcome[0] in (8, 9):
                return "receive does not terminate"
            T = Ts[i] if Ts is not None else T_left
            f = _class_failure(outcome[0], T, f"call {i}")
            if f:
                return f
            f = _budget_failure(T, waits, lockwaits, sels[used_sel:], lks[i], outcome[0], f"call {i}", dt)
            if f:
                return f
            used_sel += len(waits)
            if op == 2 and T_left is not None and outcome[0] == 0:
                T_left = max(T_left - dt, 0)
        return None
    if op in (3, 5):
        if op == 3:
            _, has_sendmsg, iov, chunks, T, ri, lk, sscript, sels = inp[:9]
            want = b"".join(chunks)
        else:
            _, ri, T, lk, want, sscript, sels = inp[:7]
        T = iosim.sx_tmo(T)
        code, wire, waits, dt, lockwaits, after = out
        f = _lock_failure(after, "send_packet")
        if f:
            return f
        f = iosim.event_failure(waits, [1 for a in sscript if a[0] in (1, 2)], "send_packet")
        if f:
            return f
        if code == 1 and not lockwaits and _lock_of(lk) in (None, "none") and not any(a[0] in (1, 2, 3, 4) for a in sscript):
            return (f"send_packet: TimeoutError (timeout {T}) although the lock was free and no send()/sendmsg() call ever had to "
                    "wait (a zero or exhausted budget means: do not wait)")
        if code in (8, 9):
            return "send_packet does not terminate"
        if code == 0 and wire != want:
            return "send_packet returned without writing the packet"
        f = _class_failure(code, T, "send_packet")
        if f:
            return f
        return _budget_failure(T, waits, lockwaits, sels, _lock_of(lk), code, "send_packet", dt)
    if op == 9:
        import c11_threads
        enabled, final, send_free, recv_free = out
        LOCK = {0: "s", 1: "r", 2: "s"}
        for k, m, T, st, parked in c11_threads.run.last_trace:
            busy = any(LOCK[pm] == LOCK[m] for pm in parked)
            if st == [2] and not busy:
                return (f"lock discipline: call {k} ({['send_packet', 'recv_packet', 'is_closed'][m]}) is blocked although "
                        f"its own lock is free (it waits on the other lock)")
            if st == [2] and T == 0 and m != 2:
                return f"lock discipline: call {k} with a zero timeout is blocked on a lock"
        for r, name, owner in c11_threads.run.last_leaks:
            return (f"lock discipline: call {r} is blocked on the {name} lock, which is still held although the call that took it "
                    f"(call {owner}) has ended: the lock was never released")
        if all(st[0] == 0 for _, st in final) and not (send_free and recv_free):
            return (f"lock discipline: every call has ended but send lock free={send_free}, receive lock free={recv_free} "
                    f"(a lock acquired by lock_with_timeout was not released)")
        for k, st in final:
            if st[0] == 0 and st[1] == 1:
                lab = [lb for lb in inp[1] if lb[0] == 0 and lb[1] == k][0]
                gave_up = any(lb[0] == 2 and lb[1] == k for lb in inp[1])
                if not gave_up and iosim.sx_tmo(lab[3]) != 0:
                    return f"lock discipline: call {k} raised TimeoutError although the history lets it acquire its lock"
        return None
    if op == 8:
        import realio
        _, n, bufsize, ncalls, T, spec, mode, extra = inp[:8]
        stream = realio.chunk_bytes(spec if isinstance(spec, bytes) else tuple(spec))
        for i, o in enumerate(out):
            if i < len(stream) // n:
                if o != [0, realio.digest(stream[i * n:(i + 1) * n])]:
                    return f"real sockets: call {i} did not return packet {i} (got {o}) although the whole stream arrives"
            elif o[0] in (8, 9) or (o[0] == 1 and iosim.sx_tmo(T) is None):
                # (with timeout 0 a short last read legitimately ends in TimeoutError before the EOF is seen)
                return f"real sockets: call {i} after the end of the stream: code {o[0]} instead of end-of-stream"
        return None
    if op == 6:
        _, T, ri, tau, spur = inp[:5]
        cost = inp[5] if len(inp) > 5 else 0
        T = iosim.sx_tmo(T)
        code, ret, waits, dt = out
        if code in (8, 9):
            return "_retry does not terminate"
        if cost:
            if T is not None and T >= 0 and code == 1 and tau <= T:
                return f"_retry (env, costs): TimeoutError although the fd is ready at {tau} <= T={T}"
            return None
        if T is not None and T >= 0:
            if code == 1 and tau <= T:
                return f"_retry (env): TimeoutError although the fd is ready at {tau} <= T={T}"
            if code == 1 and dt > T:
                return f"_retry (env): waited {dt} > T={T}"
            if code == 0 and dt > T:
                return f"_retry (env): returned after {dt} > T={T}"
            if T == 0 and waits:
                return "_retry (env): a zero timeout waited"
        if T is None and code == 1:
            return "_retry (env): TimeoutError with an infinite timeout"
        return None
    if op == 7:
        _, T, arr = inp[:3]
        T = iosim.sx_tmo(T)
        total = 0
        for code, dt in out:
            total += dt
            if T is not None and total > T:
                return f"async iterator: {total} ticks spent with T={T}"
            if T is None and code == 1:
                return "async iterator: TimeoutError with an infinite timeout"
            if code != 0:
                break
        return None
    if op == 4:
        _, ri, T, lk, rscript, sels = inp[:6]
        outcome, waits, dt, lockwaits, after = out
        f = _lock_failure(after, "udp recv_packet")
        if f:
            return f
        if outcome[0] in (8, 9):
            return "recv_packet does not terminate"
        f = _class_failure(outcome[0], iosim.sx_tmo(T), "udp recv_packet")
        if f:
            return f
        return _budget_failure(iosim.sx_tmo(T), waits, lockwaits, sels, _lock_of(lk), outcome[0], "udp recv_packet", dt)
    return None


def signature(inp, failure):
    return "C11:" + failure.split(":")[0] + ":" + failure.split(":")[-1].strip().split(" ")[0]


def shrink(inp):
    inp = list(inp)
    for idx in range(1, len(inp)):
        v = inp[idx]
        if isinstance(v, list) and v and isinstance(v[0], list):
            for i in range(len(v)):
                yield inp[:idx] + [v[:i] + v[i + 1:]] + inp[idx + 1:]


# ---------------------------------------------------------------------------------------------------------------
# cases
TS = [0, 1, 3, 8, None]
RIS = [1, 2, None]


def _tags(op, T, extra):
    return sorted(set([f"op{op}", "T=inf" if T is None else ("T=0" if T == 0 else "T<0" if T < 0 else "T>0")] + list(extra)))


def _sel_answers(req_hint):
    """answers around a requested wait: ready early, ready at the end, not ready after the full wait, overshoot"""
    r = max(req_hint, 1)
    return [(1, 0), (1, r), (0, r), (0, r + 2), (1, max(r - 1, 0)), (0, max(r - 1, 0))]


def cases(tier, rng, escalate):
    thorough = tier == "thorough" or escalate
    # ---- op 0: _retry
    cb_alpha = [(0, 0), (1, 0), (2, 0), (5, 0), (1, 1)] if thorough else [(0, 0), (1, 0), (2, 1), (5, 0)]
    sel_alpha = [(1, 0), (1, 1), (1, 3), (0, 1), (0, 2), (0, 3), (0, 8), (0, 9)]
    maxcb = 3
    maxsel = 3 if thorough else 2
    for T in TS + [-1, 2]:
        for ri in RIS + ([3] if thorough else []):
            for k in range(0, maxcb + 1):
                for cbs in itertools.product(cb_alpha, repeat=k):
                    nblock = sum(1 for c in cbs if c[0] in (1, 2))
                    if nblock == 0:
                        sel_lists = [()]
                    else:
                        sel_lists = [s for m in range(0, min(maxsel, nblock) + 1) for s in itertools.product(sel_alpha, repeat=m)]
                    cap = 40 if thorough else (3 if k == 3 else 6 if k == 2 else 12)
                    if len(sel_lists) > cap:
                        sel_lists = rng.sample(sel_lists, cap)
                    for sels in sel_lists:
                        yield dict(input=[0, iosim.tmo_sx(T), iosim.tmo_sx(ri), [list(c) for c in cbs], [list(s) for s in sels]],
                                   tags=_tags(0, T, [f"ri={'inf' if ri is None else ri}", f"blocks{nblock}"]),
                                   nontrivial=nblock > 0)
    # ---- op 1: recv_packet sequences; data byte values are a running counter
    def recv_events(rng, n_events):
        out, b = [], 1
        for _ in range(n_events):
            k = rng.choice(["d1", "d1", "d2", "d3", "d5", "blk", "blk", "intr", "eof", "err"])
            cost = rng.choice([0, 0, 0, 1])
            if k.startswith("d"):
                n = int(k[1:])
                out.append([0, bytes((b + i) % 255 + 1 for i in range(n)), cost])
                b += n
            elif k == "blk":
                out.append([1, b"", cost])
            elif k == "intr":
                out.append([2, b"", cost])
            elif k == "eof":
                out.append([0, b"", cost])
            else:
                out.append([5, b"", cost])
        return out

    def rand_lock(rng, level):
        if level == "none":
            return -1
        return rng.choice([0, 0, [1, 0], [1, 1], [1, 2], [0, 1], [0, 3], [1, 9]])

    n1 = 6000 if thorough else 1500
    for _ in range(n1):
        impl = rng.choice([0, 0, 1, 2, 2])
        level = "client" if impl == 2 else "none"
        n = rng.randint(1, 4)
        bufsize = rng.randint(1, 4)
        script = recv_events(rng, rng.randint(0, 6))
        if impl == 1:
            for a in script:
                if a[0] in (1, 2) and rng.random() < 0.3:
                    a[0] = 3
        calls = [[iosim.tmo_sx(rng.choice(TS + [2, 5, -1])), rand_lock(rng, level)] for _ in range(rng.randint(1, 3))]
        sels = [list(rng.choice(sel_alpha)) for _ in range(rng.randint(0, 5))]
        ri = rng.choice(RIS)
        partial = any(a[0] == 0 and 0 < len(a[1]) < n for a in script)
        waits = any(a[0] in (1, 2, 3) for a in script) or any(c[1] not in (0, -1) for c in calls)
        yield dict(input=[1, iosim.tmo_sx(ri), n, bufsize, calls, script, sels, impl],
                   tags=_tags(1, iosim.sx_tmo(calls[0][0]), [f"impl{impl}", "partial-read" if partial else "whole",
                                                             "lock-held" if any(isinstance(c[1], list) for c in calls) else "lock-free"]),
                   nontrivial=bool(partial or waits))
    # drip feed, exhaustive: a 3-byte packet arriving one byte per readiness, every T / ri / selector answer pattern
    for T in TS + [2]:
        for ri in RIS:
            for pat in itertools.product([(1, 0), (1, 1), (0, 1), (0, 2), (1, 3)], repeat=3):
                script = [[1, b"", 0], [0, b"\x01", 0], [1, b"", 0], [0, b"\x02", 0], [1, b"", 0], [0, b"\x03", 0]]
                for impl in ((0, 2) if thorough else (rng.choice([0, 2]),)):
                    yield dict(input=[1, iosim.tmo_sx(ri), 3, 4, [[iosim.tmo_sx(T), 0 if impl == 2 else -1]], script,
                                      [list(p) for p in pat], impl],
                               tags=_tags(1, T, ["drip", f"impl{impl}"]), nontrivial=True)
    # ---- op 2: iterator
    n2 = 4000 if thorough else 1000
    for _ in range(n2):
        n = rng.randint(1, 3)
        bufsize = rng.randint(1, 4)
        script = recv_events(rng, rng.randint(0, 7))
        T = rng.choice(TS + [2, 5, 13])
        locks = [rand_lock(rng, "client") for _ in range(rng.randint(1, 4))]
        sels = [list(rng.choice(sel_alpha)) for _ in range(rng.randint(0, 5))]
        yield dict(input=[2, iosim.tmo_sx(rng.choice(RIS)), n, bufsize, iosim.tmo_sx(T), locks, script, sels, 2],
                   tags=_tags(2, T, ["iter", f"nexts{len(locks)}"]),
                   nontrivial=bool(any(a[0] in (1, 2) for a in script) or any(l != 0 for l in locks)))
    # ---- op 3: client send_packet with lock contention
    n3 = 3000 if thorough else 700
    for _ in range(n3):
        lengths = [rng.choice([1, 2, 3, 5]) for _ in range(rng.randint(0, 4))]   # empty chunks are C04's subject (F2)
        has_sendmsg, iov = rng.choice([(1, 1), (1, 2), (1, 1024), (0, 1024), (1, 0)])
        T = rng.choice(TS + [2, 5, -1])
        lk = rand_lock(rng, "client")
        s = c04._rand_script(rng, ["s1", "s2", "all", "eagain", "eintr", "reset", "s0"], rng.randint(0, 5))
        sels = [list(rng.choice(sel_alpha)) for _ in range(rng.randint(0, 4))]
        yield dict(input=[3, has_sendmsg, iov, c04.mk_chunks(lengths), iosim.tmo_sx(T), iosim.tmo_sx(rng.choice(RIS)), lk, s, sels, 0],
                   tags=_tags(3, T, ["send", "lock-held" if isinstance(lk, list) else "lock-free"]),
                   nontrivial=bool(isinstance(lk, list) or any(a[0] != 0 for a in s)))
    # ---- op 6: time-indexed environment, exhaustive: tau x T x ri x spurious sets
    taus = range(-1, 12) if thorough else [-1, 0, 1, 2, 3, 5, 8, 9, 11]
    spurs = [[], [1], [2], [1, 2], [2, 4, 7], [3, 3, 9], [1, 2, 3, 4, 5, 6]]
    for tau in taus:
        for T in TS + [2, 5, -1]:
            for ri in RIS + [3, 5]:
                for spur in spurs:
                    if not thorough and len(spur) > 2 and rng.random() < 0.5:
                        continue
                    yield dict(input=[6, iosim.tmo_sx(T), iosim.tmo_sx(ri), tau, spur],
                               tags=_tags(6, T, ["env", f"ri={'inf' if ri is None else ri}", "spurious" if spur else "no-spurious",
                                                 "arrives-in-time" if (T is None or tau <= T) else "too-late"]),
                               nontrivial=tau > 0)
    # ---- op 6 with call costs
    for tau in ([-1, 0, 1, 3, 5, 8, 9, 10, 11, 14] if thorough else [0, 3, 8, 9, 10, 11]):
        for T in [0, 1, 3, 8, None]:
            for ri in RIS + [3]:
                for cost in (1, 2):
                    for spur in ([], [2, 4, 7]):
                        yield dict(input=[6, iosim.tmo_sx(T), iosim.tmo_sx(ri), tau, spur, cost],
                                   tags=_tags(6, T, ["env", "call-costs", f"ri={'inf' if ri is None else ri}"]), nontrivial=tau > 0)
    # ---- op 7: asynchronous iterator
    for T in TS + [2, 5, 13]:
        for k in range(1, 4):
            for arr in itertools.product([0, 1, 2, 3, 5, 9, -1], repeat=k):
                if k == 3 and rng.random() < (0.5 if thorough else 0.8):
                    continue
                yield dict(input=[7, iosim.tmo_sx(T), list(arr)], tags=_tags(7, T, ["async-iter", f"nexts{k}"]),
                           nontrivial=any(d > 0 for d in arr))
    # ---- op 9: lock discipline under real threads
    import c11_threads
    fixed = [
        # a parked sender must not delay a receive (timeout 0 / finite / None), nor is_closed a receive
        [[0, 0, 0, []], [0, 1, 1, [0]], [3, 1, 1], [3, 0, 1]],
        [[0, 0, 0, []], [0, 1, 1, [5]], [3, 1, 1], [3, 0, 1]],
        [[0, 0, 0, []], [0, 1, 1, []], [3, 1, 0], [3, 0, 1]],
        [[0, 0, 1, []], [0, 1, 0, [0]], [3, 1, 1], [3, 0, 1]],
        # contended acquisition that succeeds, then a third call must find the lock free
        [[0, 0, 0, []], [0, 1, 0, [5]], [3, 0, 1], [1, 1], [3, 1, 1], [0, 2, 0, [5]], [3, 2, 1]],
        [[0, 0, 1, []], [0, 1, 1, [5]], [3, 0, 1], [1, 1], [3, 1, 1], [0, 2, 1, [0]], [3, 2, 1]],
        [[0, 0, 0, []], [0, 1, 0, []], [3, 0, 0], [1, 1], [3, 1, 1], [0, 2, 2, []], [0, 3, 0, [0]], [3, 3, 1]],
        # contended acquisition that gives up / zero timeout on a held lock
        [[0, 0, 0, []], [0, 1, 0, [5]], [2, 1], [3, 0, 1], [0, 2, 0, [0]], [3, 2, 1]],
        [[0, 0, 0, []], [0, 1, 0, [0]], [3, 0, 1]],
        [[0, 0, 0, []], [0, 1, 2, []], [3, 0, 1], [1, 1]],
        # two waiters of the same kind on one lock (>= 3 threads contending): whichever the lock wakes first is bound to
        # the granted call
        [[0, 0, 0, []], [0, 1, 0, []], [0, 2, 0, []], [3, 0, 1], [1, 1], [3, 1, 1], [1, 2], [3, 2, 1]],
        [[0, 0, 0, []], [0, 1, 0, [5]], [0, 2, 0, [5]], [0, 3, 1, [0]], [3, 3, 1], [3, 0, 0], [1, 1], [3, 1, 1], [1, 2], [3, 2, 0],
         [0, 4, 0, [0]], [3, 4, 1]],
        [[0, 0, 1, []], [0, 1, 1, []], [0, 2, 1, []], [0, 3, 0, [5]], [3, 0, 1], [1, 1], [3, 3, 1], [3, 1, 0], [1, 2], [3, 2, 1]],
    ]
    for kind in (0, 1):
        for h in fixed:
            yield dict(input=[9, h, kind], tags=_tags(9, None, ["threads", "tcp" if kind == 0 else "udp", "fixed",
                       "two-waiters" if sum(1 for lb in h if lb[0] == 1) >= 2 else "le-one-waiter"]), nontrivial=True)
    n9 = 120 if thorough else 24
    seen = set()
    for _ in range(n9):
        h = c11_threads.gen_history(rng, 5)
        key = repr(h)
        if not h or key in seen:
            continue
        seen.add(key)
        yield dict(input=[9, h, rng.choice([0, 1])], tags=_tags(9, None, ["threads", "random",
                   "contended" if any(lb[0] in (1, 2) for lb in h) else "uncontended",
                   "two-waiters" if sum(1 for lb in h if lb[0] == 1) >= 2 else "le-one-waiter"]), nontrivial=len(h) > 2)
    # ---- op 8: real loopback sockets / real TLS, outcome + packet digests only
    n8 = 60 if thorough else 24
    for i in range(n8):
        mode = [0, 1, 2, 0][i % 4]
        T = 0 if (i % 4 == 3) else None
        n = rng.choice([1, 3, 64, 1000])
        k = rng.randint(0, 5)
        extra_bytes = rng.choice([0, 0, 1, n - 1]) if n > 1 else 0
        total = n * k + extra_bytes
        spec = [rng.randrange(1, 2 ** 30), total]
        bufsize = rng.choice([1, 7, 64, 4096, 16384]) if total < 2000 else rng.choice([64, 4096, 16384])
        pieces = [rng.choice([1, 2, 5, 100, 1500, 8000]) for _ in range(rng.randint(1, 12))]
        yield dict(input=[8, n, bufsize, k + 1, iosim.tmo_sx(T), spec, mode, [pieces, rng.choice([12, 13])]],
                   tags=_tags(8, T, ["real", f"mode{mode}", "leftover" if extra_bytes else "exact"]), nontrivial=True)
    # ---- op 3, exhaustive: two would-block episodes separated by a partial write, against every pair of selector answers
    # (ready early / ready late / not ready / overshoot): both halves of the budget through the sendmsg loop and send_all
    for T in TS + [2, 5]:
        for ri in RIS:
            for sel in itertools.product([(1, 0), (1, 1), (1, 2), (0, 1), (0, 3), (0, 9), (1, 9)], repeat=2):
                for lengths in ([3], [2, 3]):
                    hs, iov = rng.choice([(1, 1), (1, 1024), (0, 1024)])
                    s4 = [c04.ANS["eagain"], c04.ANS["s1"], c04.ANS["eintr"], c04.ANS["s1"]][: rng.randint(2, 4)]
                    yield dict(input=[3, hs, iov, c04.mk_chunks(lengths), iosim.tmo_sx(T), iosim.tmo_sx(ri), 0,
                                      [list(a) for a in s4], [list(a) for a in sel], 0],
                               tags=_tags(3, T, ["send", "two-episodes"]), nontrivial=True)
    # ---- op 4 / 5: UDP client
    n4 = 1500 if thorough else 400
    for _ in range(n4):
        T = rng.choice(TS + [2, -1])
        lk = rand_lock(rng, "client")
        sels = [list(rng.choice(sel_alpha)) for _ in range(rng.randint(0, 4))]
        if rng.random() < 0.5:
            script = [a for a in recv_events(rng, rng.randint(0, 4)) if not (a[0] == 0 and a[1] == b"")]
            script.append([0, b"\x05\x06", 0])      # a datagram eventually arrives (the selector script decides when)
            yield dict(input=[4, iosim.tmo_sx(rng.choice(RIS)), iosim.tmo_sx(T), lk, script, sels, 0],
                       tags=_tags(4, T, ["udp-recv"]), nontrivial=bool(isinstance(lk, list) or any(a[0] != 0 for a in script) or not script))
        else:
            s = c04._rand_script(rng, ["all", "eagain", "eintr", "reset"], rng.randint(0, 4))
            yield dict(input=[5, iosim.tmo_sx(rng.choice(RIS)), iosim.tmo_sx(T), lk, bytes([7, 8, 9][: rng.randint(0, 3)]), s, sels, 0],
                       tags=_tags(5, T, ["udp-send"]), nontrivial=bool(isinstance(lk, list) or any(a[0] != 0 for a in s)))
