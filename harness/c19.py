"""C19 — connection racing returns one socket and leaks none.

Case format (sx):
  kind 1 (staggered race)   [1, has_delay, addrs, locals, batches]
  kind 0 (sequential impl)  [0, 0,         addrs, locals, batches]      (_create_connection_impl over the whole list)
  kind 2 (reordering)       [2, fams]
  kind 3 (client)           [3, has_delay, addrs, [],     batches]      (AsyncTCPNetworkClient; see run_client)
    addrs   = [[family, create_ok, conn_kind] ...]   id of an address = its index in this list
              conn_kind: 0 connect suspends, 1 returns at once, 2 raises OSError at once, 3 raises RuntimeError at once
    locals  = [] (no local address) | [[[family, [ids for which bind() fails]] ...]]
    batches = [[[code, arg] ...] ...]   environment events applied together, then the loop runs until nothing is ready
              code 0 connect of address arg completes | 1 fails with OSError | 2 fails with RuntimeError
                   3 the stagger timer fires (only as first event of a batch) | 4 the caller is cancelled
Observables: per batch [enabled flags, ids in the order their socket was created, sorted ids of open sockets, result]
  result = [] pending | [0, id] returned socket | [1, n] (Base)ExceptionGroup of n OSErrors | [2] CancelledError | [3] other
"""
from __future__ import annotations

import asyncio
import itertools
import os
import socket as real_socket
import types

import stepkit

PROPERTY_ID = "C19"
RUN_MODULE = "Run.C19"
PROPS_FILE = "Props/C19.v"
ALLOWED_AXIOMS = []
_DNS = "src/easynetwork/lowlevel/api_async/backend/_common/dns_resolver.py"
ANCHORS = [
    (_DNS, "BaseAsyncDNSResolver._create_connection_impl"),
    (_DNS, "BaseAsyncDNSResolver._staggered_race_connection_impl"),
    (_DNS, "BaseAsyncDNSResolver.create_stream_connection"),
    (_DNS, "BaseAsyncDNSResolver.create_datagram_connection"),
    (_DNS, "_interleave_addrinfos"),
    (_DNS, "_prioritize_ipv6_over_ipv4"),
    ("src/easynetwork/lowlevel/api_async/backend/_asyncio/dns_resolver.py", "AsyncIODNSResolver.connect_socket"),
    ("src/easynetwork/lowlevel/api_async/backend/_asyncio/backend.py", "AsyncIOBackend.create_tcp_connection"),
    ("src/easynetwork/clients/async_tcp.py", "_SocketConnector.get"),
    ("src/easynetwork/clients/async_tcp.py", "AsyncTCPNetworkClient.__ensure_connected"),
    ("src/easynetwork/clients/async_tcp.py", "AsyncTCPNetworkClient.aclose"),
    ("src/easynetwork/clients/async_tcp.py", "AsyncTCPNetworkClient.wait_connected"),
    ("src/easynetwork/clients/async_tcp.py", "AsyncTCPNetworkClient.is_closing"),
    ("src/easynetwork/clients/async_tcp.py", "AsyncTCPNetworkClient.is_connected"),
]
RULE = ("address lists of 1..4 entries over AF_INET/AF_INET6/AF_UNIX with per-address scripts (socket() fails, bind "
        "fails / no matching local family, connect suspends / returns / raises OSError / raises RuntimeError at once); "
        "event batches applied at quiescent points of the deterministic loop: completion, failure or crash of a "
        "pending connect, the stagger timer, cancellation of the caller, and every ordered pair of them in one loop "
        "iteration (double success, success+cancel, cancel+success, timer+success); exhaustive over short batch "
        "sequences for <= 3 addresses, seeded random beyond.  Non-trivial = at least two sockets were created, or "
        "an error / cancel / bind event occurred.  Client level (kind 3): AsyncTCPNetworkClient((host, port)) over the real "
        "backend.create_tcp_connection / create_stream_connection / race with the scripted resolver; events = new "
        "wait_connected() call, connect outcomes, stagger timer, task.cancel() of the connecting task, client.aclose(), "
        "singly and in ordered pairs in one loop iteration, DFS guided by the implementation, plus aclose() injected "
        "after every loop iteration of scripted runs; non-trivial = aclose()/cancel while a call is in flight.  Reordering functions: every family list up to length 6 (7 thorough) over 3 families.")
TRUSTED = ["hand-written model coq/Conc/ConnRace.v of dns_resolver.py; FIFO ready-queue scheduler in coq/Run/C19.v "
           "(asyncio task wake-up order, TaskGroup abort, CancelScope delivery) validated by execution on CPython 3.12.1",
           "scripted connect_socket and fd-tracking socket subclass of the harness"]
ASSUMPTIONS = ["a cancelled connect attempt raises CancelledError at once (loop.sock_connect does)",
               "socket ids are distinct per address (each address yields at most one socket per call)"]

FAMS = [real_socket.AF_INET, real_socket.AF_INET6, real_socket.AF_UNIX]


def params():
    from common import runner
    import ast, os
    src = open(os.path.join(runner.REPO, _DNS)).read()
    tree = ast.parse(src)
    # the two family constants compared in _prioritize_ipv6_over_ipv4 must still be AF_INET6 then AF_INET
    fn = next((n for n in tree.body if isinstance(n, ast.FunctionDef) and n.name == "_prioritize_ipv6_over_ipv4"), None)
    if fn is None:
        raise runner.TranslateError("_prioritize_ipv6_over_ipv4 not found")
    names = [n.attr for n in ast.walk(fn) if isinstance(n, ast.Attribute) and n.attr.startswith("AF_")]
    if sorted(set(names)) != ["AF_INET", "AF_INET6"]:
        raise runner.TranslateError(f"unexpected address family constants {names}")
    return (f"From Coq Require Import ZArith.\nDefinition AF_INET : Z := {int(real_socket.AF_INET)}%Z.\n"
            f"Definition AF_INET6 : Z := {int(real_socket.AF_INET6)}%Z.\n")


# ------------------------------------------------------------------ scripted environment

class World:
    def __init__(self, addrs, locals_):
        self.addrs = addrs
        self.locals = locals_
        self.sockets = []          # (id, TrackingSocket)
        self.created_order = []
        self.pending = {}          # id -> future of the suspended connect

    def open_ids(self):
        return sorted(i for i, s in self.sockets if s.fileno() != -1)


def make_socket_module(world):
    class TrackingSocket(real_socket.socket):
        """socket.socket subclass (the code also uses the name in a type expression): real fd, scripted creation and
        bind failures.  The id is not passed by the code (only family/type/proto): sockets are created synchronously
        right after the addrinfo is taken from the list, which records world.next_id."""
        _vid = None

        def __init__(self, family=-1, type=-1, proto=-1, fileno=None):
            vid = world.next_id
            _fam, create_ok, _ck = world.addrs[vid][:3]
            if not create_ok:
                raise OSError(24, "Too many open files")
            super().__init__(family, type, proto, fileno)
            self._vid = vid
            world.sockets.append((vid, self))
            world.created_order.append(vid)

        def bind(self, address):
            lidx = address[1]
            _fam, fail_ids = world.locals[lidx]
            if self._vid in fail_ids:
                raise OSError(98, "Address already in use")
            return None     # no real bind

    shim = types.ModuleType("socket_shim")
    shim.__dict__.update({k: v for k, v in real_socket.__dict__.items() if not k.startswith("__")})
    shim.socket = TrackingSocket
    return shim


import errno as _errno
ERRNOS = [_errno.ECONNREFUSED, _errno.ETIMEDOUT, _errno.EHOSTUNREACH, _errno.ENETUNREACH, _errno.EAFNOSUPPORT]


def connect_error(world, vid):
    """The OSError of a failed connect to address vid: the errno is part of the address's script (4th field) -- some map to
    OSError subclasses (ETIMEDOUT -> TimeoutError, ECONNREFUSED -> ConnectionRefusedError)."""
    a = world.addrs[vid]
    e = ERRNOS[a[3] % len(ERRNOS)] if len(a) > 3 else _errno.ECONNREFUSED
    return OSError(e, os.strerror(e))


def make_resolver(world):
    from easynetwork.lowlevel.api_async.backend._common.dns_resolver import BaseAsyncDNSResolver

    class ScriptedResolver(BaseAsyncDNSResolver):
        __slots__ = ()

        async def connect_socket(self, socket, address):
            vid = address[1]
            assert socket._vid == vid
            ck = world.addrs[vid][2]
            if ck == 1:
                return
            if ck == 2:
                raise connect_error(world, vid)
            if ck == 3:
                raise RuntimeError("scripted crash")
            fut = asyncio.get_running_loop().create_future()
            world.pending[vid] = fut
            try:
                await fut
            finally:
                world.pending.pop(vid, None)

        async def ensure_resolved(self, backend, host, port, family, type, proto=0, flags=0):
            return list(world.local_infos if host == "local" else world.remote_infos)

        # _create_connection_impl receives the addrinfo; make the id available to the socket factory
        async def _create_connection_impl(self, *, remote_addrinfo, local_addrinfo):
            return await super()._create_connection_impl(
                remote_addrinfo=_IdTellingList(world, remote_addrinfo), local_addrinfo=local_addrinfo)

    return ScriptedResolver()


class _IdTellingList(list):
    """Sequence of addrinfos that records which address is being iterated (so the socket factory knows its id)."""

    def __init__(self, world, items):
        super().__init__(items)
        self._world = world

    def __iter__(self):
        for item in list.__iter__(self):
            self._world.next_id = item[4][1]
            yield item


def addrinfo(vid, fam):
    host = {real_socket.AF_INET: "127.0.0.1", real_socket.AF_INET6: "::1"}.get(fam, "/nowhere")
    return (fam, real_socket.SOCK_STREAM, 0, "", (host, vid))


def result_of(task):
    if not task.done():
        return []
    if task.cancelled():
        return [2]
    exc = task.exception()
    if exc is None:
        return [0, task.result()._vid]
    if isinstance(exc, BaseExceptionGroup):
        leaves = list(_leaves(exc))
        if leaves and all(isinstance(e, OSError) for e in leaves):
            return [1, len(leaves)]
    return [3]


def _leaves(exc):
    if isinstance(exc, BaseExceptionGroup):
        for e in exc.exceptions:
            yield from _leaves(e)
    else:
        yield exc


def run_race(inp, cancel_after_iteration=None):
    """Run kind 0/1 on the real code.  cancel_after_iteration: used by the fine-grained sweep only."""
    kind, has_delay, addrs, locals_opt, batches = inp[:5]
    locals_ = locals_opt[0] if locals_opt else None
    world = World(addrs, locals_)
    import easynetwork.lowlevel.api_async.backend._common.dns_resolver as dns
    from easynetwork.lowlevel.api_async.backend._asyncio.backend import AsyncIOBackend
    saved = dns._socket
    dns._socket = make_socket_module(world)
    out = []
    try:
        with stepkit.Stepper() as sp:
            resolver = make_resolver(world)
            backend = AsyncIOBackend()
            remote = [addrinfo(i, a[0]) for i, a in enumerate(addrs)]
            local = None if locals_ is None else [(l[0], real_socket.SOCK_STREAM, 0, "", ("local", j)) for j, l in enumerate(locals_)]
            # the real entry points (name resolution is scripted): create_stream_connection -> staggered race,
            # create_datagram_connection -> sequential _create_connection_impl
            world.remote_infos, world.local_infos = remote, local
            la = None if local is None else ("local", 0)
            if kind == 1:
                coro = resolver.create_stream_connection(backend, "remote", 1, local_address=la,
                                                         happy_eyeballs_delay=(1.0 if has_delay else float("inf")))
            else:
                coro = resolver.create_datagram_connection(backend, "remote", 1, local_address=la)
            task = sp.loop.create_task(coro)
            if cancel_after_iteration is not None:
                return _sweep(sp, world, task, batches, cancel_after_iteration)
            sp.quiesce()
            created = (lambda: list(world.created_order)) if kind == 1 else (lambda: [])
            out.append([[], created(), world.open_ids(), result_of(task)])
            for batch in batches:
                flags = []
                for pos, (code, arg) in enumerate(batch):
                    flags.append(int(_apply(sp, world, task, code, arg, pos)))
                sp.quiesce()
                out.append([flags, created(), world.open_ids(), result_of(task)])
            res = result_of(task)
            if res and res[0] == 0:
                task.result().close()
            if world.open_ids() != []:
                # cannot happen: we just closed the only legitimate one; anything left is a leak and is visible
                # in the last snapshot already
                for _i, s in world.sockets:
                    s.close()
    finally:
        dns._socket = saved
        for _i, s in world.sockets:
            s.close()
    return out


def _apply(sp, world, task, code, arg, pos):
    if code in (0, 1, 2):
        fut = world.pending.get(arg)
        if fut is None or fut.done():
            return False
        if code == 0:
            fut.set_result(None)
        elif code == 1:
            fut.set_exception(connect_error(world, arg))
        else:
            fut.set_exception(RuntimeError("scripted crash"))
        return True
    if code == 3:
        if pos != 0 or sp.ready() or sp.next_timer() is None or task.done():
            return False
        sp.advance_to_timer()
        sp.iterate()
        return True
    if code == 4:
        if task.done():
            return False
        task.cancel()
        return True
    raise ValueError(code)


def _sweep(sp, world, task, batches, d):
    """Fine-grained run: the batches are applied as usual, the caller is additionally cancelled after d loop
    iterations counted from the start.  Returns (finished_by_itself, result, open ids at the end, total iterations)."""
    count = [0]
    cancelled = [False]

    def tick():
        sp.iterate()
        count[0] += 1
        if count[0] == d and not task.done():
            task.cancel()
            cancelled[0] = True

    def drain():
        while sp.ready() and not task.done():
            tick()

    if d == 0:
        task.cancel()
        cancelled[0] = True
    drain()
    for batch in batches:
        for pos, (code, arg) in enumerate(batch):
            if code == 3:
                if pos == 0 and not sp.ready() and sp.next_timer() is not None and not task.done():
                    sp.advance_to_timer()
                    tick()
            else:
                _apply(sp, world, task, code, arg, pos)
        drain()
    # let callbacks of finished tasks run
    sp.quiesce()
    return dict(done=task.done(), cancelled_injected=cancelled[0], result=result_of(task), open=world.open_ids(),
                iterations=count[0], created=list(world.created_order))


# ------------------------------------------------------------------ client level (kind 3)

def _wout(task):
    """Outcome of one wait_connected() call: 0 returned, 1 ClientClosedError, 2 CancelledError,
    3 (group of) OSError, 4 RuntimeError (connector scope entered twice), 5 other."""
    from easynetwork.exceptions import ClientClosedError
    if task.cancelled():
        return 2
    exc = task.exception()
    if exc is None:
        return 0
    if isinstance(exc, ClientClosedError):
        return 1
    if isinstance(exc, BaseExceptionGroup):
        lv = list(_leaves(exc))
        return 3 if lv and all(isinstance(e, OSError) for e in lv) else 5
    if isinstance(exc, OSError):
        return 3
    if isinstance(exc, RuntimeError) and "entered twice" in str(exc):
        return 4
    return 5


def run_client(inp, cancel_after_iteration=None):
    """kind 3: AsyncTCPNetworkClient((host, port)) over the REAL AsyncIOBackend.create_tcp_connection ->
    create_stream_connection -> staggered race, with the scripted resolver (ensure_resolved returns the scripted
    address list, connect_socket is scripted), real tracked sockets, and an in-memory transport from
    wrap_stream_socket (one suspension, closes the socket if it is cancelled there, as loop.create_connection does).
    Events: 0/1/2 connect of address arg completes / OSError / RuntimeError, 3 stagger timer (first of a batch),
            4 task.cancel() of the running wait_connected(), 5 client.aclose(), 6 a new wait_connected() call.
    Snapshot: [flags, creation order, open ids, outcomes of the finished wait_connected() calls (each
               [code, aclose() had already been called]), wait in progress, is_connected(), is_closing()]"""
    _kind, has_delay, addrs, _locals, batches = inp[:5]
    world = World(addrs, None)
    import easynetwork.lowlevel.api_async.backend._common.dns_resolver as dns
    from easynetwork.lowlevel.api_async.backend._asyncio.backend import AsyncIOBackend
    from easynetwork.lowlevel.api_async.transports.abc import AsyncStreamTransport
    from easynetwork.lowlevel.socket import INETSocketAttribute
    from easynetwork.clients.async_tcp import AsyncTCPNetworkClient
    from easynetwork.protocol import StreamProtocol
    from easynetwork.serializers.line import StringLineSerializer
    saved = dns._socket
    dns._socket = make_socket_module(world)
    out = []
    try:
        with stepkit.Stepper() as sp:
            loop = sp.loop
            base_resolver_cls = type(make_resolver(world))

            class ClientResolver(base_resolver_cls):
                __slots__ = ()

                async def ensure_resolved(self, backend, host, port, family, type, proto=0, flags=0):
                    return [addrinfo(i, a[0]) for i, a in enumerate(addrs)]

            class MemTransport(AsyncStreamTransport):
                def __init__(self, backend, sock):
                    super().__init__()
                    self._b, self.sock = backend, sock

                async def aclose(self):
                    self.sock.close()

                def is_closing(self):
                    return self.sock.fileno() == -1

                def backend(self):
                    return self._b

                async def recv(self, bufsize):
                    return b""

                async def recv_into(self, buffer):
                    return 0

                async def send_all(self, data):
                    pass

                async def send_all_from_iterable(self, it):
                    pass

                async def send_eof(self):
                    pass

                @property
                def extra_attributes(self):
                    s = self.sock
                    return {INETSocketAttribute.socket: lambda: s, INETSocketAttribute.family: lambda: s.family}

            class Backend(AsyncIOBackend):
                async def wrap_stream_socket(self, socket):
                    fut = loop.create_future()
                    loop.call_soon(lambda: fut.done() or fut.set_result(None))
                    try:
                        await fut
                    except BaseException:
                        socket.close()
                        raise
                    return MemTransport(self, socket)

            backend = Backend()
            backend._AsyncIOBackend__dns_resolver = ClientResolver()
            client = AsyncTCPNetworkClient(("scripted.test", 1), StreamProtocol(StringLineSerializer()), backend,
                                           happy_eyeballs_delay=(1.0 if has_delay else float("inf")))
            st = dict(task=None, outs=[], aclosed=False)

            def snap(flags):
                t = st["task"]
                if t is not None and t.done():
                    flag = t._verif_rec[0] if t._verif_rec else t._verif_closed
                    st["outs"].append([_wout(t), int(flag)])
                    st["task"] = None
                return [flags, list(world.created_order), world.open_ids(), [list(o) for o in st["outs"]],
                        int(st["task"] is not None), int(client.is_connected()), int(client.is_closing())]

            def watch(t):
                t._verif_closed = False
                t.add_done_callback(lambda _t: setattr(_t, "_verif_closed", st["aclosed"]))

            def apply(code, arg, pos):
                if code in (0, 1, 2, 3):
                    return _apply(sp, world, st["task"] or _DONE, code, arg, pos)
                if code == 4:
                    t = st["task"]
                    if t is None or t.done():
                        return False
                    t.cancel()
                    return True
                if code == 5:
                    async def do_close():
                        st["aclosed"] = True
                        await client.aclose()
                    st.setdefault("closers", []).append(loop.create_task(do_close()))
                    return True
                if code == 6:
                    t = st["task"]
                    if t is not None and not t.done():
                        return False
                    if t is not None:
                        snap([])        # records the previous outcome
                    rec = []

                    async def call():
                        try:
                            return await client.wait_connected()
                        finally:
                            rec.append(st["aclosed"])      # had aclose() started when this call ended
                    nt = loop.create_task(call())
                    nt._verif_rec = rec
                    watch(nt)
                    st["task"] = nt
                    return True
                raise ValueError(code)

            count = [0]
            injected = [False]

            def run_quiet():
                if cancel_after_iteration is None:
                    sp.quiesce()
                    return
                while sp.ready():
                    sp.iterate()
                    count[0] += 1
                    if count[0] == cancel_after_iteration and not injected[0]:
                        injected[0] = True
                        apply(5, 0, 0)

            run_quiet()
            out.append(snap([]))
            for batch in batches:
                flags = [int(apply(code, arg, pos)) for pos, (code, arg) in enumerate(batch)]
                run_quiet()
                out.append(snap(flags))
            if cancel_after_iteration is not None:
                if not injected[0]:
                    apply(5, 0, 0)
                sp.quiesce()
                t = st["task"]
                res = dict(pending=bool(t is not None and not t.done()), open=world.open_ids(),
                           outs=snap([])[3], iterations=count[0], connected=int(client.is_connected()))
                return res
            for c in st.get("closers", []):
                if not c.done():
                    raise RuntimeError("harness: client.aclose() did not finish")
    finally:
        dns._socket = saved
        for _i, s in world.sockets:
            s.close()
    return out


class _Done:
    def done(self):
        return True


_DONE = _Done()


def run_reorder(fams):
    import easynetwork.lowlevel.api_async.backend._common.dns_resolver as dns
    infos = [addrinfo(i, f) for i, f in enumerate(fams)]
    p = dns._prioritize_ipv6_over_ipv4(infos)
    il = dns._interleave_addrinfos(infos)
    both = dns._interleave_addrinfos(dns._prioritize_ipv6_over_ipv4(infos))
    ids = lambda l: [a[4][1] for a in l]
    return [ids(p), ids(il), ids(both)]


# ------------------------------------------------------------------ the property, stated on the implementation

def oracle(inp):
    if inp[0] == 2:
        fams = inp[1]
        p, il, both = run_reorder(fams)
        n = len(fams)
        for name, l in (("prioritize", p), ("interleave", il), ("both", both)):
            if sorted(l) != list(range(n)):
                return f"reorder: {name} is not a permutation: {l}"
        if real_socket.AF_INET6 in fams and fams[both[0]] != real_socket.AF_INET6:
            return f"reorder: first attempt is not IPv6 although one exists: {both}"
        return None
    if inp[0] == 3:
        return _client_oracle(inp)
    if len(inp) > 5:
        r = run_race(inp[:5], cancel_after_iteration=inp[5])
        return _check_final(r["result"], r["open"]) if r["done"] else None
    snaps = run_race(inp)
    kind, _hd, addrs, _loc, batches = inp[:5]
    scripted_crash = any(a[2] == 3 for a in addrs) or any(e[0] == 2 for b in batches for e in b)
    for k, sn in enumerate(snaps):
        flags, _created, open_ids, result = sn
        if result:
            msg = _check_final(result, open_ids)
            if msg:
                return msg
            if result[0] == 1 and result[1] < len(addrs):
                return (f"race: failure reported with {result[1]} errors for {len(addrs)} addresses: an address was never "
                        "attempted or was given up although its own attempt had not failed")
            if result[0] == 3 and not scripted_crash:
                return ("race: raised an exception that is neither the attempts' OSErrors nor a cancellation although no "
                        "attempt raised anything else")
        if k > 0:
            # prompt return: once a pending connect has completed successfully the call is over at the next quiescent
            # point -- no further event (the loser finishing by itself, a timer) is needed -- and only the winner is open
            won = any(f and ev[0] == 0 for f, ev in zip(flags, batches[k - 1]))
            if won and not result:
                return (f"race: an attempt connected but the call did not return at once; sockets {open_ids} still open "
                        "and the race pending")
    msg = _check_final(snaps[-1][3], snaps[-1][2])
    if msg:
        return msg
    return None


def _client_oracle(inp):
    """Client level: whenever no wait_connected() is in progress, the only socket that may be open is the one owned by
    a connected, not closed client; after aclose() none; a call that ends after aclose() started never succeeds."""
    if len(inp) > 5:
        r = run_client(inp[:5], cancel_after_iteration=inp[5])
        if r["pending"]:
            return "client: wait_connected() still pending after aclose()"
        if r["open"]:
            return f"client: sockets {r['open']} open after aclose() (injected after {inp[5]} iterations)"
        if any(o[0] == 0 and o[1] for o in r["outs"]):
            return "client: wait_connected() succeeded on a closed client"
        return None
    snaps = run_client(inp)
    closed = False
    for k, sn in enumerate(snaps):
        flags, _created, open_ids, outs, waiting, connected, closing = sn
        if k > 0:
            closed = closed or any(f and ev[0] == 5 for f, ev in zip(flags, inp[4][k - 1]))
        if any(o[0] == 0 and o[1] for o in outs):
            return "client: wait_connected() succeeded on a closed client"
        if not waiting:
            if closed and open_ids:
                return f"client: sockets {open_ids} open after aclose()"
            if not connected and open_ids:
                return f"client: sockets {open_ids} leaked by a failed or cancelled connect"
            if closed and not closing:
                return "client: is_closing() is False after aclose()"
    return None


def _check_final(result, open_ids):
    if not result:
        return "race: the connect neither returned nor raised"
    if result[0] == 0:
        if open_ids != [result[1]]:
            return f"race: returned socket {result[1]} but open sockets are {open_ids}"
        return None
    if open_ids:
        return f"race: exceptional exit {result} leaves sockets {open_ids} open"
    if result[0] == 1 and result[1] < 1:
        return "race: failure reported with an empty exception group"
    return None


def signature(inp, failure):
    return failure.split(":")[0] + ":" + failure.split(":")[1].strip().split(" ")[0] if ":" in failure else failure


def shrink(inp):
    if inp[0] == 2:
        fams = inp[1]
        for i in range(len(fams)):
            yield [2, fams[:i] + fams[i + 1:]]
        return
    kind, has_delay, addrs, locals_opt, batches = inp[:5]
    tail = list(inp[5:])      # sweep position, kept
    for i in range(len(batches) - 1):
        yield [kind, has_delay, addrs, locals_opt, batches[:i] + batches[i + 1:]] + tail
    for i, b in enumerate(batches):
        if len(b) > 1:
            for j in range(len(b)):
                yield [kind, has_delay, addrs, locals_opt, batches[:i] + [b[:j] + b[j + 1:]] + batches[i + 1:]] + tail
    if locals_opt:
        yield [kind, has_delay, addrs, [], batches] + tail


# ------------------------------------------------------------------ cases

_cache = {}


def cached_run(inp):
    from common import sx
    key = sx.to_text(inp)
    if key not in _cache:
        _cache[key] = run_any(inp)
    return _cache[key]


def run_impl(inp):       # noqa: F811  (cases() already ran the leaves while exploring: reuse)
    if inp[0] == 2:
        return run_reorder(inp[1])
    return cached_run(inp)


def run_any(inp):
    return run_client(inp) if inp[0] == 3 else run_race(inp)


def explore(kind, has_delay, addrs, locals_opt, rng, branch_cap, pair_cap, crash):
    """DFS over sequences of single-event batches; the implementation itself tells which connects are pending.
    Yields (batches, tags).  Pairs of simultaneous events are tried at every node, followed by a final cancel."""
    stack = [[]]
    while stack:
        prefix = stack.pop()
        out = cached_run([kind, has_delay, addrs, locals_opt, prefix])
        last = out[-1]
        if last[3]:
            yield prefix, ["singles", f"len{len(prefix)}"]
            continue
        if prefix and not any(last[0]):
            # the event was not enabled (e.g. the timer after the last attempt was joined): check the flag, stop here
            yield prefix + [[[4, 0]]], ["noop-event"]
            continue
        open_ids = last[2]
        singles = [[4, 0]]
        if kind == 1 and has_delay:
            singles.append([3, 0])
        for i in open_ids:
            singles += [[0, i], [1, i]] + ([[2, i]] if crash else [])
        kids = list(singles)
        if len(prefix) >= 1 and len(kids) > branch_cap:
            must = [[4, 0]]
            rest = [k for k in kids if k != [4, 0]]
            rng.shuffle(rest)
            kids = must + rest[:branch_cap - 1]
        for ev in kids:
            stack.append(prefix + [[ev]])
        pairs = [[x, y] for x in singles for y in singles
                 if x != y and y[0] != 3 and not (x[0] in (0, 1, 2) and y[0] in (0, 1, 2) and x[1] == y[1])]
        if len(pairs) > pair_cap:
            rng.shuffle(pairs)
            pairs = pairs[:pair_cap]
        for pr in pairs:
            kindtag = "pair:" + "+".join({0: "ok", 1: "fail", 2: "crash", 3: "timer", 4: "cancel"}[e[0]] for e in pr)
            yield prefix + [pr, [[4, 0]], [[4, 0]]], ["pair", kindtag]


def cases(tier, rng, escalate):
    thorough = tier == "thorough" or escalate
    # reordering functions: exhaustive
    maxlen = 7 if thorough else 6
    for n in range(0, maxlen + 1):
        for fams in itertools.product(FAMS, repeat=n):
            yield dict(input=[2, [int(f) for f in fams]], tags=["reorder", f"n{n}"],
                       nontrivial=len(set(fams)) > 1)
    yield from race_cases(thorough, rng)
    yield from client_cases(thorough, rng)


def explore_client(has_delay, addrs, rng, max_len, branch_cap, pair_cap):
    """DFS over event sequences at client level; the implementation tells which connects are pending."""
    stack = [[]]
    while stack:
        prefix = stack.pop()
        out = cached_run([3, has_delay, addrs, [], prefix])
        flags, _created, open_ids, outs, waiting, connected, closing = out[-1]
        evs = [e for b in prefix for e in b]
        n_close = sum(1 for e in evs if e[0] == 5)
        n_wait = sum(1 for e in evs if e[0] == 6)
        if prefix and not any(flags):
            yield prefix, ["client-noop-event"]
            continue
        if len(prefix) >= max_len or (n_close >= 1 and not waiting and n_wait >= 2 and prefix[-1][0][0] == 6):
            yield prefix, ["client-singles", f"len{len(prefix)}"]
            continue
        singles = []
        if n_close < 2:
            singles.append([5, 0])
        if not waiting and n_wait < 3:
            singles.append([6, 0])
        if waiting:
            singles.append([4, 0])
            if has_delay:
                singles.append([3, 0])
            for i in open_ids:
                singles += [[0, i], [1, i]]
        if not singles:
            yield prefix, ["client-singles", f"len{len(prefix)}"]
            continue
        kids = list(singles)
        if len(prefix) >= 2 and len(kids) > branch_cap:
            rng.shuffle(kids)
            keep = [k for k in kids if k[0] in (5, 6)][:2]
            kids = keep + [k for k in kids if k not in keep][:max(1, branch_cap - len(keep))]
        for ev in kids:
            stack.append(prefix + [[ev]])
        pairs = [[x, y] for x in singles for y in singles
                 if x != y and y[0] != 3 and not (x[0] in (0, 1) and y[0] in (0, 1) and x[1] == y[1])
                 and (x[0] in (4, 5) or y[0] in (4, 5))]
        if len(pairs) > pair_cap:
            rng.shuffle(pairs)
            pairs = pairs[:pair_cap]
        names = {0: "ok", 1: "fail", 2: "crash", 3: "timer", 4: "taskcancel", 5: "aclose", 6: "wait"}
        for pr in pairs:
            yield prefix + [pr, [[6, 0]], [[5, 0]], [[6, 0]]], ["client-pair", "cpair:" + "+".join(names[e[0]] for e in pr)]


def client_cases(thorough, rng):
    A4, A6, _AU = (int(f) for f in FAMS)
    confs = [([[A6, 1, 0]], 1), ([[A6, 1, 0], [A4, 1, 0]], 1), ([[A4, 1, 0], [A6, 1, 0]], 0),
             ([[A6, 1, 1]], 0), ([[A4, 1, 2], [A6, 1, 0]], 1), ([[A6, 0, 0], [A4, 1, 0]], 0),
             ([[A6, 1, 0], [A4, 1, 0], [A6, 1, 0]], 1), ([[A4, 1, 3], [A6, 1, 0]], 1)]
    for addrs, has_delay in confs:
        n = len(addrs)
        for batches, tags in explore_client(has_delay, addrs, rng, (7 if thorough else 6) if n < 3 else 5,
                                            (5 if thorough else 3), (20 if thorough else 8)):
            inp = [3, has_delay, addrs, [], batches]
            evs = [e for b in batches for e in b]
            out = cached_run(inp)
            during = any(sn[4] and any(f and ev[0] in (4, 5) for f, ev in zip(nx[0], b))
                         for sn, nx, b in zip(out, out[1:], batches))
            yield dict(input=inp, tags=tags + ["kind3", f"n{n}", "delay" if has_delay else "nodelay"] +
                       (["close-or-cancel-in-flight"] if during else []),
                       nontrivial=bool(during or any(e[0] in (1, 2) for e in evs)))


SCRIPTS = [(1, 0), (1, 0), (1, 1), (1, 2), (0, 0), (1, 3)]   # (create_ok, conn_kind); suspension twice as likely


def _mk_case(kind, has_delay, addrs, locals_opt, batches, tags):
    inp = [kind, has_delay, addrs, locals_opt, batches]
    out = cached_run(inp)
    created = max((len(s[1]) for s in out), default=0)
    events = [e for b in batches for e in b]
    nontrivial = created >= 2 or any(e[0] in (1, 2, 4) for e in events[:-1]) or bool(locals_opt) \
        or any(a[1] == 0 or a[2] != 0 for a in addrs)
    return dict(input=inp, tags=tags + [f"kind{kind}", f"n{len(addrs)}", "delay" if has_delay else "nodelay",
                                        "locals" if locals_opt else "nolocals"], nontrivial=nontrivial)


def race_cases(thorough, rng):
    A4, A6, AU = (int(f) for f in FAMS)
    # (1) every attempt suspends: exhaustive single-event sequences, pairs at every node
    for n in (1, 2, 3):
        famlists = list(itertools.product((A4, A6), repeat=n)) if n < 3 else [(A4, A6, A6), (A6, A4, A4), (A4, A4, A6)]
        for fams in famlists:
            for has_delay in (1, 0):
                addrs = [[f, 1, 0] for f in fams]
                cap = (6 if thorough else 3) if n == 3 else 8
                for batches, tags in explore(1, has_delay, addrs, [], rng, cap, 40 if thorough else (8 if n == 3 else 16),
                                             crash=(n <= 2)):
                    yield _mk_case(1, has_delay, addrs, [], batches, tags + ["all-suspend"])
    # (1b) unequal per-family counts (1 vs 3 addresses) and several local addresses per family with partial bind
    #      failures (an earlier local address fails, a later one of the same family binds; all fail; no match)
    for fams in ((A4, A6, A6, A6), (A6, A4, A4, A4)):
        addrs = [[f, 1, 0] for f in fams]
        for batches, tags in explore(1, 1, addrs, [], rng, 2, 3, crash=False):
            yield _mk_case(1, 1, addrs, [], batches, tags + ["all-suspend", "unequal-families"])
    local_confs = [[[A4, [0]], [A4, []]], [[A4, [0]], [A4, [0]]], [[A6, []], [A4, [0]], [A4, []]], [[A4, []]],
                   [[A6, [1]], [A6, [1]], [A6, []], [A4, [0]]]]
    for ls in local_confs:
        for kind, has_delay in ((1, 1), (0, 0)):
            addrs = [[A4, 1, 0], [A6, 1, 0]]
            for batches, tags in explore(kind, has_delay, addrs, [ls], rng, 3, 4, crash=False):
                yield _mk_case(kind, has_delay, addrs, [ls], batches, tags + ["all-suspend", "partial-bind"])
    # (1c) connect failures of every errno, incl. those mapped to OSError subclasses (ETIMEDOUT -> TimeoutError,
    #      ECONNREFUSED -> ConnectionRefusedError) and the per-destination ones (EHOSTUNREACH, ENETUNREACH,
    #      EAFNOSUPPORT), with several addresses of one family: a failure must only ever cost its own attempt
    for fams in ((A4, A4), (A4, A4, A4), (A6, A4, A4), (A6, A6, A4)):
        for ek in (1, 2, 3, 4):
            addrs = [[f, 1, 0, ek if j < len(fams) - 1 else 0] for j, f in enumerate(fams)]
            for kind, has_delay in ((1, 1), (1, 0), (0, 0)):
                for batches, tags in explore(kind, has_delay, addrs, [], rng, 2, 2, crash=False):
                    yield _mk_case(kind, has_delay, addrs, [], batches,
                                   tags + ["all-suspend", "errno-kinds", f"errno{ek}"])
    # (1d) three attempts in flight, all three resolved in ONE loop iteration, in every order and with every mix of
    #      success / OSError / non-OSError exception: winner + late finisher + an attempt that ends the race abnormally
    for fams in ((A6, A4, A6),):
        addrs = [[f, 1, 0] for f in fams]
        for perm in itertools.permutations(range(3)):
            for kinds in itertools.product((0, 1, 2), repeat=3):
                batches = [[[3, 0]], [[3, 0]], [[kinds[k], perm[k]] for k in range(3)], [[4, 0]]]
                yield _mk_case(1, 1, addrs, [], batches, ["triple", "all-suspend"] +
                               (["triple-win-late-crash"] if sorted(kinds) == [0, 0, 2] else []))
    # (2) scripted attempts (socket() fails, connect returns/raises at once), local addresses, up to 4 addresses
    nconf = 400 if thorough else 90
    for _ in range(nconf):
        n = rng.choice((1, 2, 2, 3, 3, 4))
        addrs = []
        for _i in range(n):
            cr, ck = rng.choice(SCRIPTS)
            addrs.append([rng.choice((A4, A6, A6, A4, AU)), cr, ck, rng.randrange(5)])
        locals_opt = []
        if rng.random() < 0.45:
            ls = []
            for _j in range(rng.choice((1, 2, 3))):
                ls.append([rng.choice((A4, A6)), sorted(rng.sample(range(n), rng.randint(0, n)))])
            locals_opt = [ls]
        has_delay = rng.choice((1, 1, 0))
        kind = rng.choice((1, 1, 1, 0))
        for batches, tags in explore(kind, has_delay if kind == 1 else 0, addrs, locals_opt, rng, 3, 4, crash=True):
            yield _mk_case(kind, has_delay if kind == 1 else 0, addrs, locals_opt, batches, tags + ["scripted"])


def extra(ctx):
    """Per-iteration cancellation sweep on the real code: the caller is cancelled after d loop iterations for every d
    up to the length of the run; only the conclusion of result_exact is checked (one open socket = the returned one /
    none on an exceptional exit).  A failure is reported as a broken correspondence with a replayable input."""
    A4, A6, _AU = (int(f) for f in FAMS)
    runs = bad = 0
    scripts = [
        ([[A6, 1, 0], [A4, 1, 0]], [[[3, 0]], [[0, 0], [0, 1]]]),
        ([[A6, 1, 0], [A4, 1, 0]], [[[3, 0]], [[1, 0]], [[0, 1]]]),
        ([[A6, 1, 0], [A4, 1, 0], [A6, 1, 0]], [[[3, 0]], [[3, 0]], [[0, 2]]]),
        ([[A6, 1, 0], [A4, 1, 0], [A6, 1, 0]], [[[1, 0]], [[3, 0]], [[0, 2], [0, 1]]]),
        ([[A6, 0, 0], [A4, 1, 2], [A6, 1, 0]], [[[0, 2]]]),
        ([[A4, 1, 0]], [[[0, 0]]]),
        ([[A6, 1, 1], [A4, 1, 0]], []),
    ]
    for addrs, batches in scripts:
        for kind in (1, 0):
            inp = [kind, 1 if kind == 1 else 0, addrs, [], batches]
            total = run_race(inp, cancel_after_iteration=10 ** 6)["iterations"]
            for d in range(0, total + 2):
                r = run_race(inp, cancel_after_iteration=d)
                runs += 1
                msg = _check_final(r["result"], r["open"]) if r["done"] else "race: still pending after the script"
                if r["done"] is False and not r["cancelled_injected"]:
                    msg = None      # the script itself does not finish the race: nothing to check
                if msg:
                    bad += 1
                    ctx.problems.append(dict(kind="correspondence", detail=f"cancel sweep d={d}: {msg}",
                                             input=__import__("common.sx", fromlist=["sx"]).to_text(inp + [d])))
                    ctx.extra_suspects = getattr(ctx, "extra_suspects", []) + [inp + [d]]
    # client level: aclose() injected after d loop iterations, for every d of the scripted run
    cruns = cbad = 0
    cscripts = [
        ([[A6, 1, 0], [A4, 1, 0]], 1, [[[6, 0]], [[3, 0]], [[0, 0]]]),
        ([[A6, 1, 0], [A4, 1, 0]], 1, [[[6, 0]], [[3, 0]], [[0, 1], [0, 0]]]),
        ([[A6, 1, 0], [A4, 1, 0]], 0, [[[6, 0]], [[1, 0]], [[0, 1]]]),
        ([[A6, 1, 1]], 0, [[[6, 0]]]),
        ([[A4, 1, 2], [A6, 1, 0]], 1, [[[6, 0]], [[0, 1]]]),
        ([[A6, 1, 0], [A4, 1, 0], [A6, 1, 0]], 1, [[[6, 0]], [[3, 0]], [[3, 0]], [[1, 0]], [[0, 2]]]),
    ]
    from common import sx as _sx
    for addrs, has_delay, batches in cscripts:
        inp = [3, has_delay, addrs, [], batches]
        total = run_client(inp, cancel_after_iteration=10 ** 6)["iterations"]
        for d in range(0, total + 2):
            cruns += 1
            msg = _client_oracle(inp + [d])
            if msg:
                cbad += 1
                ctx.problems.append(dict(kind="correspondence", detail=f"client aclose sweep d={d}: {msg}",
                                         input=_sx.to_text(inp + [d])))
                ctx.extra_suspects = getattr(ctx, "extra_suspects", []) + [inp + [d]]
    return dict(cancel_sweep_runs=runs, cancel_sweep_failures=bad, client_close_sweep_runs=cruns,
                client_close_sweep_failures=cbad)
