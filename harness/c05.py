"""C05 — datagrams: one packet per datagram, boundaries preserved, errors isolated.

Correspondence (A), functional.  A case is a sequence of operations on ONE endpoint object:
   [0, dgram, res]  the peer sends dgram      [1, pkt, dgram]  endpoint.send_packet(pkt)      [3]  endpoint.recv_packet()
   [5, pkt, dgram]  send_packet(obj): ONE mutable object per case, updated IN PLACE to pkt before each such send
   [6]  recv_packet() in a task that is cancelled one loop iteration after it started (async endpoints)
   [7]  an asynchronous socket error (ConnectionRefusedError) is reported to the asyncio datagram protocol of the real
        transport through error_received(), exactly what asyncio does for an ICMP error (AsyncUDPNetworkClient)
through one of: DatagramEndpoint over a real SOCK_DGRAM socket pair, AsyncDatagramEndpoint over an in-memory transport,
UDPNetworkClient / AsyncUDPNetworkClient over loopback UDP sockets (async ones on the deterministic loop).

kind 0: any one-shot serializer (+ converter) as a black box.  `res` / `dgram` in the ops are what a FRESH protocol
        object (new serializer instance) makes of that single datagram / packet in isolation; the model
        (coq/IO/DgramEndpoint.v, stateless by construction) answers every recv from that table alone, so any carry-over,
        merge, split, skipped or duplicated datagram in the real endpoint / protocol / serializer is a disagreement.
   [8, n, token, rw, rt]  the peer sends a LARGE datagram of n bytes (UDPNetworkClient over AF_INET6: up to 65527); rw/rt =
        fresh-protocol result for the whole datagram / for its first MAX_DATAGRAM_BUFSIZE bytes (model: rw iff n <= recv size)
   [9, pkt]  send_packet(pkt) where serializing pkt raises (RuntimeError, nothing sent, nothing remembered)
   [12]  the asyncio transport under AsyncUDPNetworkClient is aborted (transport.abort(): what asyncio does on a fatal
         error) without the adapter's aclose(): what is already queued must still be delivered, then receives fail
   [11]  next() on the client's ONE iter_received_packets(timeout=0) iterator (UDP clients): iteration goes on after a
         parse error; an OSError (nothing queued, socket error) only ends that call (StopIteration -> [3])
case input = [kind, cfg, ops, impl, endpoint code, bufopt]; bufopt = [n]: SocketDatagramTransport(max_datagram_size=n).

kind 3: StringLineSerializer one-shot codec, white box (coq/Frame/LineOneShot.v): all three newlines, keep_end, ascii /
        latin-1, payloads ending in partial and repeated separators.
kind 1/2: the one-shot interface DERIVED from the incremental one (AbstractIncrementalPacketSerializer.serialize /
        deserialize) over read_until / read_exactly test serializers; the model (coq/Frame/OneShot.v over the framers of
        coq/Frame/ReadUntil.v) computes the results itself: missing data -> error, surplus -> error.
"""
from __future__ import annotations

import ast
import asyncio
import contextlib
import itertools
import socket

from common import detloop

PROPERTY_ID = "C05"
RUN_MODULE = "Run.C05"
PROPS_FILE = "Props/C05.v"
ALLOWED_AXIOMS = []
ANCHORS = [
    ("src/easynetwork/protocol.py", "DatagramProtocol.make_datagram"),
    ("src/easynetwork/protocol.py", "DatagramProtocol.build_packet_from_datagram"),
    ("src/easynetwork/serializers/abc.py", "AbstractIncrementalPacketSerializer.serialize"),
    ("src/easynetwork/serializers/abc.py", "AbstractIncrementalPacketSerializer.deserialize"),
    ("src/easynetwork/serializers/line.py", "StringLineSerializer.serialize"),
    ("src/easynetwork/serializers/line.py", "StringLineSerializer.deserialize"),
    ("src/easynetwork/serializers/json.py", "JSONSerializer.serialize"),
    ("src/easynetwork/serializers/json.py", "JSONSerializer.deserialize"),
    ("src/easynetwork/serializers/wrapper/base64.py", "Base64EncoderSerializer.serialize"),
    ("src/easynetwork/serializers/wrapper/base64.py", "Base64EncoderSerializer.deserialize"),
    ("src/easynetwork/serializers/wrapper/compressor.py", "AbstractCompressorSerializer.serialize"),
    ("src/easynetwork/serializers/wrapper/compressor.py", "AbstractCompressorSerializer.deserialize"),
    ("src/easynetwork/serializers/struct.py", "AbstractStructSerializer.serialize"),
    ("src/easynetwork/serializers/struct.py", "AbstractStructSerializer.deserialize"),
    ("src/easynetwork/serializers/struct.py", "NamedTupleStructSerializer.from_tuple"),
    ("src/easynetwork/serializers/struct.py", "NamedTupleStructSerializer.iter_values"),
    ("src/easynetwork/serializers/pickle.py", "PickleSerializer.deserialize"),
    ("src/easynetwork/serializers/pickle.py", "PickleSerializer.serialize"),
    ("src/easynetwork/clients/_iter.py", "ClientRecvIterator"),
    ("src/easynetwork/clients/_iter.py", "AsyncClientRecvIterator"),
    ("src/easynetwork/clients/abc.py", "AbstractNetworkClient.iter_received_packets"),
    ("src/easynetwork/clients/abc.py", "AbstractAsyncNetworkClient.iter_received_packets"),
    ("src/easynetwork/serializers/base_stream.py", "FileBasedPacketSerializer.serialize"),
    ("src/easynetwork/serializers/base_stream.py", "FileBasedPacketSerializer.deserialize"),
    ("src/easynetwork/lowlevel/constants.py", "MAX_DATAGRAM_BUFSIZE"),
    ("src/easynetwork/serializers/tools.py", "GeneratorStreamReader.read_until"),
    ("src/easynetwork/serializers/tools.py", "GeneratorStreamReader.read_exactly"),
    ("src/easynetwork/serializers/tools.py", "GeneratorStreamReader.read_all"),
    ("src/easynetwork/lowlevel/api_sync/endpoints/datagram.py", "_DataSenderImpl.send"),
    ("src/easynetwork/lowlevel/api_sync/endpoints/datagram.py", "_DataReceiverImpl.receive"),
    ("src/easynetwork/lowlevel/api_sync/endpoints/datagram.py", "DatagramEndpoint.send_packet"),
    ("src/easynetwork/lowlevel/api_sync/endpoints/datagram.py", "DatagramEndpoint.recv_packet"),
    ("src/easynetwork/lowlevel/api_async/endpoints/datagram.py", "_DataSenderImpl.send"),
    ("src/easynetwork/lowlevel/api_async/endpoints/datagram.py", "_DataReceiverImpl.receive"),
    ("src/easynetwork/lowlevel/api_async/endpoints/datagram.py", "AsyncDatagramEndpoint.send_packet"),
    ("src/easynetwork/lowlevel/api_async/endpoints/datagram.py", "AsyncDatagramEndpoint.recv_packet"),
    ("src/easynetwork/lowlevel/api_sync/transports/socket.py", "SocketDatagramTransport.recv_noblock"),
    ("src/easynetwork/lowlevel/api_sync/transports/socket.py", "SocketDatagramTransport.send_noblock"),
    ("src/easynetwork/lowlevel/api_async/backend/_asyncio/datagram/endpoint.py", "DatagramEndpoint.recvfrom"),
    ("src/easynetwork/lowlevel/api_async/backend/_asyncio/datagram/endpoint.py", "DatagramEndpoint.sendto"),
    ("src/easynetwork/lowlevel/api_async/backend/_asyncio/datagram/endpoint.py", "DatagramEndpointProtocol.datagram_received"),
    ("src/easynetwork/lowlevel/api_async/backend/_asyncio/datagram/endpoint.py", "DatagramEndpointProtocol.error_received"),
    ("src/easynetwork/lowlevel/api_async/backend/_asyncio/datagram/endpoint.py", "DatagramEndpoint.__check_exceptions"),
    ("src/easynetwork/lowlevel/api_async/backend/_asyncio/datagram/socket.py", "AsyncioTransportDatagramSocketAdapter.recv"),
    ("src/easynetwork/clients/udp.py", "UDPNetworkClient.send_packet"),
    ("src/easynetwork/clients/udp.py", "UDPNetworkClient.recv_packet"),
    ("src/easynetwork/clients/async_udp.py", "AsyncUDPNetworkClient.send_packet"),
    ("src/easynetwork/clients/async_udp.py", "AsyncUDPNetworkClient.recv_packet"),
]
RULE = ("a case = up to 6 datagrams sent by the peer (valid serializations of generated packets, and malformed ones: "
        "truncated, with surplus bytes, two valid ones merged, one split over two datagrams, a flipped byte, empty, "
        "random) interleaved with recv_packet() calls (also on an empty queue; on the async endpoints also in a task "
        "cancelled one loop iteration later), asynchronous socket errors injected through error_received() of the real "
        "asyncio protocol (async UDP client) and send_packet() calls (fresh packets, the same packet twice, runs of "
        "packets that compare equal in Python but differ -- 1/True/1.0, [0]/[False], {'v':2}/{'v':2.0}, 0.0/-0.0 -- and "
        "one object mutated in place between sends) on ONE endpoint "
        "object; every one-shot serializer available offline (line, JSON, JSON lines, struct, pickle, base64 over "
        "JSON/pickle with and without checksum, zlib and bz2 over JSON, JSON + converter) as a black box against "
        "fresh-instance results, and the derived one-shot interface over read_until / read_exactly test serializers "
        "(all separators incl. self-overlapping ones, limits around the payload size, with converter) computed by the "
        "model; exhaustive part: every valid/malformed pattern of length <= 3 for the derived interface x 4 endpoint "
        "kinds; the StringLineSerializer one-shot codec white box (three newlines x keep_end x ascii/latin-1, every payload "
        "of length <= 3 over {a, CR, LF} plus repeated/partial separators and a non-ascii byte, received and sent); a user "
        "format on FileBasedPacketSerializer with the inherited serialize(); send_packet of packets whose serialization "
        "raises (after a partial write for the file-based one) followed by good ones; the blocking transport with a small "
        "explicit recv size; UDPNetworkClient over AF_INET6 loopback with datagrams of 65507/65508/65520/65527 bytes (recv "
        "size regenerated from lowlevel/constants.py); NamedTupleStructSerializer with one '<n>s' field white box (every value "
        "over {a, NUL}, every field over {a, b, NUL}, wrong sizes); every valid datagram carries the packet it serializes and "
        "the model answers THAT packet (round trip through every shipped codec, incl. empty payloads under base64 with and "
        "without checksum, zlib, bz2); the JSON decoder-limit inputs (20000 '[' / 20000 digits) with debug off/on, bare and "
        "under zlib / base64; a RuntimeError of the receive path is never accepted; the UDP clients' iter_received_packets() "
        "iterator (one per case, next() interleaved with recv_packet(), iteration continued after parse errors); "
        "structure-aware malformed pickles (one opcode replaced, crafted well-formed programs building impossible "
        "structures); serializers configured with an incremental `limit` smaller than the packets. Non-trivial = a malformed datagram is followed by a valid one, two items are queued before a receive, a "
        "cancelled receive with data available, a socket error behind an unread datagram, or confusable / mutated sends.")
TRUSTED = ["models coq/IO/DgramEndpoint.v and coq/Frame/OneShot.v hand-written from protocol.py, serializers/abc.py and the "
           "datagram endpoints; validated by execution",
           "kind 0: the serializer's own codec is not modelled; only its statelessness across datagrams through one "
           "protocol/endpoint object is checked (against a fresh instance per datagram)"]
ASSUMPTIONS = ["the kernel delivers loopback / socket-pair datagrams whole, once and in order (small sizes, no loss)",
               "cbor2 and msgpack are not installed: CBORSerializer and MessagePackSerializer are not exercised"]

E_LIMIT, E_DECODE, E_CONVERT, E_MISSING, E_EXTRA = range(5)
ENDPOINTS = (b"sync-endpoint", b"async-endpoint", b"udp-client", b"async-udp-client", b"udp-client-v6")
SMALL_ENDPOINTS = ENDPOINTS[:4]


# ------------------------------------------------------------------------------------------------ serializers
def _test_serializers():
    from easynetwork.exceptions import DeserializeError, IncrementalDeserializeError
    from easynetwork.serializers.abc import AbstractIncrementalPacketSerializer
    from easynetwork.serializers.tools import GeneratorStreamReader

    class IncUntil(AbstractIncrementalPacketSerializer):
        def __init__(self, sep, limit, keep_end, ascii_only):
            self.sep, self.limit, self.keep_end, self.ascii_only = sep, limit, keep_end, ascii_only

        def incremental_serialize(self, packet):
            yield bytes(packet)
            yield self.sep

        def incremental_deserialize(self):
            reader = GeneratorStreamReader()
            data = yield from reader.read_until(self.sep, limit=self.limit, keep_end=self.keep_end)
            remainder = reader.read_all()
            if self.ascii_only and any(b >= 128 for b in data):
                raise IncrementalDeserializeError("non-ascii", remainder)
            return bytes(data), remainder

    class IncExact(AbstractIncrementalPacketSerializer):
        def __init__(self, size, ascii_only):
            self.size, self.ascii_only = size, ascii_only

        def incremental_serialize(self, packet):
            yield bytes(packet)

        def incremental_deserialize(self):
            reader = GeneratorStreamReader()
            data = yield from reader.read_exactly(self.size)
            remainder = reader.read_all()
            if self.ascii_only and any(b >= 128 for b in data):
                raise IncrementalDeserializeError("non-ascii", remainder)
            return bytes(data), remainder

    return IncUntil, IncExact


def _bang_converter():
    from easynetwork.converter import AbstractPacketConverter
    from easynetwork.exceptions import PacketConversionError

    class Bang(AbstractPacketConverter):
        def create_from_dto_packet(self, packet):
            if bytes(packet[:1]) == b"!":
                raise PacketConversionError("bang")
            return packet

        def convert_to_dto_packet(self, obj):
            return obj

    return Bang()


def _point_converter():
    from easynetwork.converter import AbstractPacketConverter
    from easynetwork.exceptions import PacketConversionError

    class Point(AbstractPacketConverter):
        def create_from_dto_packet(self, packet):
            if not isinstance(packet, dict) or set(packet) != {"x", "y"} or not all(type(v) is int for v in packet.values()):
                raise PacketConversionError("not a point")
            return (packet["x"], packet["y"])

        def convert_to_dto_packet(self, obj):
            return {"x": obj[0], "y": obj[1]}

    return Point()


def make_protocol(kind, cfg, impl):
    """a FRESH DatagramProtocol (new serializer instance) for the case"""
    from easynetwork.protocol import DatagramProtocol
    if kind == 1:
        IncUntil, _ = _test_serializers()
        sep, limit, keep_end, dm, cv = cfg
        return DatagramProtocol(IncUntil(sep, limit, bool(keep_end), bool(dm)), _bang_converter() if cv else None)
    if kind == 2:
        _, IncExact = _test_serializers()
        size, dm, cv = cfg
        return DatagramProtocol(IncExact(size, bool(dm)), _bang_converter() if cv else None)
    if kind == 3:
        from easynetwork.serializers.line import StringLineSerializer
        sep, keep_end, ascii_ = cfg
        return DatagramProtocol(StringLineSerializer(NEWLINE_NAMES[sep], encoding="ascii" if ascii_ else "latin-1",
                                                     keep_end=bool(keep_end)))
    if kind == 4:
        return DatagramProtocol(_rec_struct_serializer(cfg[0], bool(cfg[1])))
    name = impl[1]
    if name == b"filebased":
        return DatagramProtocol(_record_serializer())
    if name == b"line":
        from easynetwork.serializers.line import StringLineSerializer
        kw = dict(limit=impl[4]) if len(impl) > 4 else {}
        return DatagramProtocol(StringLineSerializer(impl[2].decode(), encoding=impl[3].decode(), **kw))
    if name in (b"json", b"jsonl", b"json+conv"):
        from easynetwork.serializers.json import JSONSerializer
        debug = bool(len(impl) > 2 and impl[2])
        kw = dict(limit=impl[3]) if len(impl) > 3 else {}
        return DatagramProtocol(JSONSerializer(use_lines=(name == b"jsonl"), debug=debug, **kw),
                                _point_converter() if name == b"json+conv" else None)
    if name in (b"b64-line", b"zlib-line", b"bz2-line"):
        from easynetwork.serializers.line import StringLineSerializer
        from easynetwork.serializers.wrapper.base64 import Base64EncoderSerializer
        from easynetwork.serializers.wrapper.compressor import BZ2CompressorSerializer, ZlibCompressorSerializer
        inner = StringLineSerializer("LF", encoding="ascii")
        if name == b"b64-line":
            return DatagramProtocol(Base64EncoderSerializer(inner, checksum=bool(impl[2])))
        return DatagramProtocol((ZlibCompressorSerializer if name == b"zlib-line" else BZ2CompressorSerializer)(inner))
    if name == b"struct":
        from easynetwork.serializers.struct import StructSerializer
        return DatagramProtocol(StructSerializer(impl[2].decode()))
    if name == b"pickle":
        from easynetwork.serializers.pickle import PickleSerializer
        return DatagramProtocol(PickleSerializer())
    if name in (b"b64-json", b"b64-pickle"):
        from easynetwork.serializers.json import JSONSerializer
        from easynetwork.serializers.pickle import PickleSerializer
        from easynetwork.serializers.wrapper.base64 import Base64EncoderSerializer
        inner = JSONSerializer() if name == b"b64-json" else PickleSerializer()
        kw = dict(limit=impl[3]) if len(impl) > 3 else {}
        return DatagramProtocol(Base64EncoderSerializer(inner, checksum=bool(impl[2]), **kw))
    if name in (b"zlib-json", b"bz2-json"):
        from easynetwork.serializers.json import JSONSerializer
        from easynetwork.serializers.wrapper.compressor import BZ2CompressorSerializer, ZlibCompressorSerializer
        cls = ZlibCompressorSerializer if name == b"zlib-json" else BZ2CompressorSerializer
        kw = dict(limit=impl[2]) if len(impl) > 2 else {}
        return DatagramProtocol(cls(JSONSerializer(**kw)))
    raise ValueError(f"unknown serializer {impl!r}")


NEWLINE_NAMES = {b"\n": "LF", b"\r": "CR", b"\r\n": "CRLF"}


def _record_serializer():
    """a user format on FileBasedPacketSerializer using the INHERITED one-shot serialize()/deserialize():
    packet = list of short strings; record = count byte, then (length byte, bytes) per item.  dump_to_file writes as it
    goes, so an item that is not a str fails AFTER a partial write (what any streaming encoder does)."""
    from easynetwork.serializers.base_stream import FileBasedPacketSerializer

    class RecordSerializer(FileBasedPacketSerializer):
        def __init__(self):
            super().__init__(expected_load_error=(ValueError, UnicodeError))

        def dump_to_file(self, packet, file):
            file.write(bytes([len(packet)]))
            for item in packet:
                if not isinstance(item, str):
                    raise TypeError("not a string")
                raw = item.encode("ascii")
                file.write(bytes([len(raw)]))
                file.write(raw)

        def load_from_file(self, file):
            head = file.read(1)
            if not head:
                raise EOFError
            out = []
            for _ in range(head[0]):
                n = file.read(1)
                if not n:
                    raise EOFError
                raw = file.read(n[0])
                if len(raw) != n[0]:
                    raise EOFError
                out.append(raw.decode("ascii"))
            return out

    return RecordSerializer()


_REC = None


def _rec_cls():
    global _REC
    if _REC is None:
        import collections
        _REC = collections.namedtuple("Rec", ("name",))
    return _REC


def _rec_struct_serializer(n, strip):
    from easynetwork.serializers.struct import NamedTupleStructSerializer
    return NamedTupleStructSerializer(_rec_cls(), {"name": f"{n}s"}, encoding=None, strip_string_trailing_nul_bytes=strip)


def canon(p, kind=0) -> bytes:
    """canonical packet: raw bytes for the derived-interface test serializers, the latin-1 bytes of the text for the
    white-box line codec, repr otherwise (a digest when it is very long)"""
    if kind in (1, 2):
        return bytes(p)
    if kind == 3:
        return p.encode("latin-1")
    if kind == 4:
        return bytes(p.name)
    if isinstance(p, (bytearray, memoryview)):
        p = bytes(p)
    r = repr(p).encode()
    if len(r) > 2000:
        import hashlib
        return b"sha:" + hashlib.sha256(r).hexdigest()[:32].encode()
    return r


def uncanon(kind, b: bytes):
    if kind in (1, 2):
        return bytes(b)
    if kind == 3:
        return b.decode("latin-1")
    if kind == 4:
        return _rec_cls()(name=bytes(b))
    return ast.literal_eval(b.decode())


def classify(exc) -> list:
    """DatagramProtocolParseError -> [1, code]"""
    from easynetwork.exceptions import DeserializeError, LimitOverrunError, PacketConversionError
    err = exc.error
    if isinstance(err, PacketConversionError):
        return [1, E_CONVERT]
    if isinstance(err, LimitOverrunError):
        return [1, E_LIMIT]
    info = getattr(err, "error_info", None)
    if type(err) is DeserializeError and isinstance(info, dict):
        if set(info) == {"packet", "extra"}:
            return [1, E_EXTRA]
        if set(info) == {"data"} and str(err).startswith("Missing data"):
            return [1, E_MISSING]
    return [1, E_DECODE]


def isolated_build(kind, cfg, impl, dgram):
    from easynetwork.exceptions import DatagramProtocolParseError
    proto = make_protocol(kind, cfg, impl)
    try:
        return [0, canon(proto.build_packet_from_datagram(dgram), kind)]
    except DatagramProtocolParseError as exc:
        return classify(exc)
    except Exception:
        return [2]


def isolated_make(kind, cfg, impl, pkt_canon):
    return bytes(make_protocol(kind, cfg, impl).make_datagram(uncanon(kind, pkt_canon)))


# ------------------------------------------------------------------------------------------------ running the real endpoints
def _result(fn, kind):
    from easynetwork.exceptions import DatagramProtocolParseError
    try:
        return [0, canon(fn(), kind)]
    except DatagramProtocolParseError as exc:
        return classify(exc)
    except StopIteration:
        return [3]
    except TimeoutError:
        return [3]
    except OSError as exc:
        return [6, 0 if isinstance(exc, ConnectionRefusedError) else 1]
    except RuntimeError:
        return [2]


class _Holder:
    """the one mutable packet object of a case (op 5): updated in place, then sent again"""

    def __init__(self):
        self.obj = None

    def update(self, value):
        if self.obj is None or type(self.obj) is not type(value):
            self.obj = type(value)()
        if isinstance(value, dict):
            self.obj.clear()
            self.obj.update(value)
        else:
            self.obj[:] = value
        return self.obj


def _drain(sock):
    out = []
    while True:
        try:
            out.append([4, sock.recv(70000)])
        except BlockingIOError:
            return out


def big_datagram(n, token):
    """the content of a large datagram (op 8), regenerated from its size and token; a valid JSON / line payload"""
    import base64
    import zlib
    raw = None
    if token.startswith((b"deep", b"zdeep", b"bdeep")):
        raw = b"[" * n                       # nested beyond the JSON decoder's recursion limit (RecursionError)
    elif token.startswith((b"digits", b"zdigits", b"bdigits")):
        raw = b"1" * n                       # integer literal beyond the interpreter's int/str limit (ValueError)
    if raw is not None:
        if token[:1] == b"z":
            return zlib.compress(raw)
        if token[:1] == b"b":
            return base64.urlsafe_b64encode(raw)
        return raw
    body = bytes(97 + (i + len(token)) % 26 for i in range(n - 2))
    return b'"' + body + b'"' if token.startswith(b"json") else b"x" + body + b"y"


def _run_sync(kind, cfg, ops, impl, bufopt=()):
    proto = make_protocol(kind, cfg, impl)
    if impl[0] == b"sync-endpoint":
        from easynetwork.lowlevel.api_sync.endpoints.datagram import DatagramEndpoint
        from easynetwork.lowlevel.api_sync.transports.socket import SocketDatagramTransport
        ours, peer = socket.socketpair(socket.AF_UNIX, socket.SOCK_DGRAM)
        kw = dict(max_datagram_size=bufopt[0]) if bufopt else {}
        ep = DatagramEndpoint(SocketDatagramTransport(ours, retry_interval=1.0, **kw), proto)
    else:
        from easynetwork.clients.udp import UDPNetworkClient
        fam, host = (socket.AF_INET6, "::1") if impl[0] == b"udp-client-v6" else (socket.AF_INET, "127.0.0.1")
        peer = socket.socket(fam, socket.SOCK_DGRAM)
        peer.bind((host, 0))
        ours = socket.socket(fam, socket.SOCK_DGRAM)
        if fam == socket.AF_INET6:
            with contextlib.suppress(OSError):
                ours.setsockopt(socket.SOL_SOCKET, socket.SO_RCVBUF, 4 * 1024 * 1024)
        ours.bind((host, 0))
        ours.connect(peer.getsockname())
        peer.connect(ours.getsockname())
        ep = UDPNetworkClient(ours, proto)
    peer.setblocking(False)
    out = []
    holder = _Holder()
    iterator = None
    try:
        for op in ops:
            if op[0] == 11:
                if iterator is None:
                    iterator = ep.iter_received_packets(timeout=0)
                r = _result(lambda: next(iterator), kind)
                out.append([[3] if r[0] == 6 else r])
                continue
            if op[0] == 0:
                peer.send(op[1])
                out.append([])
            elif op[0] == 8:
                # a real 64 KiB datagram over loopback can be dropped by the kernel (receive buffer, memory pressure):
                # never let that look like a disagreement -- it is acknowledged by the receiving socket becoming
                # readable (large cases keep at most one datagram queued) and re-sent otherwise
                import select
                for _attempt in range(5):
                    peer.send(big_datagram(op[1], op[2]))
                    if select.select([ours], [], [], 10.0)[0]:
                        break
                out.append([])
            elif op[0] == 9:
                try:
                    ep.send_packet(uncanon(kind, op[1]), timeout=1.0)
                    out.append(_drain(peer))
                except RuntimeError:
                    out.append([[7]] + _drain(peer))
            elif op[0] in (1, 5):
                pkt = uncanon(kind, op[1])
                if op[0] == 5:
                    pkt = holder.update(pkt)
                try:
                    ep.send_packet(pkt, timeout=1.0)
                    out.append(_drain(peer))
                except RuntimeError:
                    out.append([[2]])
            else:
                out.append([_result(lambda: ep.recv_packet(timeout=0), kind)])
    finally:
        ep.close()
        peer.close()
    return out


def _run_async(kind, cfg, ops, impl):
    proto = make_protocol(kind, cfg, impl)

    async def main():
        from easynetwork.lowlevel.api_async.backend._asyncio.backend import AsyncIOBackend
        backend = AsyncIOBackend()
        out = []
        holder = _Holder()
        captured = []           # (asyncio transport, asyncio protocol) pairs created by the code under test
        settle = 0
        if impl[0] == b"async-endpoint":
            from easynetwork.lowlevel.api_async.endpoints.datagram import AsyncDatagramEndpoint
            from easynetwork.lowlevel.api_async.transports.abc import AsyncDatagramTransport

            class MemTransport(AsyncDatagramTransport):
                def __init__(self):
                    self.inq, self.sent, self.closed = [], [], False
                    self.waiter = None

                async def recv(self):
                    while not self.inq:
                        self.waiter = asyncio.get_running_loop().create_future()
                        try:
                            await self.waiter
                        finally:
                            self.waiter = None
                    return self.inq.pop(0)

                async def send(self, data):
                    self.sent.append(bytes(data))

                async def aclose(self):
                    self.closed = True

                def is_closing(self):
                    return self.closed

                def backend(self):
                    return backend

                @property
                def extra_attributes(self):
                    return {}

            tr = MemTransport()
            ep = AsyncDatagramEndpoint(tr, proto)

            def peer_send(d):
                tr.inq.append(bytes(d))
                if tr.waiter is not None and not tr.waiter.done():
                    tr.waiter.set_result(None)

            def peer_drain():
                res = [[4, d] for d in tr.sent]
                tr.sent.clear()
                return res
            peer = None
        else:
            from easynetwork.clients.async_udp import AsyncUDPNetworkClient
            peer = socket.socket(socket.AF_INET, socket.SOCK_DGRAM)
            peer.bind(("127.0.0.1", 0))
            ours = socket.socket(socket.AF_INET, socket.SOCK_DGRAM)
            ours.bind(("127.0.0.1", 0))
            ours.connect(peer.getsockname())
            peer.connect(ours.getsockname())
            peer.setblocking(False)
            loop = asyncio.get_running_loop()
            orig_create = loop.create_datagram_endpoint

            async def spy(factory, **kw):
                pair = await orig_create(factory, **kw)
                captured.append(pair)
                return pair

            loop.create_datagram_endpoint = spy
            try:
                ep = AsyncUDPNetworkClient(ours, proto, backend)
                await ep.wait_connected()
            finally:
                del loop.create_datagram_endpoint
            peer_send = peer.send
            settle = 3          # loop iterations after which a datagram sent by the peer has reached the protocol

            def peer_drain():
                return _drain(peer)

        async def recv_one():
            from easynetwork.exceptions import DatagramProtocolParseError
            try:
                async with asyncio.timeout(0.25):
                    return [0, canon(await ep.recv_packet(), kind)]
            except DatagramProtocolParseError as exc:
                return classify(exc)
            except TimeoutError:
                return [3]
            except OSError as exc:
                return [6, 0 if isinstance(exc, ConnectionRefusedError) else 1]
            except RuntimeError:
                return [2]

        async def recv_cancelled():
            from easynetwork.exceptions import DatagramProtocolParseError
            task = asyncio.ensure_future(ep.recv_packet())
            await asyncio.sleep(0)
            task.cancel()
            try:
                return [0, canon(await task, kind)]
            except asyncio.CancelledError:
                return [5]
            except DatagramProtocolParseError as exc:
                return classify(exc)
            except OSError as exc:
                return [6, 0 if isinstance(exc, ConnectionRefusedError) else 1]
            except RuntimeError:
                return [2]

        aiterator = None

        async def iter_next():
            nonlocal aiterator
            from easynetwork.exceptions import DatagramProtocolParseError
            if aiterator is None:
                aiterator = ep.iter_received_packets(timeout=0)
            try:
                return [0, canon(await anext(aiterator), kind)]
            except StopAsyncIteration:
                return [3]
            except DatagramProtocolParseError as exc:
                return classify(exc)
            except RuntimeError:
                return [2]

        try:
            for op in ops:
                if op[0] == 11:
                    out.append([await iter_next()])
                elif op[0] == 12:
                    captured[-1][0].abort()
                    for _ in range(3):
                        await asyncio.sleep(0)
                    out.append([])
                elif op[0] == 0:
                    peer_send(op[1])
                    for _ in range(settle):
                        await asyncio.sleep(0)
                    out.append([])
                elif op[0] == 8:
                    peer_send(big_datagram(op[1], op[2]))
                    for _ in range(settle):
                        await asyncio.sleep(0)
                    out.append([])
                elif op[0] == 6:
                    out.append([await recv_cancelled()])
                elif op[0] == 7:
                    import errno
                    captured[-1][1].error_received(ConnectionRefusedError(errno.ECONNREFUSED, "injected: ICMP port unreachable"))
                    out.append([])
                elif op[0] == 9:
                    try:
                        await ep.send_packet(uncanon(kind, op[1]))
                        await asyncio.sleep(0)
                        out.append(peer_drain())
                    except RuntimeError:
                        out.append([[7]] + peer_drain())
                elif op[0] in (1, 5):
                    try:
                        pkt = uncanon(kind, op[1])
                        if op[0] == 5:
                            pkt = holder.update(pkt)
                        await ep.send_packet(pkt)
                        await asyncio.sleep(0)
                        out.append(peer_drain())
                    except RuntimeError:
                        out.append([[2]])
                else:
                    out.append([await recv_one()])
        finally:
            await ep.aclose()
            if peer is not None:
                peer.close()
        return out

    return detloop.run(main(), max_steps=20000)


_DROPS = None


def async_transport_drops_empty() -> bool:
    """environment answer recorded on every run: does the AsyncDatagramTransport that AsyncUDPNetworkClient uses
    (backend.wrap_connected_datagram_socket -> asyncio DatagramTransport) put a datagram on the wire for send(b"")?
    (CPython < 3.13 with the unpatched backend: no.)  The model covers protocol + endpoint + client above it."""
    global _DROPS
    if _DROPS is None:
        async def probe():
            from easynetwork.lowlevel.api_async.backend._asyncio.backend import AsyncIOBackend
            peer = socket.socket(socket.AF_INET, socket.SOCK_DGRAM)
            peer.bind(("127.0.0.1", 0))
            ours = socket.socket(socket.AF_INET, socket.SOCK_DGRAM)
            ours.bind(("127.0.0.1", 0))
            ours.connect(peer.getsockname())
            peer.connect(ours.getsockname())
            peer.setblocking(False)
            tr = await AsyncIOBackend().wrap_connected_datagram_socket(ours)
            try:
                await tr.send(b"")
                await asyncio.sleep(0)
                try:
                    peer.recv(10)
                    return False
                except BlockingIOError:
                    return True
            finally:
                await tr.aclose()
                peer.close()
        _DROPS = bool(detloop.run(probe(), max_steps=1000))
    return _DROPS


def max_datagram_bufsize() -> int:
    """MAX_DATAGRAM_BUFSIZE read from lowlevel/constants.py with ast (fail closed: integer literals and + - * only)"""
    import os
    from common import runner
    path = os.path.join(os.environ.get("VERIF_REPO", "/repo"), "src/easynetwork/lowlevel/constants.py")
    tree = ast.parse(open(path).read())

    def ev(node):
        if isinstance(node, ast.Constant) and type(node.value) is int:
            return node.value
        if isinstance(node, ast.BinOp) and isinstance(node.op, (ast.Add, ast.Sub, ast.Mult)):
            a, b = ev(node.left), ev(node.right)
            return a + b if isinstance(node.op, ast.Add) else a - b if isinstance(node.op, ast.Sub) else a * b
        raise runner.TranslateError(f"MAX_DATAGRAM_BUFSIZE: unsupported expression {ast.dump(node)}")

    for node in tree.body:
        tgt = node.target if isinstance(node, ast.AnnAssign) else (node.targets[0] if isinstance(node, ast.Assign) else None)
        if isinstance(tgt, ast.Name) and tgt.id == "MAX_DATAGRAM_BUFSIZE":
            v = ev(node.value)
            if v <= 0:
                raise runner.TranslateError("MAX_DATAGRAM_BUFSIZE <= 0")
            return v
    raise runner.TranslateError("MAX_DATAGRAM_BUFSIZE not found in lowlevel/constants.py")


def params():
    flag = "true" if async_transport_drops_empty() else "false"
    return ("Require Import NArith.\n"
            "(* recorded by a probe of the real transport stack under the async UDP client: send(b\"\") reaches the peer? *)\n"
            f"Definition async_transport_drops_empty : bool := {flag}.\n"
            "(* lowlevel/constants.py MAX_DATAGRAM_BUFSIZE: the size the blocking datagram transports give to recv(2) *)\n"
            f"Definition max_datagram_bufsize : N := {max_datagram_bufsize()}%N.\n")


def endpoint_code(impl) -> int:
    return ENDPOINTS.index(impl[0])


def run_impl(inp):
    kind, cfg, ops, impl = inp[:4]
    bufopt = inp[5] if len(inp) > 5 else []
    if impl[0] in (b"sync-endpoint", b"udp-client", b"udp-client-v6"):
        return _run_sync(kind, cfg, ops, impl, bufopt)
    return _run_async(kind, cfg, ops, impl)


# ------------------------------------------------------------------------------------------------ case generation
def _json_value(rng, depth=0):
    r = rng.random()
    if depth == 0 and r < 0.15:
        return {"text": "x" * rng.randint(60, 200), "n": [rng.randint(0, 9) for _ in range(rng.randint(20, 60))]}
    if depth > 1 or r < 0.35:
        return rng.choice([0, 1, -7, 12345678901, True, None, "", "a", "héllo\n", "x" * rng.randint(1, 12), 1.5])
    if r < 0.7:
        return [_json_value(rng, depth + 1) for _ in range(rng.randint(0, 3))]
    return {rng.choice(["k", "x", "y", "name", ""]): _json_value(rng, depth + 1) for _ in range(rng.randint(0, 3))}


def _packet(rng, impl):
    name = impl[1]
    if name in (b"b64-line", b"zlib-line", b"bz2-line"):
        return "" if rng.random() < 0.4 else "".join(rng.choice("ab =\x00") for _ in range(rng.randint(0, 5)))
    if name == b"line":
        alphabet = "ab z\t" + ("é€" if impl[3] == b"utf-8" else "")
        return "".join(rng.choice(alphabet) for _ in range(rng.randint(0, 30 if len(impl) > 4 else 8)))
    if name in (b"json", b"jsonl", b"b64-json", b"zlib-json", b"bz2-json"):
        return _json_value(rng)
    if name == b"json+conv":
        return (rng.randint(-5, 5), rng.randint(0, 1000))
    if name == b"struct":
        return (rng.randint(-30000, 30000), rng.randint(0, 2 ** 32 - 1), rng.random() < 0.5)
    if name in (b"pickle", b"b64-pickle"):
        return rng.choice([_json_value(rng), (1, b"\x00\xff"), b"bytes", {1, 2}, 3 + 4j])
    if name == b"filebased":
        return ["".join(rng.choice("abxy") for _ in range(rng.randint(0, 3))) for _ in range(rng.randint(0, 3))]
    raise ValueError(name)


SERIALIZERS = (
    [b"line", b"LF", b"ascii"], [b"line", b"CRLF", b"utf-8"], [b"json"], [b"jsonl"], [b"json+conv"],
    [b"struct", b"!hI?"], [b"pickle"], [b"b64-json", 0], [b"b64-json", 1], [b"b64-pickle", 1],
    [b"zlib-json"], [b"bz2-json"], [b"filebased"], [b"json", 1], [b"jsonl", 1],
    [b"b64-line", 0], [b"b64-line", 1], [b"zlib-line"], [b"bz2-line"],
    # the incremental `limit` smaller than the packets: the one-shot path must not apply it
    [b"json", 0, 48], [b"jsonl", 1, 48], [b"line", b"LF", b"ascii", 8], [b"b64-json", 1, 24], [b"zlib-json", 16], [b"bz2-json", 16],
)

# packets whose serialization raises, per serializer (the failure may come after a partial write: filebased)
UNSERIALIZABLE = {
    b"json": [{1, 2}, [1, {2}], {"k": [0, {3}]}], b"jsonl": [{1, 2}], b"b64-json": [[1, {2}]], b"zlib-json": [{1, 2}],
    b"bz2-json": [{1, 2}], b"json+conv": [("x",)], b"struct": [(1,), (1, 2, True, 4)], b"line": [5, "\udc80"],
    b"filebased": [["a", 5], ["ab", "x", None, "y"], [7]],
}


PICKLE_OPS = b"}])(.NRK\x85\x86\x8f\x90\x94e"
CRAFTED_PICKLES = (b"N)R.", b"\x80\x04\x8f(]\x90.", b"\x80\x04}(]N.", b"\x80\x04]N\x85R.", b"(NNd.", b"\x80\x04K\x01K\x02s.", b"N}b.")


def _malform_pickle(rng, valid):
    """structure-aware corruptions of a pickle: one opcode replaced by another, or a small crafted program that is
    well-formed opcode-wise but builds an impossible structure (unhashable set member, calling None, ...)"""
    if rng.random() < 0.4:
        return [rng.choice(CRAFTED_PICKLES)], "structure-aware-pickle"
    idx = [i for i, b in enumerate(valid) if b in PICKLE_OPS and i > 1]
    if not idx:
        return [rng.choice(CRAFTED_PICKLES)], "structure-aware-pickle"
    i = rng.choice(idx)
    return [valid[:i] + bytes([rng.choice(PICKLE_OPS)]) + valid[i + 1:]], "structure-aware-pickle"


def _malform(rng, valid, other):
    """(list of datagrams, tag): variants of a valid datagram that must not yield its packet"""
    k = rng.randrange(8)
    if k == 0 and len(valid) > 1:
        return [valid[:rng.randrange(1, len(valid))]], "truncated"
    if k == 1:
        return [valid + bytes(rng.choice(b"\n\r x\x00") for _ in range(rng.randint(1, 3)))], "surplus"
    if k == 2:
        return [valid + other], "merged"
    if k == 3 and len(valid) > 1:
        c = rng.randrange(1, len(valid))
        return [valid[:c], valid[c:]], "split"
    if k == 4 and valid:
        i = rng.randrange(len(valid))
        return [valid[:i] + bytes([valid[i] ^ (1 << rng.randrange(8))]) + valid[i + 1:]], "flipped"
    if k == 5:
        return [b""], "empty"
    if k == 6:
        return [bytes(rng.randrange(256) for _ in range(rng.randint(1, 12)))], "random"
    return [other[:1] + valid], "prefixed"


def _schedule(rng, dgrams, sends, endpoint=b"sync-endpoint"):
    """interleave arrivals (and, for the async UDP client, asynchronous socket errors), receives (one per queued item +
    sometimes one on an empty queue; on async endpoints some are cancelled one loop iteration after they started) and
    sends; returns (ops, feature tags)"""
    is_async = endpoint in (b"async-endpoint", b"async-udp-client")
    use_iter = endpoint in (b"udp-client", b"async-udp-client") and rng.random() < 0.5
    ops, queued, todo = [], 0, list(dgrams)
    sends = list(sends)
    feats = set()
    last_item_unread_dgram = False
    nerr = 0
    abort_at_end = endpoint == b"async-udp-client" and rng.random() < 0.25
    aborted = False
    while todo or queued:
        r = rng.random()
        if abort_at_end and not aborted and not todo and queued:
            ops.append([12])
            aborted = True
            sends = []
            feats.add("transport-aborted-with-queued-datagrams")
            continue
        if aborted:
            ops.append([11] if use_iter and rng.random() < 0.5 else [3])
            queued -= 1
            continue
        if todo and (r < 0.45 or not queued):
            ops.append(todo.pop(0))
            queued += 1
            last_item_unread_dgram = True
            if queued >= 2:
                feats.add("burst")
        elif endpoint == b"async-udp-client" and 0.45 <= r < 0.55 and nerr < 2:
            ops.append([7])
            nerr += 1
            queued += 1
            feats.add("sock-error-after-unread-datagram" if last_item_unread_dgram and queued >= 2 else "sock-error")
        elif sends and r < 0.6:
            ops.append(sends.pop(0))
        else:
            if is_async and rng.random() < 0.35:
                ops.append([6])
                feats.add("recv-cancelled-with-data" if queued else "recv-cancelled-empty")
                if queued:
                    queued -= 1
            else:
                ops.append([11] if use_iter and rng.random() < 0.7 else [3])
                if ops[-1] == [11]:
                    feats.add("client-iterator")
                queued -= 1
            if not queued:
                last_item_unread_dgram = False
    ops.extend(sends)
    if aborted:
        ops.append([3])
    elif rng.random() < 0.3:
        ops.append([6] if is_async and rng.random() < 0.5 else [3])
    return ops, feats


def _mk_case(kind, cfg, ops, impl, tags, feats, bufopt=()):
    # nontrivial: a malformed datagram directly followed (in arrival order) by a valid one, two items queued before a
    # receive, a cancelled receive with data available, a socket error behind an unread datagram, or consecutive sends
    # of packets that compare equal / of one object mutated in place
    arr = [op for op in ops if op[0] == 0]
    flags = [op[3] for op in arr]
    bad_then_good = any(not flags[i] and flags[i + 1] for i in range(len(flags) - 1))
    # a valid datagram carries the packet it is the serialization of: the model answers that packet (round trip)
    clean = [(op[:3] + [op[4]] if len(op) > 4 else op[:3]) if op[0] == 0 else op for op in ops]
    if kind != 0:
        clean = [op[:2] if op[0] in (0, 1) else op for op in clean]
    feats = set(feats)
    if bad_then_good:
        feats.add("bad-then-good")
    if "client-iterator" in feats and any(op[0] == 0 and not op[3] for op in ops):
        feats = set(feats) | {"iterator-continues-after-parse-error"}
    interesting = {"burst", "bad-then-good", "transport-aborted-with-queued-datagrams", "iterator-continues-after-parse-error", "structure-aware-pickle", "limit-smaller-than-packet", "partial-separator", "codec-padding-byte-inside-payload", "decoder-limit-input", "send-after-failed-send", "large-datagram", "small-recv-size", "recv-cancelled-with-data", "sock-error-after-unread-datagram",
                   "send-confusable", "send-mutated"}
    return dict(input=[kind, cfg, clean, impl, endpoint_code(impl), list(bufopt)],
                tags=tags + sorted(feats) + [f"datagrams{len(arr)}"], nontrivial=bool(feats & interesting))


JSONISH = (b"json", b"jsonl", b"b64-json", b"zlib-json", b"bz2-json", b"pickle", b"b64-pickle")
CONFUSABLE = ([1, True, 1.0], [[0], [False], [0.0]], [{"v": 2}, {"v": 2.0}, {"v": True}], [0, False, 0.0, -0.0], ["", ""])


def _sends(rng, impl):
    """send ops: fresh packets, runs of packets that compare equal in Python but are different packets, and one object
    mutated in place between sends"""
    sends, feats = [], set()
    r = rng.random()
    if impl[1] in JSONISH and r < 0.3:
        fam = list(rng.choice(CONFUSABLE))
        rng.shuffle(fam)
        for pkt in fam[:rng.randint(2, 3)]:
            pc = canon(pkt)
            sends.append([1, pc, isolated_make(0, [], impl, pc)])
        feats.add("send-confusable")
    elif impl[1] in JSONISH and r < 0.55:
        base = {"seq": rng.randint(0, 3), "status": rng.choice(["ok", "ko"])}
        for _ in range(rng.randint(2, 3)):
            base = dict(base, seq=base["seq"] + rng.choice([0, 1, 1]))
            pc = canon(base)
            sends.append([5, pc, isolated_make(0, [], impl, pc)])
        feats.add("send-mutated")
    else:
        for _ in range(rng.choice([0, 0, 1, 2])):
            pc = canon(_packet(rng, impl))
            sends.append([1, pc, isolated_make(0, [], impl, pc)])
        if len(sends) == 2 and rng.random() < 0.5:
            sends[1] = list(sends[0])           # the same packet twice
    bad = UNSERIALIZABLE.get(impl[1])
    if bad and rng.random() < (0.8 if impl[1] == b"filebased" else 0.3):
        pc = canon(rng.choice(bad))
        try:
            isolated_make(0, [], impl, pc)
        except Exception:
            if not sends:
                good = canon(_packet(rng, impl))
                sends.append([1, good, isolated_make(0, [], impl, good)])
            sends.insert(rng.randrange(len(sends)), [9, pc])       # at least one good send follows the failed one
            feats.add("send-after-failed-send")
    return sends, feats


def _blackbox_case(rng, impl_ser, endpoint):
    impl = [endpoint] + impl_ser
    n = rng.randint(1, 6)
    dgrams, tags = [], set()
    while len(dgrams) < n:
        pkt = _packet(rng, impl)
        valid = isolated_make(0, [], impl, canon(pkt))
        pkt_of = {}
        if rng.random() < 0.5:
            ds, tag, ok = [valid], "valid", True
            pkt_of[valid] = canon(pkt)
        else:
            other = isolated_make(0, [], impl, canon(_packet(rng, impl)))
            if impl[1] == b"pickle" and rng.random() < 0.6:
                ds, tag = _malform_pickle(rng, valid)
            else:
                ds, tag = _malform(rng, valid, other)
            ok = False
        tags.add(tag)
        if len(impl) > 2 and isinstance(impl[-1], int) and impl[-1] > 1 and tag == "valid" and len(valid) > impl[-1]:
            tags.add("limit-smaller-than-packet")
        for d in ds:
            res = isolated_build(0, [], impl, d)
            dgrams.append([0, d, res, ok, [pkt_of[d]]] if d in pkt_of else [0, d, res, False])
    dgrams = dgrams[:6]
    sends, sfeats = _sends(rng, impl)
    ops, feats = _schedule(rng, dgrams, sends, endpoint)
    return _mk_case(0, [], ops, impl, sorted(tags) + [impl_ser[0].decode(), endpoint.decode(), "blackbox"], feats | sfeats)


SEPS = (b"\n", b"\r\n", b"aa", b"aba")


def _payload(rng, sep, n):
    alphabet = bytes(set(sep)) + b"xy!" + bytes([200])
    out = bytearray()
    while len(out) < n:
        out.append(rng.choice(alphabet))
        if sep in out or (bytes(out) + sep).find(sep) != len(out):
            out[-1] = ord("z")
    return bytes(out)


def _derived_variants(kind, cfg, rng):
    """[(datagram, is_valid_frame, tag)] around one valid frame"""
    if kind == 1:
        sep, limit = cfg[0], cfg[1]
        p = _payload(rng, sep, rng.randint(0, limit + 2))
        v = p + sep
        q = _payload(rng, sep, rng.randint(0, 3)) + sep
    else:
        size = cfg[0]
        v = bytes(rng.choice(b"ab!" + bytes([200])) for _ in range(size))
        q = bytes(rng.choice(b"cd") for _ in range(size))
    out = [(v, True, "valid")]
    if len(v) > 1:
        c = rng.randrange(1, len(v))
        out.append((v[:c], False, "truncated"))
        out.append((v[c:], False, "tail"))
    out.append((v + q, False, "merged"))
    out.append((v + b"z", False, "surplus"))
    out.append((b"", False, "empty"))
    out.append((v[:-1], False, "one-short"))
    return out


def _derived_case(kind, cfg, seq, endpoint, rng, tags, bufopt=()):
    impl = [endpoint, b"inc-until" if kind == 1 else b"inc-exact"]
    dgrams = [[0, d, None, ok] for d, ok, _t in seq]
    sends = []
    if rng.random() < 0.4:
        if kind == 1:
            sends.append([1, bytes(rng.choice(b"pq") for _ in range(rng.randint(0, 3))), None])
        else:
            sends.append([1, bytes(rng.choice(b"pq") for _ in range(cfg[0])), None])
    ops, feats = _schedule(rng, dgrams, sends, endpoint)
    if bufopt:
        feats = set(feats) | {"small-recv-size"}
    return _mk_case(kind, cfg, ops, impl, sorted({t for _d, _ok, t in seq}) + tags + [endpoint.decode(), "derived"], feats, bufopt)


def _line_strip_ref(sep, keep_end, ascii_, d):
    """StringLineSerializer for datagrams, stated directly: only WHOLE trailing newline sequences are removed"""
    if not keep_end:
        while sep and d.endswith(sep):
            d = d[:len(d) - len(sep)]
    if ascii_ and any(b >= 128 for b in d):
        return "error"
    return d


def _line_cases(rng, thorough):
    """white-box StringLineSerializer one-shot codec: every payload of length <= 3 over {a, CR, LF} (+ a non-ascii byte),
    as received datagrams and as sent packets, for the three newlines x keep_end x ascii/latin-1 x the four endpoints"""
    alphabet = [b"a", b"\r", b"\n"]
    payloads = [b"".join(t) for n in range(0, 4) for t in itertools.product(alphabet, repeat=n)]
    payloads += [b"a\r\n\r\n", b"\r\n\r", b"a\n\r\n", b"\xe9\r", b"a\xe9\r\n", b"ab\r\r\n"]
    for sep in (b"\n", b"\r", b"\r\n"):
        for keep_end in (0, 1):
            for ascii_ in (1, 0):
                cfg = [sep, keep_end, ascii_]
                pool = list(payloads)
                rng.shuffle(pool)
                per = 4
                groups = [pool[i:i + per] for i in range(0, len(pool), per)]
                for gi, group in enumerate(groups):
                    endpoint = SMALL_ENDPOINTS[gi % 4]
                    impl = [endpoint, b"line-whitebox"]
                    dgrams = [[0, d, None, True] for d in group]
                    sends = []
                    for pkt in group[:2]:
                        if ascii_ and any(b >= 128 for b in pkt):
                            continue
                        if endpoint == b"async-udp-client" and not pkt and async_transport_drops_empty():
                            continue            # known finding, has its own corpus witness
                        sends.append([1, pkt, None])
                    ops, feats = _schedule(rng, dgrams, sends, endpoint)
                    partial = any(d and not d.endswith(sep) and d[-1:] in (b"\r", b"\n") for d in group) or \
                        any(d.endswith(sep) for d in group)
                    yield _mk_case(3, cfg, ops, impl, ["line-whitebox", NEWLINE_NAMES[sep], endpoint.decode()],
                                   set(feats) | ({"partial-separator"} if partial else set()))


def _struct_ref(n, strip, d):
    if len(d) != n:
        return "error"
    return d.rstrip(b"\0") if strip else d


def _struct_cases(rng, thorough):
    """white-box NamedTupleStructSerializer with one "<n>s" field: every value of length <= n over {a, NUL} sent, every
    n-byte field over {a, b, NUL} and wrong sizes received"""
    for n in (3, 4):
        for strip in (1, 0):
            cfg = [n, strip]
            values = [b"".join(t) for k in range(0, n + 1) for t in itertools.product([b"a", b"\0"], repeat=k)]
            fields = [b"".join(t) for t in itertools.product([b"a", b"b", b"\0"], repeat=n)] + [b"", b"a", b"a" * (n + 1)]
            rng.shuffle(values)
            rng.shuffle(fields)
            gi = 0
            while values or fields:
                endpoint = SMALL_ENDPOINTS[gi % 4]
                gi += 1
                impl = [endpoint, b"struct-s-whitebox"]
                group, fields = fields[:4], fields[4:]
                vs, values = values[:2], values[2:]
                if endpoint == b"async-udp-client" and async_transport_drops_empty():
                    pass        # an n-byte field is never empty on the wire
                dgrams = [[0, d, None, True] for d in group]
                sends = [[1, v, None] for v in vs]
                ops, feats = _schedule(rng, dgrams, sends, endpoint)
                nul = any(b"\0" in v.rstrip(b"\0") for v in vs) or any(b"\0" in d.rstrip(b"\0") for d in group)
                yield _mk_case(4, cfg, ops, impl, ["struct-s-whitebox", endpoint.decode()],
                               set(feats) | ({"codec-padding-byte-inside-payload"} if nul else set()))


def _limit_cases(rng, thorough):
    """the decoder-limit inputs of the JSON codec (deeper than the recursion limit; an integer literal longer than the
    interpreter's int/str limit), debug off and on, bare and under the wrappers: one parse error each, never a crash"""
    specs = [([b"json"], b""), ([b"json", 1], b""), ([b"jsonl", 1], b""), ([b"zlib-json"], b"z"), ([b"b64-json", 0], b"b")]
    for ser, pre in specs:
        for endpoint in (b"sync-endpoint", b"async-endpoint", b"udp-client") + ((b"async-udp-client",) if thorough else ()):
            impl = [endpoint] + ser
            ops = []
            for i, fam in enumerate((b"deep", b"digits")):
                token = pre + fam + b"-%d" % i
                n = 20000
                big = big_datagram(n, token)
                small = isolated_make(0, [], impl, canon(_packet(rng, impl)))
                r = isolated_build(0, [], impl, big)
                ops += [[8, n, token, r, r], [0, small, isolated_build(0, [], impl, small), True], [3], [3]]
            yield _mk_case(0, [], ops, impl, ["decoder-limit", ser[0].decode() + ("-debug" if len(ser) > 1 and ser[1] == 1 and ser[0] != b"b64-json" else ""), endpoint.decode()],
                           {"bad-then-good", "decoder-limit-input"})


_V6 = None


def ipv6_loopback() -> bool:
    global _V6
    if _V6 is None:
        try:
            s6 = socket.socket(socket.AF_INET6, socket.SOCK_DGRAM)
            s6.bind(("::1", 0))
            s6.close()
            _V6 = True
        except OSError:
            _V6 = False
    return _V6


def _large_cases(rng, thorough):
    """UDPNetworkClient over AF_INET6 loopback: datagrams up to the largest UDP payload (65527 bytes over IPv6; 65507 is
    the IPv4 maximum) between small ones; the recv size comes from lowlevel/constants.py"""
    if not ipv6_loopback():
        return
    bufsize = max_datagram_bufsize()
    for ser, tokp in (([b"line", b"LF", b"ascii"], b"line"), ([b"json"], b"json")):
        impl = [b"udp-client-v6"] + ser
        for sizes in ((65527,), (65507, 65508), (1000, 65527, 5), (65520,)) + (((65526, 65527, 65527),) if thorough else ()):
            ops = []
            for i, n in enumerate(sizes):
                if n < 100:
                    d = isolated_make(0, [], impl, canon(_packet(rng, impl)))
                    ops += [[0, d, isolated_build(0, [], impl, d), True], [3]]
                else:
                    token = tokp + b"-%d-%d" % (n, i)
                    big = big_datagram(n, token)
                    ops += [[8, n, token, isolated_build(0, [], impl, big), isolated_build(0, [], impl, big[:bufsize])], [3]]
            yield _mk_case(0, [], ops, impl, ["large", ser[0].decode(), "udp-client-v6"], {"large-datagram"})


def cases(tier, rng, escalate):
    thorough = tier == "thorough" or escalate
    # derived one-shot interface: every pattern of length <= 3 over the variants, per endpoint kind
    cfgs = []
    for sep in SEPS:
        for limit in (3, 6):
            cfgs.append((1, [sep, limit, 0, rng.choice([0, 1]), rng.choice([0, 1])]))
    cfgs.append((1, [b"\n", 5, 1, 0, 0]))
    for size in (1, 4):
        cfgs.append((2, [size, rng.choice([0, 1]), rng.choice([0, 1])]))
    maxlen = 3 if thorough else 2
    for kind, cfg in cfgs:
        for endpoint in SMALL_ENDPOINTS:
            variants = _derived_variants(kind, cfg, rng)
            for n in range(1, maxlen + 1):
                for seq in itertools.product(variants, repeat=n):
                    if not thorough and n == 2 and rng.random() < 0.5:
                        continue
                    yield _derived_case(kind, cfg, list(seq), endpoint, rng, ["exhaustive", f"kind{kind}"])
    # random longer sequences for the derived interface
    for _ in range(1500 if thorough else 300):
        kind, cfg = rng.choice(cfgs)
        variants = _derived_variants(kind, cfg, rng) + _derived_variants(kind, cfg, rng)
        seq = [rng.choice(variants) for _ in range(rng.randint(3, 6))]
        yield _derived_case(kind, cfg, seq, rng.choice(SMALL_ENDPOINTS), rng, ["random", f"kind{kind}"])
    # the blocking transport with a small explicit recv size: datagrams longer than it are cut by recv(2)
    for _ in range(400 if thorough else 120):
        kind, cfg = rng.choice(cfgs)
        variants = _derived_variants(kind, cfg, rng) + _derived_variants(kind, cfg, rng)
        seq = [rng.choice(variants) for _ in range(rng.randint(1, 4))]
        yield _derived_case(kind, cfg, seq, b"sync-endpoint", rng, ["random", f"kind{kind}"], bufopt=[rng.choice([1, 2, 3, 4, 6, 9])])
    yield from _line_cases(rng, thorough)
    yield from _struct_cases(rng, thorough)
    yield from _limit_cases(rng, thorough)
    yield from _large_cases(rng, thorough)
    # black-box serializers
    for _ in range(8000 if thorough else 1500):
        yield _blackbox_case(rng, list(rng.choice(SERIALIZERS)), rng.choice(SMALL_ENDPOINTS))


# ------------------------------------------------------------------------------------------------ property oracle
def _expected_derived(kind, cfg, d):
    """the property for the derived interface, stated directly: exactly one complete frame -> its packet, else an error"""
    if kind == 1:
        sep, limit, keep_end, dm, cv = cfg
        i = d.find(sep)
        if i < 0 or i + len(sep) != len(d) or i > limit:
            return "error"
        data = d if keep_end else d[:i]
    else:
        size, dm, cv = cfg
        if len(d) != size:
            return "error"
        data = d
    if dm and any(b >= 128 for b in data):
        return "error"
    if cv and data[:1] == b"!":
        return "error"
    return data


def oracle(inp):
    kind, cfg, ops, impl = inp[:4]
    out = run_impl(inp)
    queue = []          # what entered the receive queue and has not been consumed: datagrams, or "ERR" positions

    def check_item(item, r):
        if item == "ERR":
            if r != [6, 0]:
                return f"sock-error: the asynchronous socket error was due at this position but recv_packet gave {r!r}"
            return None
        d = item
        if r == [2]:
            return f"crash: datagram {d[:40]!r} ({len(d)} bytes) gave RuntimeError instead of a packet or a parse error"
        if kind == 4:
            want = _struct_ref(cfg[0], cfg[1], d)
            if want == "error":
                if r[0] != 1:
                    return f"struct: datagram {d!r} has the wrong size but recv_packet gave {r!r}"
            elif r != [0, want]:
                return f"struct: field {d!r} holds {want!r} (trailing NULs only are padding) but recv_packet gave {r!r}"
            return None
        if kind == 0 and d in sent_as and r != [0, sent_as[d]]:
            return f"roundtrip: datagram {d[:60]!r} is the serialization of {sent_as[d]!r} but recv_packet gave {r!r}"
        if kind == 3:
            want = _line_strip_ref(cfg[0], cfg[1], cfg[2], d)
            if want == "error":
                if r[0] != 1:
                    return f"line: datagram {d!r} is not decodable but recv_packet gave {r!r}"
            elif r != [0, want]:
                return f"line: datagram {d!r} holds the text {want!r} but recv_packet gave {r!r}"
        elif kind == 0:
            want = isolated_build(kind, cfg, impl, d)
            if r != want:
                return f"isolation: datagram {d[:40]!r}... ({len(d)} bytes) alone gives {want!r} but gave {r!r} in sequence"
        else:
            want = _expected_derived(kind, cfg, d)
            if want == "error":
                if r[0] != 1:
                    return f"derived: datagram {d!r} is not exactly one frame but recv_packet gave {r!r}"
            elif r != [0, want]:
                return f"derived: datagram {d!r} is one frame of {want!r} but recv_packet gave {r!r}"
        return None

    bufopt = inp[5] if len(inp) > 5 else []
    sent_as = {}        # datagram -> the packet it is the serialization of (kind 0 arrivals carrying their packet)
    aborted = False
    for op, res in zip(ops, out):
        if op[0] == 12:
            aborted = True
            continue
        if aborted and op[0] in (3, 11):
            r = res[0]
            if not queue:
                if r not in ([6, 1], [3]):
                    return f"phantom: receive on an aborted transport with nothing queued returned {r!r}"
                continue
            if op[0] == 11 and queue[0] == "ERR" and r == [3]:
                queue.pop(0)            # the queued socket error ended this call of the iterator
                continue
            if r in ([6, 1], [3]):
                return (f"lost-at-close: {len(queue)} item(s) were already queued when the transport was aborted but the "
                        f"receive failed with the closed-transport error")
        if op[0] == 0:
            if kind == 0 and len(op) > 3 and op[3]:
                sent_as[op[1]] = op[3][0]
            queue.append(op[1][:bufopt[0]] if bufopt else op[1])     # an explicit max_datagram_size is the caller's choice
        elif op[0] == 8:
            queue.append(big_datagram(op[1], op[2]))
        elif op[0] == 9:
            if res != [[7]]:
                return f"failed-send: send_packet({op[1]!r}) cannot be serialized but gave {res!r}"
        elif op[0] == 7:
            queue.append("ERR")
        elif op[0] in (1, 5):
            if res == [] and isolated_make(kind, cfg, impl, op[1]) == b"" and impl[0] in (b"async-endpoint", b"async-udp-client"):
                return f"empty-datagram-dropped: send_packet({op[1]!r}) serializes to b'' and no datagram reached the peer"
            if len(res) != 1 or res[0][0] != 4:
                return f"send: send_packet produced {len(res)} datagrams ({res!r})"
            if kind == 4:
                n = cfg[0]
                wire = (op[1] + b"\0" * n)[:n]
                if res[0][1] != wire:
                    return f"struct: send_packet({op[1]!r}) put {res[0][1]!r} on the wire, expected {wire!r}"
                continue
            if kind == 3:
                # the wire must carry the packet's text; the peer's deserialize may strip WHOLE trailing newlines only
                ref = _line_strip_ref(cfg[0], cfg[1], cfg[2], op[1])
                back = [0, _line_strip_ref(cfg[0], cfg[1], cfg[2], res[0][1])] if res[0][1] == op[1] else [4, res[0][1]]
                got = isolated_build(kind, cfg, impl, res[0][1])
                if back != [0, ref] or got != [0, ref]:
                    return f"roundtrip: send_packet({op[1]!r}) put {res[0][1]!r} on the wire which deserializes to {got!r}, expected {ref!r}"
                continue
            back = isolated_build(kind, cfg, impl, res[0][1])
            sent = op[1] + cfg[0] if kind == 1 and cfg[2] else op[1]     # keep_end test serializer returns the separator too
            if back != [0, sent]:
                return f"roundtrip: the datagram of send_packet({op[1]!r}) deserializes to {back!r}"
        else:
            r = res[0]
            if op[0] == 11:
                if queue and queue[0] == "ERR" and r == [3]:
                    queue.pop(0)        # the socket error ended this call of the iterator
                    continue
                if queue and r == [3]:
                    return (f"iterator-ended: {len(queue)} datagram(s) are waiting but next(iter_received_packets()) "
                            f"stopped (an earlier parse error must not end the iteration)")
            if op[0] == 6 and r == [5]:
                continue            # cancelled: nothing may have been consumed (checked by the following receives)
            if not queue:
                if r != [3]:
                    return f"phantom: recv_packet on an empty queue returned {r!r}"
                continue
            if r == [3]:
                return f"lost: {len(queue)} item(s) were handed to the endpoint and not consumed, but recv_packet found nothing"
            f = check_item(queue.pop(0), r)
            if f:
                return f
    return None


def signature(inp, failure):
    return failure.split(":")[0]


def shrink(inp):
    kind, cfg, ops, impl = inp[:4]
    for i in range(len(ops)):
        yield [kind, cfg, ops[:i] + ops[i + 1:], impl] + list(inp[4:])
