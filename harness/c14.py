"""C14 — closing releases the underlying resource at every cancellation point.

Case format (sx):  [path, tr, lock, labels, second]        (decoded by coq/Run/C14.v, same meaning)
  path   0 transport.aclose  1 aclose_forcefully(transport)  2 AsyncTLSStreamTransport.wrap  3 AsyncStreamEndpoint.aclose
         4 AsyncTCPNetworkClient.aclose  5 _ConnectedClientAPI.aclose  6 server client task teardown
         7 teardown after the request handler called client.aclose()
         8 AsyncTCPNetworkClient.aclose while a send_packet() task is still establishing the connection (send lock held)
         9 client task teardown when client_connected_cb raises at call time
         10 / 11 endpoint / client aclose with a half-received packet whose parser generator raises when closed
  tr     [0, base] | [1, [standard_compatible, unwrap_points, handshake_points], base]
  base   [0, leaf, m] (in-memory leaf transport whose aclose has m suspension points) | [1, send_half, recv_half]
         [0, leaf, 0, 1] = the real AsyncioTransportStreamSocketAdapter over a loopback TCP pair (fd observed);
         [0, leaf, 0, 2] = the same with 16 MiB of unflushed data and a silent peer; [0, leaf, 0, 3] = peer reset just before
  lock   1: a sender task is suspended in the leaf's send_all, holding the send lock and the send guard;
         2: a reader task is suspended in recv_packet() (endpoint / client paths)
  labels outcome at each suspension point reached, in order: 0 completes, 1 raises OSError, 2 the closing task is
         cancelled, 3 the enclosing timed scope (TLS shutdown / handshake timeout) expires
  second 1: close a second time afterwards (remaining labels); 2: and a third time
Observables: [result, [leaf0 closed, leaf1 closed], outer is_closing, server-side client is_closing, labels consumed,
              second = [] | [result, labels consumed by the second close, leaf flags]]
  result 0 returned, 1 OSError, 2 CancelledError, 3 TimeoutError, 4 BusyResourceError, 9 other
"""
from __future__ import annotations

import ast
import asyncio
import os
import socket as _socket
import ssl

import stepkit

PROPERTY_ID = "C14"
RUN_MODULE = "Run.C14"
PROPS_FILE = "Props/C14.v"
ALLOWED_AXIOMS = []
_T = "src/easynetwork/lowlevel/api_async/transports/"
ANCHORS = [
    (_T + "tls.py", "AsyncTLSStreamTransport.aclose"),
    (_T + "tls.py", "AsyncTLSStreamTransport.wrap"),
    (_T + "tls.py", "AsyncTLSStreamTransport._retry_ssl_method"),
    (_T + "utils.py", "aclose_forcefully"),
    (_T + "composite.py", "_close_stapled_transports"),
    (_T + "composite.py", "_try_graceful_close"),
    (_T + "composite.py", "AsyncStapledStreamTransport.aclose"),
    ("src/easynetwork/lowlevel/api_async/backend/_asyncio/stream/socket.py", "AsyncioTransportStreamSocketAdapter.aclose"),
    ("src/easynetwork/lowlevel/api_async/endpoints/stream.py", "AsyncStreamEndpoint.aclose"),
    ("src/easynetwork/clients/async_tcp.py", "AsyncTCPNetworkClient.aclose"),
    ("src/easynetwork/servers/async_tcp.py", "_ConnectedClientAPI.aclose"),
    ("src/easynetwork/lowlevel/api_async/servers/stream.py", "ConnectedStreamClient.aclose"),
    ("src/easynetwork/lowlevel/api_async/servers/stream.py", "AsyncStreamServer.__client_coroutine"),
]
RULE = ("every close path (transport, forceful, TLS wrap, endpoint, client, server-side client, client-task teardown) x "
        "transport shapes (leaf with m=0..3 suspension points, stapled pair, TLS over leaf / stapled pair, "
        "standard_compatible on/off, peer already closed; the real asyncio socket adapter over a TCP pair, also with 16 MiB "
        "of unflushed write data and a peer that does not read: the close waiter is then one environment-driven "
        "suspension: peer drains / connection reset / cancel) x lock free / held by a suspended sender; the number k of "
        "suspension points of the all-complete run is measured, then every label sequence of length <= k over "
        "{complete, OSError, cancel, scope timeout} is run exhaustively (k <= 4) or cancel/raise is injected at each "
        "position i <= k (beyond), each followed by a second close.  Non-trivial = at least one label other than "
        "'complete' was consumed, or the lock was held.")
TRUSTED = ["hand-written model coq/Conc/Close.v; Params (closing flag first, except BaseException around unwrap, "
           "forced fallbacks) translated from the AST of /repo on every run",
           "in-memory leaf transport and scripted TLS peer (stdlib ssl.SSLObject, TLS 1.2) of the harness"]
ASSUMPTIONS = ["a leaf transport's aclose() marks it closing before its first suspension and is idempotent",
               "a cancelled suspension point raises CancelledError at once"]

HERE = os.path.dirname(os.path.abspath(__file__))
CERT, KEY = os.path.join(HERE, "certs", "cert.pem"), os.path.join(HERE, "certs", "key.pem")


# ------------------------------------------------------------------ Params from the source (fail closed)

def _func(tree, qual):
    node = tree
    for part in qual.split("."):
        node = next((n for n in ast.iter_child_nodes(node)
                     if isinstance(n, (ast.ClassDef, ast.FunctionDef, ast.AsyncFunctionDef)) and n.name == part), None)
        if node is None:
            from common import runner
            raise runner.TranslateError(f"{qual} not found")
    return node


def _calls(node, name):
    return [n for n in ast.walk(node) if isinstance(n, ast.Call) and
            ((isinstance(n.func, ast.Name) and n.func.id == name) or (isinstance(n.func, ast.Attribute) and n.func.attr == name))]


def _params_from_ast():
    from common import runner
    R = runner.REPO

    def parse(rel):
        try:
            return ast.parse(open(os.path.join(R, rel)).read())
        except SyntaxError as exc:
            raise runner.TranslateError(f"{rel}: {exc}")
    # (1) tls.aclose: `self.__closing = True` textually before the first await that can suspend
    tls = parse(_T + "tls.py")
    f = _func(tls, "AsyncTLSStreamTransport.aclose")
    assigns = [n for n in ast.walk(f) if isinstance(n, ast.Assign) and any(
        isinstance(t, ast.Attribute) and t.attr.endswith("__closing") for t in n.targets)
        and isinstance(n.value, ast.Constant) and n.value.value is True]
    if len(assigns) != 1:
        raise runner.TranslateError("tls.aclose: expected exactly one `self.__closing = True`")
    awaits = [n for n in ast.walk(f) if isinstance(n, ast.Await)]
    # the second-caller branch `await self.__closed.wait()` precedes it and is guarded by `if self.__closing`
    first_other = min((a.lineno for a in awaits if "closed" not in ast.unparse(a)), default=10 ** 9)
    closing_first = assigns[0].lineno < first_other
    # (2) the handler around unwrap
    handlers = [h for n in ast.walk(f) if isinstance(n, ast.Try) for h in n.handlers if _calls(h, "aclose_forcefully")]
    if len(handlers) != 1:
        raise runner.TranslateError("tls.aclose: expected one except clause calling aclose_forcefully")
    h = handlers[0]
    if h.type is None or (isinstance(h.type, ast.Name) and h.type.id == "BaseException"):
        catches_base = True
    elif isinstance(h.type, ast.Name) and h.type.id == "Exception":
        catches_base = False
    else:
        raise runner.TranslateError(f"tls.aclose: unrecognised except clause {ast.unparse(h.type)}")
    # (3) client aclose: is there a forced fallback, and is it the shape of the model (the try block is exactly the
    #     acquisition of the send lock, the handler force-closes the transport and re-raises)
    cl = _func(parse("src/easynetwork/clients/async_tcp.py"), "AsyncTCPNetworkClient.aclose")
    client_fallback = bool(_calls(cl, "aclose_forcefully"))
    if client_fallback:
        tries = [n for n in ast.walk(cl) if isinstance(n, ast.Try) and any(_calls(h, "aclose_forcefully") for h in n.handlers)]
        if len(tries) != 1 or len(tries[0].handlers) != 1:
            raise runner.TranslateError("client.aclose: forced fallback in an unrecognised position")
        t = tries[0]
        body_src = ast.unparse(t.body[0]) if len(t.body) == 1 else ""
        if "send_lock.acquire()" not in body_src or not body_src.startswith("await "):
            raise runner.TranslateError(f"client.aclose: the guarded block is not the lock acquisition: {body_src!r}")
        h = t.handlers[0]
        call = _calls(h, "aclose_forcefully")[0]
        if len(call.args) != 1 or "transport" not in ast.unparse(call.args[0]):
            raise runner.TranslateError("client.aclose: the fallback does not close the transport")
        if not isinstance(h.body[-1], ast.Raise) or h.body[-1].exc is not None:
            raise runner.TranslateError("client.aclose: the fallback does not re-raise")
    else:
        withs = [n for n in ast.walk(cl) if isinstance(n, ast.AsyncWith) and "send_lock" in ast.unparse(n.items[0])]
        if len(withs) != 1:
            raise runner.TranslateError("client.aclose: expected `async with self.__send_lock`")
    # (4) server-side client: what the fallback closes
    srv_tree = parse("src/easynetwork/servers/async_tcp.py")
    api = _func(srv_tree, "_ConnectedClientAPI.aclose")
    hs = [h for n in ast.walk(api) if isinstance(n, ast.Try) for h in n.handlers]
    if len(hs) != 1 or "get_cancelled_exc_class" not in ast.unparse(hs[0].type or ast.Constant(None)):
        raise runner.TranslateError("_ConnectedClientAPI.aclose: expected one `except <cancelled>` handler")
    cs = _calls(hs[0], "aclose_forcefully")
    cs2 = _calls(hs[0], "_aclose_forcefully")
    if len(cs) == 1 and not cs2 and len(cs[0].args) == 1 and ast.unparse(cs[0].args[0]) == "self.__client":
        bypass = False
    elif len(cs2) == 1 and not cs and ast.unparse(cs2[0].func) == "self.__client._aclose_forcefully":
        # the method must close the transport without the guard
        low = _func(parse("src/easynetwork/lowlevel/api_async/servers/stream.py"), "ConnectedStreamClient._aclose_forcefully")
        inner = _calls(low, "aclose_forcefully")
        if any(isinstance(n, (ast.With, ast.AsyncWith)) for n in ast.walk(low)) or len(inner) != 1 \
                or "transport" not in ast.unparse(inner[0].args[0]):
            raise runner.TranslateError("ConnectedStreamClient._aclose_forcefully: unrecognised body")
        bypass = True
    else:
        raise runner.TranslateError("_ConnectedClientAPI.aclose: unrecognised fallback")
    return (closing_first, catches_base, client_fallback, bypass)


PARAMS_SOURCE = "not computed"


def _params_from_behaviour():
    """The four switches read off the REAL code with scripted outcomes (no assumption on how the code is written):
      closing_flag_first          is_closing() of the TLS transport at the first suspension point of its aclose()
      unwrap_handler_catches_base the leaf is closed when aclose() is cancelled at the first suspension of unwrap()
      client_forced_fallback      the leaf is closed when client.aclose() is cancelled waiting for a held send lock
      api_fallback_bypasses_guard same for the server-side client API (the sender also holds the send guard)"""
    tls = [1, [1, 2, 0], [0, 0, 1]]
    leaf = [0, [0, 0, 1]]
    info = {}
    run_case([0, tls, 0, [], 0], info=info)
    at_points = info.get("closing_at_points") or []
    if not at_points:
        from common import runner
        raise runner.TranslateError("behavioural probe: TLS aclose() reached no suspension point")
    closing_first = bool(at_points[0])
    catches_base = bool(run_case([0, tls, 0, [2], 0])[1][0])
    client_fallback = bool(run_case([4, leaf, 1, [2], 0])[1][0])
    bypass = bool(run_case([5, leaf, 1, [2], 0])[1][0])
    return (closing_first, catches_base, client_fallback, bypass)


def params():
    """AST translation first (it also pins the SHAPE the model transcribes); when the source is written in a shape
    outside the recognised fragment, the switches are extracted behaviourally instead of failing closed.  When both
    are available they must agree."""
    global PARAMS_SOURCE
    from common import runner
    beh = _params_from_behaviour()
    try:
        vals = _params_from_ast()
        PARAMS_SOURCE = "ast (cross-checked with behavioural probes)"
        if vals != beh:
            raise runner.TranslateError(f"AST translation {vals} and behavioural probes {beh} disagree")
    except runner.TranslateError as exc:
        if "disagree" in str(exc):
            raise
        vals = beh
        PARAMS_SOURCE = f"behavioural probes (AST shape not recognised: {exc})"
    closing_first, catches_base, client_fallback, bypass = vals
    b = lambda v: "true" if v else "false"
    return (f"Definition closing_flag_first : bool := {b(closing_first)}.\n"
            f"Definition unwrap_handler_catches_base : bool := {b(catches_base)}.\n"
            f"Definition client_forced_fallback : bool := {b(client_fallback)}.\n"
            f"Definition api_fallback_bypasses_guard : bool := {b(bypass)}.\n")


# ------------------------------------------------------------------ scripted world

class World:
    def __init__(self, labels):
        self.labels = list(labels)
        self.used = 0
        self.pending = None        # future of the suspension point the closing task is parked at
        self.scripting = False     # False while the harness sets the scene (handshake, sender): I/O never suspends
        self.sender_fut = None     # the suspended sender's send_all
        self.on_sender_armed = None
        self.reader_fut = None     # "arm": the next recv of a leaf suspends for good (a reader blocked in recv_packet)

    async def point(self):
        fut = asyncio.get_running_loop().create_future()
        self.pending = fut
        try:
            await fut
        finally:
            if self.pending is fut:
                self.pending = None


def make_classes():
    from easynetwork.lowlevel.api_async.transports.abc import AsyncStreamTransport
    from easynetwork.lowlevel.socket import INETSocketAttribute

    class Leaf(AsyncStreamTransport):
        def __init__(self, world, backend, idx, m, sock=None, peer=None):
            super().__init__()
            self.world, self._backend, self.idx, self.m = world, backend, idx, m
            self.closed = False
            self.sock, self.peer = sock, peer
            self.inbox = bytearray()

        async def aclose(self):
            if self.closed:
                return
            self.closed = True
            for _ in range(self.m):
                await self.world.point()

        def is_closing(self):
            return self.closed

        def backend(self):
            return self._backend

        async def send_all(self, data):
            data = bytes(data)
            if self.world.sender_fut == "arm":
                fut = asyncio.get_running_loop().create_future()
                self.world.sender_fut = fut
                if self.world.on_sender_armed is not None:
                    self.world.on_sender_armed.set()
                await fut
                return
            if self.world.scripting and getattr(self.world, "send_fails", False):
                raise OSError(104, "Connection reset by peer")
            if self.peer is not None:
                self.peer.feed(data, immediate=not self.world.scripting)
            if self.world.scripting and self.peer is not None and self.peer.send_suspends:
                await self.world.point()

        async def send_all_from_iterable(self, it):
            await self.send_all(b"".join(bytes(x) for x in it))

        async def send_eof(self):
            pass

        async def recv(self, bufsize):
            if self.world.reader_fut == "arm-partial":
                self.world.reader_fut = "arm"
                return b"abc"               # the start of a packet; the next read blocks
            if self.world.reader_fut == "arm":
                fut = asyncio.get_running_loop().create_future()
                self.world.reader_fut = fut
                await fut
                return b""
            if not self.inbox and self.peer is not None:
                self.inbox += self.peer.take_immediate()
            if not self.inbox:
                if not self.world.scripting:
                    raise RuntimeError("harness: recv would block while setting the scene")
                await self.world.point()
                if self.peer is not None:
                    self.inbox += self.peer.take_delayed()
                if not self.inbox:
                    return b""      # peer sent nothing more: EOF
            out = bytes(self.inbox[:bufsize])
            del self.inbox[:bufsize]
            return out

        async def recv_into(self, buffer):
            data = await self.recv(memoryview(buffer).nbytes)
            memoryview(buffer)[:len(data)] = data
            return len(data)

        @property
        def extra_attributes(self):
            s = self.sock
            if s is None:
                return {}
            return {INETSocketAttribute.socket: lambda: s, INETSocketAttribute.family: lambda: s.family,
                    INETSocketAttribute.sockname: lambda: s.getsockname(), INETSocketAttribute.peername: lambda: s.getpeername()}

    return Leaf


class AdapterLeaf:
    """The production leaf: AsyncioTransportStreamSocketAdapter over a real asyncio transport (loopback TCP pair).
    backlog: 16 MiB are written before the close while the peer does not read, so the transport's write buffer is not
    empty and transport.close() cannot finish by itself."""

    def __init__(self, idx, backlog=False):
        self.idx, self.backlog = idx, backlog
        srv = _socket.create_server(("127.0.0.1", 0))
        self.sock = _socket.create_connection(srv.getsockname())
        self.peer_sock, _ = srv.accept()
        srv.close()
        self.sock.setblocking(False)
        self.peer_sock.setblocking(False)
        self.adapter = None
        self.peer = None
        self.transport = None

    async def open(self, backend):
        self.adapter = await backend.wrap_stream_socket(self.sock)
        self.transport = self.adapter._AsyncioTransportStreamSocketAdapter__transport
        if self.backlog:
            self.transport.write(b"x" * (16 << 20))
            assert self.transport.get_write_buffer_size() > 0, "harness: the kernel took the whole backlog"
        return self.adapter

    @property
    def closed(self):
        return bool(self.adapter.is_closing())

    @property
    def fd_released(self):
        return self.sock.fileno() == -1

    def waiting_for_flush(self):
        return bool(self.backlog and self.adapter.is_closing() and self.sock.fileno() != -1
                    and self.peer_sock.fileno() != -1)

    def drain_peer(self):
        try:
            while self.peer_sock.recv(1 << 22):
                pass
        except BlockingIOError:
            pass
        except OSError:
            pass

    def reset_peer(self):
        import struct
        self.peer_sock.setsockopt(_socket.SOL_SOCKET, _socket.SO_LINGER, struct.pack("ii", 1, 0))
        self.peer_sock.close()

    def cleanup(self):
        if self.peer_sock.fileno() != -1:
            self.peer_sock.close()
        if self.transport is not None and self.sock.fileno() != -1:
            self.transport.abort()
        if self.sock.fileno() != -1:
            self.sock.close()


class TlsPeer:
    """Independent stdlib SSLObject (server side, TLS 1.2) answering over memory BIOs."""
    _ctx = None

    def __init__(self, answer_close, send_suspends):
        if TlsPeer._ctx is None:
            ctx = ssl.SSLContext(ssl.PROTOCOL_TLS_SERVER)
            ctx.load_cert_chain(CERT, KEY)
            ctx.minimum_version = ctx.maximum_version = ssl.TLSVersion.TLSv1_2
            TlsPeer._ctx = ctx
        self.inb, self.outb = ssl.MemoryBIO(), ssl.MemoryBIO()
        self.obj = TlsPeer._ctx.wrap_bio(self.inb, self.outb, server_side=True)
        self.hs_done = False
        self.answer_close = answer_close       # 1 answers close_notify, 0 sends nothing (EOF), 2 sends garbage
        self.send_suspends = send_suspends
        self.immediate, self.delayed = bytearray(), bytearray()

    def feed(self, data, immediate):
        self.inb.write(data)
        self.pump()
        out = self.outb.read()
        (self.immediate if immediate else self.delayed).extend(out)

    def pump(self):
        try:
            if not self.hs_done:
                self.obj.do_handshake()
                self.hs_done = True
            else:
                self.obj.read(65536)
        except ssl.SSLWantReadError:
            pass
        except ssl.SSLZeroReturnError:
            if self.answer_close == 1:
                try:
                    self.obj.unwrap()
                except ssl.SSLError:
                    pass
            elif self.answer_close == 2:
                self.outb.write(b"\x17\x03\x03\x00\x05hello")
        except ssl.SSLError:
            pass

    def send_app_data(self, chunks):
        for c in chunks:
            self.obj.write(c)
        self.immediate.extend(self.outb.read())

    def close_first(self):
        """The peer closes before we do: its close_notify is already waiting."""
        try:
            self.obj.unwrap()
        except ssl.SSLError:
            pass
        self.immediate.extend(self.outb.read())

    def take_immediate(self):
        out = bytes(self.immediate)
        self.immediate.clear()
        return out

    def take_delayed(self):
        out = bytes(self.delayed) + bytes(self.immediate)
        self.delayed.clear()
        self.immediate.clear()
        return out


_client_ctx = None


def client_ctx():
    global _client_ctx
    if _client_ctx is None:
        ctx = ssl.SSLContext(ssl.PROTOCOL_TLS_CLIENT)
        ctx.load_verify_locations(CERT)
        ctx.check_hostname = False
        ctx.minimum_version = ctx.maximum_version = ssl.TLSVersion.TLSv1_2
        _client_ctx = ctx
    return _client_ctx


_pair = None


def tcp_pair():
    """One connected loopback TCP pair per process: only used to satisfy the constructors' socket checks."""
    global _pair
    if _pair is None:
        srv = _socket.create_server(("127.0.0.1", 0))
        c = _socket.create_connection(srv.getsockname())
        s, _ = srv.accept()
        srv.close()
        c.setblocking(False)
        _pair = (c, s)
    return _pair


# ------------------------------------------------------------------ running one case on the real objects

def _code(exc):
    from easynetwork.exceptions import BusyResourceError
    if exc is None:
        return 0
    if isinstance(exc, asyncio.CancelledError):
        return 2
    if isinstance(exc, TimeoutError):
        return 3
    if isinstance(exc, BusyResourceError):
        return 4
    if isinstance(exc, OSError):
        return 1
    return 9


def leaves_of(base):
    return [base[1]] if base[0] == 0 else leaves_of(base[1]) + leaves_of(base[2])


def tls_points(tr):
    return tr[1][1] if tr[0] == 1 else 0


def run_case(inp, trace=None, cancel_at=None, info=None):
    path, tr, lock, labels, second = inp[:5]
    from easynetwork.lowlevel.api_async.backend._asyncio.backend import AsyncIOBackend
    from easynetwork.lowlevel.api_async.transports.composite import AsyncStapledStreamTransport
    from easynetwork.lowlevel.api_async.transports.tls import AsyncTLSStreamTransport
    from easynetwork.lowlevel.api_async.transports.utils import aclose_forcefully
    Leaf = make_classes()
    world = World(labels)
    csock, _ssock = tcp_pair()
    leafs = {}

    with stepkit.Stepper() as sp:
        loop = sp.loop
        backend = AsyncIOBackend()
        is_tls = tr[0] == 1
        tcfg = tr[1] if is_tls else None
        base = tr[-1]
        peer = None
        if is_tls:
            std, unwrap_pts, hs_pts = tcfg[:3]
            tls_mode = tcfg[3] if len(tcfg) > 3 else 0
            # mode 0 -- unwrap_pts: 0 peer closed first and sends do not suspend; 1 recv suspends; 2 send and recv suspend
            # mode 1 -- unread application data in the SSL object: unwrap() writes the close_notify and fails with
            #           SSLError; the flush of that alert is the (single) suspension point: the peer does not read
            # mode 2 -- shutdown_timeout = 0 and the wrapped transport's send_all() fails at once (peer reset): the scope is
            #           cancelled on entry, the flush fails, OSError is swallowed, no checkpoint (unwrap_pts = 0)
            peer = TlsPeer(answer_close=1, send_suspends=(unwrap_pts >= 2 or tls_mode == 1))

        async def abuild(b):
            if b[0] == 0:
                if len(b) > 3 and b[3] in (1, 2, 3):
                    lf = AdapterLeaf(b[1], backlog=(b[3] == 2))
                    lf.reset_before_close = (b[3] == 3)
                    leafs[b[1]] = lf
                    return await lf.open(backend)
                lf = Leaf(world, backend, b[1], b[2], sock=csock, peer=peer)
                leafs[b[1]] = lf
                return lf
            return AsyncStapledStreamTransport(await abuild(b[1]), await abuild(b[2]))

        bt = loop.create_task(abuild(base))
        sp.quiesce(until=bt.done)
        lower = bt.result()

        counter = [0]
        holder_closing = [lambda: False]

        def apply_resets():
            # the peer has reset the connection and the loop has not noticed yet: write_eof() fails with ENOTCONN
            for lf in leafs.values():
                if isinstance(lf, AdapterLeaf) and getattr(lf, "reset_before_close", False):
                    lf.reset_peer()

        def drive(task, is_main=True):
            """Run until the task is done, resolving each suspension point with the next label."""
            while not task.done():
                if cancel_at is not None and is_main:
                    # per-iteration sweep: the closing task is cancelled after exactly cancel_at loop iterations
                    while sp.ready() and not task.done():
                        sp.iterate()
                        counter[0] += 1
                        if counter[0] == cancel_at:
                            task.cancel()
                else:
                    sp.quiesce(until=task.done)
                if task.done():
                    break
                fut = world.pending
                waiting_lock = fut is None and world.sender_fut not in (None, "arm") and not world.sender_fut.done()
                flushers = [lf for lf in leafs.values() if isinstance(lf, AdapterLeaf) and lf.waiting_for_flush()]
                if fut is None and not waiting_lock and flushers:
                    # the closing task waits for the asyncio transport to flush: the label says what the peer does
                    lab = world.labels.pop(0) if world.labels else 0
                    world.used += 1
                    if trace is not None:
                        trace.append(lab)
                    lf = flushers[0]
                    if lab == 2:
                        task.cancel()
                    elif lab == 1:
                        lf.reset_peer()
                        for _ in range(200):
                            sp.iterate()
                            if lf.fd_released:
                                break
                    else:
                        for _ in range(2000):
                            lf.drain_peer()
                            sp.iterate()
                            if lf.fd_released:
                                break
                    continue
                if fut is None and not waiting_lock:
                    if sp.advance_to_timer():
                        sp.iterate()
                        continue
                    raise stepkit.StepLimit("closing task is blocked on something the harness does not control")
                lab = world.labels.pop(0) if world.labels else 0
                world.used += 1
                if trace is not None:
                    trace.append(lab)
                if info is not None and is_main:
                    info.setdefault("closing_at_points", []).append(bool(holder_closing[0]()))
                if lab == 2:
                    task.cancel()
                elif lab == 3 and sp.next_timer() is not None:
                    sp.advance_to_timer()
                    sp.iterate()
                elif waiting_lock:
                    world.sender_fut.set_result(None)
                elif lab == 1:
                    fut.set_exception(OSError(104, "scripted"))
                else:
                    fut.set_result(None)
            sp.quiesce()
            if task.cancelled():
                return asyncio.CancelledError()
            return task.exception()

        async def scene_wrap():
            return await AsyncTLSStreamTransport.wrap(lower, client_ctx(), server_side=False, server_hostname="localhost",
                                                      standard_compatible=bool(tcfg[0]),
                                                      shutdown_timeout=(0.0 if (len(tcfg) > 3 and tcfg[3] == 2) else 5.0),
                                                      handshake_timeout=7.0)

        transport = lower
        if path == 2:
            # the handshake itself is the operation under test: hs_pts recv suspension points, then the peer goes away
            world.scripting = True
            task = loop.create_task(scene_wrap())
            exc = drive(task)
            outer = int(all(l.closed for l in leafs.values())) if exc is not None else 0
            lfl = [int(leafs.get(0).closed if 0 in leafs else 0), int(leafs.get(1).closed if 1 in leafs else 0)]
            return [_code(exc), lfl, outer, 0, world.used, [], lfl]
        if is_tls:
            t = loop.create_task(scene_wrap())
            sp.quiesce(until=t.done)
            transport = t.result()
            if tls_mode == 2:
                world.send_fails = True
            if tls_mode == 1:
                peer.send_app_data([b"A" * 100, b"B" * 100])
                t = loop.create_task(transport.recv(1))
                sp.quiesce(until=t.done)
                assert t.result() == b"A"           # both records are in the SSL object, one byte consumed
            elif tcfg[1] == 0:
                peer.close_first()

        # --- the object whose close is under test
        from easynetwork.protocol import StreamProtocol
        from easynetwork.serializers.line import StringLineSerializer
        proto = StreamProtocol(StringLineSerializer())
        if path in (10, 11):
            # a protocol whose parser generator has received the start of a packet and RAISES when it is closed
            from easynetwork.serializers.abc import AbstractIncrementalPacketSerializer

            class DirtySerializer(AbstractIncrementalPacketSerializer):
                def serialize(self, packet):
                    return b"x"

                def deserialize(self, data):
                    return data

                def incremental_serialize(self, packet):
                    yield b"x"

                def incremental_deserialize(self):
                    try:
                        while True:
                            yield
                    except GeneratorExit:
                        raise RuntimeError("parser clean-up failed") from None
            proto = StreamProtocol(DirtySerializer())
        obj_is_closing = transport.is_closing
        api = None
        sender = None
        reader = None
        if path in (0, 1, 6, 7, 9):
            closer = (lambda: transport.aclose()) if path == 0 else (lambda: aclose_forcefully(transport))
        elif path in (3, 10):
            from easynetwork.lowlevel.api_async.endpoints.stream import AsyncStreamEndpoint
            ep = AsyncStreamEndpoint(transport, proto, max_recv_size=1024)
            closer, obj_is_closing = ep.aclose, ep.is_closing
            sender = (lambda: ep.send_packet("x")) if lock == 1 else None
            reader = (lambda: ep.recv_packet()) if (lock == 2 or path == 10) else None
        elif path in (4, 11):
            from easynetwork.clients.async_tcp import AsyncTCPNetworkClient

            class B(AsyncIOBackend):
                async def wrap_stream_socket(self, socket, **kw):
                    socket.close()
                    return transport
            client = AsyncTCPNetworkClient(csock.dup(), proto, backend=B())
            t = loop.create_task(client.wait_connected())
            sp.quiesce(until=t.done)
            t.result()
            closer, obj_is_closing = client.aclose, client.is_closing
            sender = (lambda: client.send_packet("x")) if lock == 1 else None
            reader = (lambda: client.recv_packet()) if (lock == 2 or path == 11) else None
        elif path == 8:
            # the connection is still being established by a send_packet() task, which holds the send lock meanwhile
            from easynetwork.clients.async_tcp import AsyncTCPNetworkClient
            connect_gate = loop.create_future()

            class B8(AsyncIOBackend):
                async def wrap_stream_socket(self, socket, **kw):
                    socket.close()
                    try:
                        await connect_gate
                    except BaseException:
                        await aclose_forcefully(transport)     # what an aborted attempt does with its socket (C19)
                        raise
                    return transport
            client = AsyncTCPNetworkClient(csock.dup(), proto, backend=B8())
            closer, obj_is_closing = client.aclose, client.is_closing
            implicit = loop.create_task(client.send_packet("x"))
            implicit.add_done_callback(lambda t: t.cancelled() or t.exception())
            sp.quiesce()
            assert not implicit.done() and not connect_gate.done(), "harness: the implicit connect did not suspend"
            world.sender_fut = connect_gate        # a closer blocked behind that task is "waiting for the sender"
        elif path == 5:
            from easynetwork.lowlevel.api_async.servers.stream import ConnectedStreamClient
            from easynetwork.lowlevel._stream import StreamDataProducer
            from easynetwork.servers.async_tcp import _ConnectedClientAPI
            from easynetwork.lowlevel.socket import new_socket_address
            low = ConnectedStreamClient(_transport=transport, _producer=StreamDataProducer(proto))
            api = _ConnectedClientAPI(new_socket_address(csock.getpeername(), csock.family), low)
            closer = api.aclose
            sender = (lambda: api.send_packet("x")) if lock else None
        else:
            raise ValueError(path)
        in_handler = None
        if path in (6, 7, 9):
            # the REAL AsyncStreamServer.serve / __client_coroutine around a request handler that (path 7) calls
            # client.aclose() of the server-side client API, over a listener that hands out our transport once
            from easynetwork.lowlevel.api_async.servers.stream import AsyncStreamServer
            from easynetwork.lowlevel.api_async.transports.abc import AsyncListener
            from easynetwork.servers.async_tcp import _ConnectedClientAPI
            from easynetwork.lowlevel.socket import new_socket_address, INETSocketAttribute
            holder = {}

            class OneShotListener(AsyncListener):
                closed = False

                async def serve(self, handler, task_group=None):
                    await handler(transport)

                def is_closing(self):
                    return self.closed

                async def aclose(self):
                    self.closed = True

                def backend(self):
                    return backend

                @property
                def extra_attributes(self):
                    return {}

            listener = OneShotListener()
            server = AsyncStreamServer(listener, proto, 1024)
            want_lock = bool(lock)

            def raising_cb(lowlevel_client):
                raise RuntimeError("client_connected_cb failed before returning its generator")

            async def request_handler(lowlevel_client):
                if path == 7:
                    sock = lowlevel_client.extra(INETSocketAttribute.socket)
                    holder["api"] = a = _ConnectedClientAPI(new_socket_address(sock.getpeername(), sock.family), lowlevel_client)
                    if want_lock:
                        world.sender_fut = "arm"
                        world.on_sender_armed = asyncio.Event()
                        holder["sender"] = loop.create_task(a.send_packet("x"))
                        await world.on_sender_armed.wait()
                    world.scripting = True
                    apply_resets()
                    await a.aclose()
                return
                yield       # pragma: no cover  (makes this an async generator)

            async def teardown():
                try:
                    await server.serve(raising_cb if path == 9 else request_handler)
                finally:
                    listener.closed = True
            closer = teardown
            sender = None
            in_handler = holder

        reader_task = None
        if reader is not None:
            world.reader_fut = "arm-partial" if path in (10, 11) else "arm"
            reader_task = loop.create_task(reader())
            reader_task.add_done_callback(lambda t: t.cancelled() or t.exception())
            sp.quiesce()
            assert world.reader_fut not in (None, "arm"), "reader did not suspend"
        sender_task = None
        if sender is not None:
            world.sender_fut = "arm"
            sender_task = loop.create_task(sender())
            sp.quiesce()
            assert world.sender_fut not in (None, "arm"), "sender did not suspend"
        world.scripting = True
        holder_closing[0] = obj_is_closing
        if path != 7:
            apply_resets()
        task = loop.create_task(closer())
        exc = drive(task)
        if info is not None:
            info["iterations"] = counter[0]
        if in_handler is not None:
            api = in_handler.get("api")
            sender_task = in_handler.get("sender")
        res = [_code(exc), [int(leafs[0].closed) if 0 in leafs else 0, int(leafs[1].closed) if 1 in leafs else 0],
               int(obj_is_closing()), int(api.is_closing()) if api is not None else 0, world.used]
        fdflag = lambda i: int(getattr(leafs[i], "fd_released", leafs[i].closed)) if i in leafs else 0
        snd = []
        fd_first = [fdflag(0), fdflag(1)]
        if second:
            before = world.used
            task2 = loop.create_task(closer())
            exc2 = drive(task2, is_main=False)
            snd = [_code(exc2), world.used - before,
                   [int(leafs[0].closed) if 0 in leafs else 0, int(leafs[1].closed) if 1 in leafs else 0],
                   [fdflag(0), fdflag(1)]]
            if second == 2:
                before = world.used
                task3 = loop.create_task(closer())
                exc3 = drive(task3, is_main=False)
                snd += [_code(exc3), world.used - before]
        if reader_task is not None and not reader_task.done():
            if not world.reader_fut.done():
                world.reader_fut.set_result(None)
            sp.quiesce()
        if path == 8 and not world.sender_fut.done():
            world.sender_fut.set_result(None)
            sp.quiesce()
        if sender_task is not None and not sender_task.done():
            if not world.sender_fut.done():
                world.sender_fut.set_result(None)
            sp.quiesce()
        fd_first = [fdflag(0), fdflag(1)] if not second else fd_first
        for lf in leafs.values():
            if isinstance(lf, AdapterLeaf):
                lf.cleanup()
        sp.quiesce()
        return res + [snd, fd_first]


def run_impl(inp):
    return run_case(inp)


# ------------------------------------------------------------------ the property on the implementation

F9_SIGNATURE = "asyncio adapter, unflushed data: cancelled close keeps the fd, second close waits"


def _has_backlog_adapter(tr):
    def walk(b):
        if b[0] == 0:
            return len(b) > 3 and b[3] == 2
        return walk(b[1]) or walk(b[2])
    return walk(tr[-1])


def oracle(inp):
    """C14 on the implementation: once the close has started every leaf is closing AND its descriptor has been
    released when the close is over (returned, failed, timed out or cancelled), and a second close consumes no
    suspension point."""
    path, tr, lock, labels, second = inp[:5]
    out = run_case(inp[:5], cancel_at=inp[5]) if len(inp) > 5 else run_case(inp)
    res, flags, outer, _api, used, snd = out[:6]
    fds = out[6] if len(out) > 6 else flags
    want = leaves_of(tr[-1])
    if path == 2 and res == 0:
        return None      # the handshake succeeded: nothing to close
    if path == 3 and lock == 1:
        return None      # closing the low-level endpoint while another task sends is refused by contract (BusyResourceError)
    what = {0: "transport.aclose", 1: "aclose_forcefully", 2: "tls wrap failure", 3: "endpoint.aclose",
            4: "client aclose", 5: "server-side client aclose", 6: "client task teardown",
            7: "client task teardown", 8: "client aclose while connecting", 9: "client task teardown (callback raised)",
            10: "endpoint.aclose (parser clean-up raises)", 11: "client aclose (parser clean-up raises)"}[path]
    for i in want:
        if not flags[i]:
            where = "cancel at send-lock acquisition" if lock and 2 in labels[:1] else f"labels {labels[:used]}"
            return f"{what}, {where}: leaf {i} left open (result {res})"
    for i in want:
        if not fds[i]:
            return f"{what}, labels {labels[:used]}: descriptor of leaf {i} still open after the close (result {res})"
    if snd and lock != 1 and snd[1] != 0:
        return f"second close: {snd[1]} suspension points on an already closed transport"
    if snd and lock != 1 and snd[0] != 0:
        return f"second close raised (code {snd[0]}) although nobody interrupted it"
    if len(snd) > 4 and lock != 1 and (snd[5] != 0 or snd[4] != 0):
        return f"third close: result code {snd[4]}, {snd[5]} suspension points"
    return None


def signature(inp, failure):
    path, tr, lock, labels = inp[:4]
    if lock and labels[:1] == [2] and "left open" in failure:
        if path == 4:
            return "client aclose, cancel at send-lock acquisition"
        if path == 5:
            return "server-side client aclose, cancel at send-lock acquisition while a send holds the guard"
    if _has_backlog_adapter(tr) and not lock and ("descriptor of leaf" in failure or failure.startswith("second close:")):
        # only the adapter WITH unflushed data; the same symptom on any other leaf is a different failure
        bad = failure.split("leaf ")[1].split(" ")[0] if "descriptor of leaf" in failure else None
        if bad is None or _leaf_is_backlog(tr, int(bad)):
            return F9_SIGNATURE
    return failure


def _leaf_is_backlog(tr, idx):
    def walk(b):
        if b[0] == 0:
            return b[1] == idx and len(b) > 3 and b[3] == 2
        return walk(b[1]) or walk(b[2])
    return walk(tr[-1])


def shrink(inp):
    path, tr, lock, labels, second = inp[:5]
    if second:
        yield [path, tr, lock, labels, 0]
    for i in range(len(labels)):
        yield [path, tr, lock, labels[:i] + labels[i + 1:], second]
    if tr[0] == 1:
        yield [path, [0, tr[2]], lock, labels, second]
    if tr[-1][0] == 1:
        yield [path, tr[:-1] + [tr[-1][1]], lock, labels, second]


# ------------------------------------------------------------------ cases

def shapes(thorough):
    bases = [[0, 0, m] for m in ((0, 1, 2, 3) if thorough else (0, 1, 2))]
    bases += [[1, [0, 0, a], [0, 1, b]] for a, b in ((0, 0), (1, 1), (2, 1), (1, 2))]
    out = [[0, b] for b in bases]
    # the production leaf: the asyncio socket adapter over a real asyncio transport (modelled as a leaf with m = 0)
    out += [[0, [0, 0, 0, 1]], [0, [1, [0, 0, 0, 1], [0, 1, 0, 1]]], [0, [1, [0, 0, 1], [0, 1, 0, 1]]]]
    # ... with unflushed write data and a peer that is not reading (close waiter = one environment-driven suspension)
    out += [[0, [0, 0, 0, 2]], [0, [1, [0, 0, 0, 2], [0, 1, 1]]]]
    # ... whose peer has just reset the connection (write_eof() raises ENOTCONN, swallowed; modelled like the plain adapter)
    out += [[0, [0, 0, 0, 3]], [0, [1, [0, 0, 0, 3], [0, 1, 1]]]]
    for b in ([0, 0, 0], [0, 0, 1], [0, 0, 2], [1, [0, 0, 1], [0, 1, 1]]):
        for std, up in ((1, 2), (1, 1), (1, 0), (0, 0)):
            out.append([1, [std, up, 0], b])
    # unread application data when the close starts: unwrap() fails after producing the alert, whose flush blocks
    for b in ([0, 0, 0], [0, 0, 1], [1, [0, 0, 1], [0, 1, 1]]):
        out.append([1, [1, 1, 0, 1], b])
        out.append([1, [1, 0, 0, 2], b])    # shutdown_timeout = 0, send_all of the close_notify fails at once
    return out


def label_seqs(k, thorough, rng):
    import itertools
    alphabet = (0, 1, 2, 3)
    if k <= (4 if thorough else 3):
        for n in range(0, k + 1):
            yield from (list(s) for s in itertools.product(alphabet, repeat=n) if not s or s[-1] != 0)
        return
    yield []
    for i in range(k):
        for lab in (1, 2, 3):
            yield [0] * i + [lab]
            for j in range(i + 1, k):
                for lab2 in (1, 2) if thorough else (2,):
                    yield [0] * i + [lab] + [0] * (j - i - 1) + [lab2]
    for _ in range(30 if thorough else 8):
        yield [rng.choice(alphabet) for _ in range(k)]


def cases(tier, rng, escalate):
    thorough = tier == "thorough" or escalate
    for tr in shapes(thorough):
        is_tls = tr[0] == 1
        for path in (0, 1, 3, 4, 5, 6, 7, 8, 9, 10, 11):
            if path in (8, 10, 11) and (is_tls or any(len(x) > 3 for x in ([tr[-1]] if tr[-1][0] == 0 else tr[-1][1:]))):
                continue
            leaf_specs = [tr[-1]] if tr[-1][0] == 0 else [x for x in tr[-1][1:] if isinstance(x, list)]
            real_leaf = any(len(x) > 3 for x in leaf_specs)
            backlog = any(len(x) > 3 and x[3] == 2 for x in leaf_specs)
            locks = (0, 1) if path in (3, 4, 5, 7) and not real_leaf else (0,)
            if path in (3, 4) and not is_tls and not real_leaf:
                locks = locks + (2,)        # a reader blocked in recv_packet(): no close path takes the receive guard
            for lock in locks:
                trace = []
                run_case([path, tr, lock, [], 0], trace)
                k = len(trace)
                extra = 1 if backlog else 2      # handlers may reach further points once an earlier one failed
                for labels in label_seqs(k + (extra if k else 0), thorough, rng):
                    second = 0 if (lock == 1 or path in (6, 7, 9)) else (2 if (len(labels) + path) % 2 else 1)
                    yield dict(input=[path, tr, lock, labels, second],
                               tags=[f"path{path}", "tls" if is_tls else "plain", "stapled" if tr[-1][0] == 1 else "leaf",
                                     ] + (["tls-unread-data"] if is_tls and len(tr[1]) > 3 and tr[1][3] == 1 else []) + [
                                     "asyncio-adapter" if real_leaf else "memory-leaf",
                                     ] + (["adapter-backlog"] if backlog else []) + [
                                     {0: "nolock", 1: "lock", 2: "reader-pending"}[lock], f"k{k}"] +
                                    [f"label{l}" for l in sorted(set(labels))],
                               nontrivial=bool(lock or any(labels)))
    # TLS wrap: the handshake fails / is cancelled / times out at each of its suspension points
    for b in ([0, 0, 0], [0, 0, 1], [0, 0, 2], [1, [0, 0, 1], [0, 1, 1]]):
        tr = [1, [1, 0, 2], b]
        for labels in label_seqs(4, thorough, rng):
            yield dict(input=[2, tr, 0, labels, 0], tags=["path2", "tls", "wrap"] + [f"label{l}" for l in sorted(set(labels))],
                       nontrivial=any(labels))


def extra(ctx):
    """Per-iteration cancellation sweep: for shapes whose leaf is the real asyncio socket adapter (its only await is
    not label driven) and for TLS shapes, the closing task is cancelled after d loop iterations for every d >= 1 of
    the all-complete run; the conclusion of close_closes is checked (every leaf closed, fd released)."""
    from common import sx
    runs = bad = 0
    shapes_ = [[0, [0, 0, 0, 1]], [0, [1, [0, 0, 0, 1], [0, 1, 0, 1]]], [0, [1, [0, 0, 1], [0, 1, 0, 1]]], [0, [0, 0, 0, 2]],
               [1, [1, 2, 0], [0, 0, 1]], [1, [1, 1, 0], [1, [0, 0, 1], [0, 1, 1]]]]
    for tr in shapes_:
        for path in (0, 1, 3, 4, 5, 6, 7):
            info = {}
            run_case([path, tr, 0, [], 0], cancel_at=10 ** 9, info=info)
            for d in range(1, info.get("iterations", 0) + 2):
                inp = [path, tr, 0, [], 0]
                out = run_case(inp, cancel_at=d)
                runs += 1
                want = leaves_of(tr[-1])
                if not all(out[1][i] for i in want):
                    bad += 1
                    ctx.problems.append(dict(kind="correspondence",
                                             detail=f"cancel sweep path={path} d={d}: leaf left open, result {out[0]}",
                                             input=sx.to_text(inp + [d])))
                    ctx.extra_suspects = getattr(ctx, "extra_suspects", []) + [inp + [d]]
    return dict(cancel_sweep_runs=runs, cancel_sweep_failures=bad, params_source=PARAMS_SOURCE)
