"""C13 — cancel scopes interrupt on time, swallow only their own cancel, honour shields.

Generated programs (coq/Conc/CancelScope.v `prog`) are interpreted as REAL coroutines using the asyncio backend's
timeout / move_on_after / open_cancel_scope / ignore_cancellation / sleep / coro_yield / cancel_shielded_coro_yield and
run on the deterministic loop; the controller's task.cancel() arrives from timers and from handles injected at the
front/back of the ready queue of a chosen loop iteration.  The Coq model interprets the same program with the same
controller schedule and must produce the same trace.

Case (sx):  [prog, [timer ticks], [[iteration, front?] | [iteration, front?, act]...], K, fuel]
  act 0 (default): the controller's task.cancel(); act k+1: a step of ANOTHER task (a sibling created by the harness)
  that calls cancel() on the host's k-th enclosing active scope (asyncio.current_task() is that sibling)
  prog:  [0] skip | [1,p,q] seq | [2,id,d] sleep d ticks | [3,id] coro_yield | [4,id] cancel_shielded_coro_yield
       | [5,d] block (clock += d, no yield) | [6,id,kind,pre,[delay]|[],body] scope (kind 0 move_on_after /
         open_cancel_scope when no delay, 1 timeout; pre = cancel() before __enter__) | [7,id,body] ignore_cancellation
       | [11,id,d] await a future that FAILS (set_exception) after d ticks
       | [8,k] k-th enclosing scope .cancel() | [9,k,[d]|[]] .reschedule(now+d | inf) | [10,id,c,body] try/except
         (c: 0 CancelledError, 1 TimeoutError, 2 BaseException)
  K: after K consecutive busy loop iterations (ready queue never empty) the clock has reached the next timer
     (time compression of the busy loop in which __deliver_cancellation re-arms itself every turn).
Output: [[events], outcome, task.cancelling()]; events [0,id,t] start, [1,id,t] done, [2,id,t,cancel_called,
  cancelled_caught,cancelling,swallowed-or-TimeoutError-raised,exc-class-given-to-__exit__], [3,id,t,exc] caught,
  [4,t,n,sh] the controller's task.cancel() returned True while n active scopes already had cancel_called (sh: the
  program was inside ignore_cancellation / a shielded yield),
  [5,id,t] the program called cancel() on the scope opened by statement id, [6,id,t,[deadline]|[]] .reschedule(),
  [7,id,t] another task called cancel() on that scope.
"""
from __future__ import annotations

import asyncio
import math

from common import detloop

PROPERTY_ID = "C13"
RUN_MODULE = "Run.C13"
PROPS_FILE = "Props/C13.v"
ALLOWED_AXIOMS = []
_T = "src/easynetwork/lowlevel/api_async/backend/_asyncio/tasks.py"
_B = "src/easynetwork/lowlevel/api_async/backend/_asyncio/backend.py"
_A = "src/easynetwork/lowlevel/api_async/backend/abc.py"
ANCHORS = [
    (_T, "CancelScope.__init__"), (_T, "CancelScope.__enter__"), (_T, "CancelScope.__exit__"),
    (_T, "CancelScope.__uncancel_task"), (_T, "CancelScope.__deliver_cancellation"), (_T, "CancelScope.__cancellation_id"),
    (_T, "CancelScope.cancel"), (_T, "CancelScope.reschedule"), (_T, "CancelScope.__setup_cancellation_by_timeout"),
    (_T, "CancelScope._current_task_scope"), (_T, "CancelScope._inner_to_outer_task_scopes"),
    (_T, "CancelScope._reschedule_delayed_task_cancel"), (_T, "CancelScope._check_pending_cancellation"),
    (_T, "CancelScope.__cancel_task_unless_done"), (_T, "CancelScope.__task_must_cancel"),
    (_T, "TaskUtils.coro_yield"), (_T, "TaskUtils.cancel_shielded_coro_yield"), (_T, "TaskUtils.cancel_shielded_await"),
    (_T, "TaskUtils.__cancel_shielded_await"), (_T, "TaskUtils.__verify_yielded_future"), (_T, "_get_cancelled_error_message"),
    (_B, "AsyncIOBackend.coro_yield"), (_B, "AsyncIOBackend.cancel_shielded_coro_yield"),
    (_B, "AsyncIOBackend.ignore_cancellation"), (_B, "AsyncIOBackend.open_cancel_scope"),
    (_B, "AsyncIOBackend.current_time"), (_B, "AsyncIOBackend.sleep"),
    (_A, "AsyncBackend.timeout"), (_A, "AsyncBackend.move_on_after"), (_A, "_timeout_scope"),
]
RULE = ("programs: every program of a systematic family (two nested scopes x kinds x deadlines 1..3 ticks x a sleep, "
        "optionally shielded / followed by a second sleep, with and without explicit cancel()/reschedule) plus random "
        "programs (<= 8 statement nodes, nesting depth <= 3 of scope / ignore_cancellation / try-except, delays on a "
        "0..4 tick grid, 1 tick = 2^-3 s so float arithmetic is exact); schedules: no controller, task.cancel() from a "
        "timer at every tick up to the end of the uncontrolled run, and task.cancel() injected at the front / back of "
        "the ready queue of loop iterations of the uncontrolled run (all of them for the systematic family, a random "
        "sample otherwise), busy-loop compression K in 1..4. Non-trivial = some scope had cancel_called, or a controller "
        "cancel was delivered before the program ended, or an except clause caught something.")
TRUSTED = ["model of CPython 3.12.1 asyncio Task/Future/call_soon/call_at(heapq)/_run_once and of tasks.py CancelScope / "
           "cancel_shielded_await hand-written in coq/Conc/CancelScope.v, validated by trace replay on the cases counted here",
           "harness/c13.py interpreter (programs -> real coroutines), loop subclass injecting controller handles, "
           "busy-loop time compression (K) implemented identically in the selector wrapper and in the model"]
ASSUMPTIONS = ["single host task; task-group children are not modelled",
               "CPython 3.12.1 asyncio semantics (uncancel() does not clear _must_cancel); asyncio backend only",
               "virtual clock: time advances only when the ready queue is empty, by Block statements, or by the "
               "busy-loop compression rule K"]

TICK = 2.0 ** -3
FUEL = 6000
SEARCH_BUDGET_AFTER_KNOWN = 80000   # runner: how far to look for a failure that is not a known finding
MAX_LOOP_STEPS = 3000


PARAMS_INFO = {}     # how the two code-state flags were obtained on this run (goes into the evidence through extra())


def _class_methods(tree, cls_name):
    for cls in tree.body:
        if isinstance(cls, __import__("ast").ClassDef) and cls.name == cls_name:
            return {it.name: it for it in cls.body if isinstance(it, __import__("ast").FunctionDef)}
    return {}


def _called_private_helpers(fn, methods):
    """methods of the same class called as self.__x(...) / cls.__x(...) from fn (one level)."""
    import ast
    out = []
    for n in ast.walk(fn):
        if (isinstance(n, ast.Call) and isinstance(n.func, ast.Attribute) and isinstance(n.func.value, ast.Name)
                and n.func.value.id in ("self", "cls") and n.func.attr in methods and n.func.attr != fn.name):
            out.append(methods[n.func.attr])
    return out


def _is_takeback_loop(loop):
    """while <...__host_task_cancel_calls...>: ...; <x>.uncancel() as a bare statement (result unused)."""
    import ast
    if not isinstance(loop, ast.While):
        return False
    mentions = any(isinstance(n, ast.Attribute) and n.attr == "__host_task_cancel_calls" for n in ast.walk(loop.test))
    bare = any(isinstance(st, ast.Expr) and isinstance(st.value, ast.Call) and isinstance(st.value.func, ast.Attribute)
               and st.value.func.attr == "uncancel" for st in loop.body)
    return mentions and bare


def _ast_flags():
    """Tolerant, non-guessing read of the two shapes: each flag is True / False when the shape is recognised modulo
    renaming of locals, extraction of private helpers (one level) and loop/return style; None when it is not."""
    import ast
    import os

    from common import runner

    try:
        tree = ast.parse(open(os.path.join(runner.REPO, _T)).read())
    except Exception:
        return None, None
    methods = _class_methods(tree, "CancelScope")
    ex = methods.get("__exit__")
    flag1 = flag2 = None
    if ex is not None:
        # statements of __exit__ with the bodies of the private helpers it calls spliced in (one level)
        scopes = [(ex, False)] + [(h, True) for h in _called_private_helpers(ex, methods) if h.name != "__uncancel_task"]
        found, doubtful = 0, False
        for fn, is_helper in scopes:
            for node in ast.walk(fn):
                if _is_takeback_loop(node):
                    found += 1
                    # a loop that sits in an else-branch / under a test on the exception is conditional on how the
                    # scope exits: not one of the two shapes the model knows
                    for parent in ast.walk(fn):
                        if isinstance(parent, ast.If) and node in parent.orelse:
                            doubtful = True
                        if isinstance(parent, (ast.For, ast.While)) and node in getattr(parent, "orelse", []):
                            doubtful = True
                        if isinstance(parent, ast.If) and node in parent.body and not (
                                isinstance(parent.test, ast.Attribute) and parent.test.attr == "__cancel_called"):
                            doubtful = True
        if found == 1 and not doubtful:
            flag1 = True
        elif found == 0:
            flag1 = False
    ut = methods.get("__uncancel_task")
    if ut is not None and ut.body and isinstance(ut.body[-1], ast.Return):
        rv = ut.body[-1].value
        if isinstance(rv, ast.Constant) and rv.value is False:
            flag2 = False
        elif (isinstance(rv, ast.Compare) and len(rv.ops) == 1 and isinstance(rv.ops[0], ast.In)
              and isinstance(rv.left, ast.Call) and isinstance(rv.left.func, ast.Attribute)
              and rv.left.func.attr == "__cancellation_id"
              and isinstance(rv.comparators[0], ast.Attribute) and rv.comparators[0].attr == "args"):
            flag2 = True
    return flag1, flag2


def _probe_flags():
    """Behavioural extraction: scripted probes on the REAL CancelScope on the deterministic loop.
    flag 1 "a cancelled scope takes back its pending task.cancel() requests when it exits without a CancelledError":
       (a) ignore_cancellation( move_on_after(1){ sleep 2 } ): the scope exits NORMALLY after its requests were swallowed;
       (b) move_on_after(2){ timeout(1){ block 3; sleep 1 } }: the outer scope exits with a TimeoutError;
       task.cancelling() right after that exit: 0 in both -> True, > 0 in both -> False, anything else -> not a shape the
       model knows.
    flag 2 "__uncancel_task falls back on the CancelledError message": move_on_after(1){ sleep 3 }; sleep 1 with the
       controller's task.cancel() at the front of loop iteration 3 (one CancelledError carrying the scope's id stands for
       both requests, cancelling() test fails): the scope swallows -> True, lets it propagate -> False."""
    a = run_impl([[7, 1, [6, 2, 0, 0, [1], [2, 3, 2]]], [], [], 2, FUEL])
    b = run_impl([[6, 1, 0, 0, [2], [6, 2, 1, 0, [1], [1, [5, 3], [2, 3, 1]]]], [], [], 1, FUEL])
    ea = [e for e in a[0] if e[0] == 2 and e[1] == 2]
    eb = [e for e in b[0] if e[0] == 2 and e[1] == 1]
    if len(ea) != 1 or len(eb) != 1 or not ea[0][3] or not eb[0][3]:
        raise ValueError(f"take-back probes did not reach a cancelled scope's exit: {a} {b}")
    ca, cb = ea[0][5], eb[0][5]
    if ca == 0 and cb == 0:
        flag1 = True
    elif ca > 0 and cb > 0:
        flag1 = False
    else:
        raise ValueError(f"take-back depends on how the scope exits (normal exit leaves {ca}, TimeoutError exit leaves {cb})")
    c = run_impl([[1, [6, 1, 0, 0, [1], [2, 2, 3]], [2, 3, 1]], [], [[3, 1]], 2, FUEL])
    ec = [e for e in c[0] if e[0] == 2 and e[1] == 1]
    if len(ec) != 1 or not ec[0][3] or not any(e[0] == 4 for e in c[0]):
        raise ValueError(f"fallback probe did not reach the race: {c}")
    flag2 = bool(ec[0][6])
    return flag1, flag2


def params():
    """Gen/ParamsC13.v: the two code-state flags of the model.
    Decided by BEHAVIOUR (scripted probes on the real CancelScope, _probe_flags); the AST is read as well, tolerantly
    (_ast_flags): where it recognises the shape it must agree with the probe (disagreement = fail closed), where it
    does not the flag is marked "(behavioural)".  A behaviour that is neither shape fails closed."""
    from common import runner

    try:
        p1, p2 = _probe_flags()
    except Exception as exc:
        PARAMS_INFO.clear()
        PARAMS_INFO.update(error=str(exc))
        raise runner.TranslateError(f"behavioural probes: {exc}")
    a1, a2 = _ast_flags()
    for name, pv, av in (("exit_takes_back_leftover", p1, a1), ("uncancel_message_fallback", p2, a2)):
        if av is not None and av != pv:
            PARAMS_INFO.clear()
            PARAMS_INFO.update(error=f"{name}: AST says {av}, behaviour says {pv}")
            raise runner.TranslateError(f"{name}: the source reads as {av} but the real CancelScope behaves as {pv}")
    how1 = "AST, confirmed by probe" if a1 is not None else "behavioural"
    how2 = "AST, confirmed by probe" if a2 is not None else "behavioural"
    PARAMS_INFO.clear()
    PARAMS_INFO.update(exit_takes_back_leftover=dict(value=p1, source=how1),
                       uncancel_message_fallback=dict(value=p2, source=how2))
    return (f"(* does CancelScope.__exit__ take back leftover cancel requests (repair of finding C13-F1)?  ({how1}) *)\n"
            f"Definition exit_takes_back_leftover : bool := {'true' if p1 else 'false'}.\n"
            f"(* does __uncancel_task fall back on the CancelledError message (finding C13-F2 present iff true)?  ({how2}) *)\n"
            f"Definition uncancel_message_fallback : bool := {'true' if p2 else 'false'}.\n")


def extra(ctx):
    return dict(code_state_flags=dict(PARAMS_INFO))


# ------------------------------------------------------------------ running the real code
class _Loop(detloop.DetLoop):
    def __init__(self, K, turns):
        super().__init__(max_steps=MAX_LOOP_STEPS)
        self.K, self.turns = K, turns
        self.iterno, self.spin, self.target = 0, 0, None
        self.actors = []
        sel = self._selector
        orig = sel.select

        def select(timeout=None):
            if timeout == 0 and self._ready:
                self.spin += 1
                if self.K and self.spin >= self.K and self._scheduled:
                    w = self._scheduled[0]._when
                    if w > self._vtime:
                        self._vtime = w
                    self.spin = 0
            else:
                self.spin = 0
            return orig(timeout)

        sel.select = select

    def controller(self):
        # the controller's task.cancel(); it knows (and logs) when its request was accepted
        if self.target.cancel():
            t = self.time() / TICK
            assert t == int(t), t
            self.env.events.append([4, int(t), sum(1 for sc in self.env.scopes if sc.cancel_called()),
                                    self.env.shielded > 0])

    async def actor(self, k):
        env = self.env
        if k < len(env.scopes):
            env.scopes[-1 - k].cancel()
            t = self.time() / TICK
            assert t == int(t), t
            env.events.append([7, env.scope_ids[-1 - k], int(t)])

    def _run_once(self):
        self.iterno += 1
        if self.target is not None:
            for n, front, act in self.turns:
                if n == self.iterno:
                    if act == 0:
                        h = asyncio.Handle(self.controller, (), self)
                    else:
                        # a sibling task whose only step calls scope.cancel(): take the handle of its first step
                        self.actors.append(self.create_task(self.actor(act - 1)))
                        h = self._ready.pop()
                    if front:
                        self._ready.appendleft(h)
                    else:
                        self._ready.append(h)
        super()._run_once()


def _code(exc):
    if exc is None:
        return 0
    if isinstance(exc, asyncio.CancelledError):
        return 1
    if isinstance(exc, TimeoutError):
        return 2
    return 3


class _Env:
    def __init__(self, loop, backend):
        self.loop, self.backend = loop, backend
        self.scopes, self.scope_ids, self.events = [], [], []
        self.shielded = 0      # the program is inside ignore_cancellation / cancel_shielded_coro_yield
        self.task = None

    def now(self):
        t = self.loop.time() / TICK
        assert t == int(t), t
        return int(t)


async def _ex(n, env):
    op = n[0]
    be = env.backend
    if op == 0:
        return
    if op == 1:
        await _ex(n[1], env)
        await _ex(n[2], env)
    elif op == 2:
        env.events.append([0, n[1], env.now()])
        await be.sleep(n[2] * TICK)
        env.events.append([1, n[1], env.now()])
    elif op == 3:
        env.events.append([0, n[1], env.now()])
        await be.coro_yield()
        env.events.append([1, n[1], env.now()])
    elif op == 4:
        env.events.append([0, n[1], env.now()])
        env.shielded += 1
        try:
            await be.cancel_shielded_coro_yield()
        finally:
            env.shielded -= 1
        env.events.append([1, n[1], env.now()])
    elif op == 5:
        env.loop._vtime += n[1] * TICK
    elif op == 6:
        _, nid, kind, pre, delay, body = n
        d = delay[0] * TICK if delay else math.inf
        if kind:
            cm = be.timeout(d)
            scope = cm.scope
        else:
            cm = be.move_on_after(d) if delay else be.open_cancel_scope()
            scope = cm
        if pre:
            scope.cancel()
        cm.__enter__()
        env.scopes.append(scope)
        env.scope_ids.append(nid)
        env.events.append([0, nid, env.now()])
        exc = None
        try:
            await _ex(body, env)
        except BaseException as e:  # the with-statement protocol, spelled out to observe __exit__'s return value
            exc = e
        env.scopes.pop()
        env.scope_ids.pop()
        code = _code(exc)
        args = (None, None, None) if exc is None else (type(exc), exc, exc.__traceback__)
        try:
            r = cm.__exit__(*args)
        except TimeoutError:
            if not kind:
                raise
            env.events.append([2, nid, env.now(), scope.cancel_called(), scope.cancelled_caught(),
                               env.task.cancelling(), 1, code])
            raise
        env.events.append([2, nid, env.now(), scope.cancel_called(), scope.cancelled_caught(),
                           env.task.cancelling(), bool(r), code])
        if exc is not None and not r:
            raise exc
    elif op == 7:
        env.events.append([0, n[1], env.now()])
        env.shielded += 1
        try:
            await be.ignore_cancellation(_ex(n[2], env))
        finally:
            env.shielded -= 1
        env.events.append([1, n[1], env.now()])
    elif op == 8:
        if n[1] < len(env.scopes):
            env.scopes[-1 - n[1]].cancel()
            env.events.append([5, env.scope_ids[-1 - n[1]], env.now()])
    elif op == 9:
        if n[1] < len(env.scopes):
            env.scopes[-1 - n[1]].reschedule(env.loop.time() + n[2][0] * TICK if n[2] else math.inf)
            env.events.append([6, env.scope_ids[-1 - n[1]], env.now(), [env.now() + n[2][0]] if n[2] else []])
    elif op == 11:
        env.events.append([0, n[1], env.now()])
        fut = env.loop.create_future()
        h = env.loop.call_later(n[2] * TICK, lambda: fut.done() or fut.set_exception(RuntimeError("failing future")))
        try:
            await fut
        finally:
            h.cancel()
        env.events.append([1, n[1], env.now()])
    elif op == 10:
        cls = (asyncio.CancelledError, TimeoutError, BaseException)[min(n[2], 2)]
        try:
            await _ex(n[3], env)
        except cls as e:
            env.events.append([3, n[1], env.now(), _code(e)])
    else:
        raise ValueError(f"bad program node {n!r}")


def run_raw(inp):
    """Returns (observables, number of loop iterations, end time in ticks)."""
    from easynetwork.lowlevel.api_async.backend._asyncio.backend import AsyncIOBackend

    prog, timers, turns, K = inp[0], inp[1], inp[2], inp[3]
    loop = _Loop(K, [(t[0], bool(t[1]), t[2] if len(t) > 2 else 0) for t in turns])
    try:
        asyncio.set_event_loop(loop)
        loop.set_exception_handler(lambda _loop, _ctx: None)
        env = _Env(loop, AsyncIOBackend())
        task = loop.create_task(_ex(prog, env))
        env.task = loop.target = task
        loop.env = env
        for t in timers:
            loop.call_at(t * TICK, loop.controller)
        outcome = None
        try:
            loop.run_until_complete(task)
        except detloop.DeadlockError as e:
            outcome = 8 if "iterations" in str(e) else 9
        except BaseException:
            pass
        iters, endt = loop.iterno, loop.time() / TICK
        if outcome is None:
            outcome = 1 if task.cancelled() else _code(task.exception())
        cnt = task.cancelling()
        if not task.done():
            task.cancel()
            loop.turns = []
            try:
                loop.run_until_complete(task)
            except BaseException:
                pass
        return [env.events, outcome, cnt], iters, int(endt)
    finally:
        asyncio.set_event_loop(None)
        loop.close()


def run_impl(inp):
    return run_raw(inp)[0]


# ------------------------------------------------------------------ programs
class _Ids:
    def __init__(self):
        self.n = 0

    def __call__(self):
        self.n += 1
        return self.n


def seq(*ps):
    ps = [p for p in ps if p is not None]
    if not ps:
        return [0]
    out = ps[-1]
    for p in reversed(ps[:-1]):
        out = [1, p, out]
    return out


def features(p, acc=None, depth=0, shield=False):
    acc = acc if acc is not None else dict(nodes=0, depth=0, shield=False, catch=False, resched=False, cancel=False,
                                           pre=False, block=False, shyield=False, timeoutk=False, scope=False,
                                           fail=False)
    op = p[0]
    if op == 1:
        features(p[1], acc, depth, shield)
        features(p[2], acc, depth, shield)
        return acc
    if op != 0:
        acc["nodes"] += 1
    acc["depth"] = max(acc["depth"], depth)
    if op == 11:
        acc["fail"] = True
    elif op == 4:
        acc["shyield"] = True
    elif op == 5:
        acc["block"] = True
    elif op == 6:
        acc["scope"] = True
        acc["timeoutk"] |= bool(p[2])
        acc["pre"] |= bool(p[3])
        features(p[5], acc, depth + 1, shield)
    elif op == 7:
        acc["shield"] = True
        features(p[2], acc, depth + 1, True)
    elif op == 8:
        acc["cancel"] = True
    elif op == 9:
        acc["resched"] = True
    elif op == 10:
        acc["catch"] = True
        features(p[3], acc, depth + 1, shield)
    return acc


def gen_prog(rng, ids, budget, depth, nscopes, full, maxdepth=3):
    """Random statement list with at most `budget` nodes."""
    stmts = []
    while budget[0] > 0 and (not stmts or rng.random() < 0.62):
        budget[0] -= 1
        r = rng.random()
        if depth < maxdepth and r < 0.30:
            kind = int(rng.random() < 0.4)
            pre = int(full and rng.random() < 0.07)
            delay = [] if rng.random() < 0.12 else [rng.choice([0, 1, 1, 2, 2, 3, 4])]
            body = gen_prog(rng, ids, budget, depth + 1, nscopes + 1, full, maxdepth)
            stmts.append([6, ids(), kind, pre, delay, body])
        elif depth < maxdepth and full and r < 0.40:
            stmts.append([7, ids(), gen_prog(rng, ids, budget, depth + 1, nscopes, full, maxdepth)])
        elif depth < maxdepth and full and r < 0.47:
            stmts.append([10, ids(), rng.choice([0, 0, 1, 2]), gen_prog(rng, ids, budget, depth + 1, nscopes, full, maxdepth)])
        elif r < 0.75:
            stmts.append([2, ids(), rng.choice([0, 1, 1, 2, 2, 3, 4])])
        elif r < 0.80:
            stmts.append([3, ids()])
        elif full and r < 0.815:
            stmts.append([11, ids(), rng.choice([0, 1, 1, 2])])
        elif full and r < 0.84:
            stmts.append([4, ids()])
        elif full and r < 0.88:
            stmts.append([5, rng.choice([1, 2, 3])])
        elif nscopes and r < 0.94:
            stmts.append([8, rng.randrange(nscopes)])
        elif nscopes and full:
            stmts.append([9, rng.randrange(nscopes), [] if rng.random() < 0.15 else [rng.choice([0, 1, 2, 3])]])
        else:
            stmts.append([2, ids(), rng.choice([1, 2])])
    return seq(*stmts)


def family(full):
    """Systematic family around the tie boundaries: outer scope (kind, delay a) { [resched] inner scope (kind, delay b)
    { [shield] sleep c } ; sleep 1 } ; checkpoint"""
    out = []
    for ko in (0, 1):
        for ki in (0, 1):
            for a in (1, 2, 3):
                for b in (1, 2, 3):
                    for c in (1, 2, 3):
                        if not (a <= c + 1 or b <= c + 1):
                            continue
                        variants = [None]
                        if full:
                            variants += ["shield", "resched", "block", "catch", "cancel", "catch-again", "shyield-again"]
                        for v in variants:
                            ids = _Ids()
                            so, si, sl, s2, cp = ids(), ids(), ids(), ids(), ids()
                            inner_body = [2, sl, c]
                            pre_inner = None
                            if v == "shield":
                                inner_body = [7, ids(), inner_body]
                            elif v == "resched":
                                pre_inner = [9, 1, [b]]
                            elif v == "block":
                                pre_inner = [5, max(a, b)]
                            elif v == "catch":
                                inner_body = [10, ids(), 0, inner_body]
                            elif v == "cancel":
                                pre_inner = [8, 1]
                            elif v == "catch-again":
                                # the body survives the first CancelledError and blocks again, unshielded, in the same
                                # scope: only the re-armed __deliver_cancellation interrupts the second operation
                                inner_body = seq([10, ids(), 0, inner_body], [2, ids(), 2])
                            elif v == "shyield-again":
                                inner_body = seq(inner_body, [4, ids()], [2, ids(), 2])
                            inner = [6, si, ki, 0, [b], seq(pre_inner, inner_body)]
                            p = seq([6, so, ko, 0, [a], seq(inner, [2, s2, 1])], [3, cp])
                            out.append((p, "family" + ("-" + v if v else "")))
    return out


def family3(rng, thorough):
    """Three-deep stacks: outer(kind, deadline a | none){ middle(never cancelled){ inner(kind, deadline b | none){
    ignore_cancellation( [inner.cancel()] sleep c [outer.cancel()] [sleep c2 [outer.cancel()]] ) } ; sleep 2 } ; sleep 1 };
    coro_yield -- a cancelled outer scope must be re-armed through the uncancelled middle one; shielded sections with one
    or two blocking steps; explicit cancels and deadlines falling inside the shielded section."""
    out = []
    for ko in (0, 1):
        for ki in (0, 1):
            for a in ([], [1], [2], [3]):
                for b in ([], [1], [2]):
                    for c in (1, 2):
                        for ci in (0, 1):
                            for co in (0, 1, 2):
                                for two in (0, 1):
                                    if co == 2 and not two:
                                        continue
                                    if not a and not co:
                                        continue        # outer never cancelled
                                    if not b and not ci:
                                        continue        # inner never cancelled
                                    if not thorough and rng.random() > 0.3:
                                        continue
                                    ids = _Ids()
                                    so, sm, si, sh = ids(), ids(), ids(), ids()
                                    body = [[8, 0]] if ci else []
                                    body.append([2, ids(), c])
                                    if co == 1:
                                        body.append([8, 2])
                                    if two:
                                        body.append([2, ids(), 1])
                                        if co == 2:
                                            body.append([8, 2])
                                    inner = [6, si, ki, 0, b, [7, sh, seq(*body)]]
                                    middle = [6, sm, 0, 0, [], seq(inner, [2, ids(), 2])]
                                    p = seq([6, so, ko, 0, a, seq(middle, [2, ids(), 1])], [3, ids()])
                                    out.append((p, "family3" + ("-two-steps" if two else "")))
    return out


def family4():
    """Deadlines given from inside the body and deadlines equal to "now": a scope of every kind entered WITHOUT a
    deadline (open_cancel_scope / timeout(inf), or after reschedule(inf)) and given one by reschedule(now + d), d = 0 (a
    deadline equal to the current time), 1, 2; scopes entered exactly at their deadline (delay 0); the body then runs a
    bare checkpoint / a sleep of c ticks, and a sleep."""
    out = []
    for kind in (0, 1):
        for d in (0, 1, 2):
            for c in (0, 1, 2, 3):
                for shape in ("none-then-set", "unset-then-set", "outer-set"):
                    ids = _Ids()
                    sc = ids()
                    first = [3, ids()] if c == 0 else [2, ids(), c]
                    if shape == "none-then-set":
                        p = seq([6, sc, kind, 0, [], seq([9, 0, [d]], first, [2, ids(), 1])], [3, ids()])
                    elif shape == "unset-then-set":
                        p = seq([6, sc, kind, 0, [3], seq([9, 0, []], [9, 0, [d]], first, [2, ids(), 1])], [3, ids()])
                    else:
                        inner = ids()
                        p = seq([6, sc, kind, 0, [], seq([6, inner, 0, 0, [3], seq([9, 1, [d]], first)], [2, ids(), 1])],
                                [3, ids()])
                    out.append((p, "family4-" + shape))
        for c in (0, 1, 2):
            ids = _Ids()
            sc = ids()
            first = [3, ids()] if c == 0 else [2, ids(), c]
            out.append((seq([6, sc, kind, 0, [0], seq(first, [2, ids(), 1])], [3, ids()]), "family4-enter-at-deadline"))
            ids = _Ids()
            sc = ids()
            out.append((seq([2, ids(), 1], [6, sc, kind, 0, [0], seq([3, ids()], [3, ids()])], [3, ids()]),
                        "family4-enter-at-deadline"))
    return out


def family5():
    """An awaited future that FAILS (exception, not cancellation) inside ignore_cancellation, with a one-shot cancel from
    the controller in the same loop iteration (every iteration and queue position is tried): the cancellation swallowed
    by the shield must still be delivered at the next unshielded await."""
    out = []
    for d in (1, 2):
        for pre in (0, 1):
            for wrapk in ("catch", "scope-catch", "bare"):
                ids = _Ids()
                body = seq(*([[2, ids(), 1]] if pre else []), [11, ids(), d])
                sh = [7, ids(), body]
                if wrapk == "catch":
                    p = seq([10, ids(), 2, sh], [2, ids(), 2], [3, ids()])
                elif wrapk == "scope-catch":
                    p = seq([6, ids(), 0, 0, [5], seq([10, ids(), 2, sh], [2, ids(), 2])], [3, ids()])
                else:
                    p = seq(sh, [2, ids(), 2])
                out.append((p, "family5-" + wrapk))
    return out


def wrap(p, ids):
    """try: p except BaseException: pass; two checkpoints (exposes a cancellation still pending after the program)"""
    return seq([10, ids(), 2, p], [3, ids()], [3, ids()])


def nontrivial_of(inp, out):
    evs = out[0]
    return bool(any(e[0] == 2 and e[3] for e in evs) or any(e[0] in (3, 4, 7) for e in evs) or out[1] != 0)


def tags_of(p, inp, sched_tag, src):
    f = features(p)
    tags = [src, sched_tag, f"K{inp[3]}", f"nodes{min(f['nodes'], 9)}", f"depth{f['depth']}"]
    tags += [k for k in ("shield", "catch", "resched", "cancel", "pre", "block", "shyield", "timeoutk", "fail") if f[k]]
    return tags


def schedules(p, K, rng, exhaustive, nsample):
    base = [p, [], [], K, FUEL]
    out0, iters, endt = run_raw(base)
    yield base, "no-controller", out0
    timer_ticks = list(range(0, min(endt, 12) + 1))
    turn_pos = [(n, f) for n in range(1, min(iters, 40) + 1) for f in (1, 0)]
    if not exhaustive:
        rng.shuffle(timer_ticks)
        rng.shuffle(turn_pos)
        timer_ticks = timer_ticks[: max(1, nsample // 3)]
        turn_pos = turn_pos[: nsample - len(timer_ticks)]
    for t in timer_ticks:
        yield [p, [t], [], K, FUEL], "ctl-timer", None
    for n, f in turn_pos:
        yield [p, [], [[n, f]], K, FUEL], "ctl-turn-front" if f else "ctl-turn-back", None
    if features(p)["scope"]:
        actor_pos = [(n, f) for n in range(1, min(iters, 40) + 1) for f in (1, 0)]
        if not exhaustive:
            rng.shuffle(actor_pos)
            actor_pos = actor_pos[: max(1, nsample // 3)]
        for n, f in actor_pos:
            yield [p, [], [[n, f, 1 if exhaustive or rng.random() < 0.7 else 2]], K, FUEL], "actor-cancel", None
    if not exhaustive and rng.random() < 0.3 and iters > 2:
        a, b = sorted(rng.sample(range(1, iters + 1), 2))
        yield [p, [], [[a, rng.randrange(2)], [b, rng.randrange(2)]], K, FUEL], "ctl-two", None


def cases(tier, rng, escalate):
    thorough = tier == "thorough" or escalate
    full = True
    fam = family(full)
    if not thorough:
        # quick: every base-family member, a rotating sample of the variants
        fam = [x for x in fam if x[1] == "family" or rng.random() < 0.22]
    for p, src in fam:
        K = rng.choice([1, 2, 3, 4])
        exhaustive = thorough or src == "family" and rng.random() < 0.15
        for inp, stag, out in schedules(p, K, rng, exhaustive, 5):
            out = out if out is not None else run_impl(inp)
            yield dict(input=inp, tags=tags_of(p, inp, stag, src), nontrivial=nontrivial_of(inp, out))
    for p, src in family3(rng, thorough):
        K = rng.choice([1, 2, 3, 4])
        for inp, stag, out in schedules(p, K, rng, False, 4):
            out = out if out is not None else run_impl(inp)
            yield dict(input=inp, tags=tags_of(p, inp, stag, src), nontrivial=nontrivial_of(inp, out))
    for p, src in family4():
        K = rng.choice([1, 2, 3, 4])
        for inp, stag, out in schedules(p, K, rng, False, 3):
            out = out if out is not None else run_impl(inp)
            yield dict(input=inp, tags=tags_of(p, inp, stag, src), nontrivial=nontrivial_of(inp, out))
    for p, src in family5():
        for K in ((1, 2, 3) if thorough else (2,)):
            for inp, stag, out in schedules(p, K, rng, True, 0):
                out = out if out is not None else run_impl(inp)
                yield dict(input=inp, tags=tags_of(p, inp, stag, src), nontrivial=nontrivial_of(inp, out))
    nrand = 5000 if thorough else 900
    for i in range(nrand):
        ids = _Ids()
        simple = i % 4 == 0
        deep = i % 5 == 1
        p = gen_prog(rng, ids, [rng.choice([6, 8, 10]) if deep else rng.choice([3, 4, 5, 6, 7, 8])], 0, 0, not simple,
                     4 if deep else 3)
        if rng.random() < 0.5:
            p = wrap(p, ids)
        K = rng.choice([1, 2, 3, 4])
        for inp, stag, out in schedules(p, K, rng, thorough and i % 10 == 0, 6):
            out = out if out is not None else run_impl(inp)
            yield dict(input=inp, tags=tags_of(p, inp, stag, "random-simple" if simple else "random"),
                       nontrivial=nontrivial_of(inp, out))


# ------------------------------------------------------------------ the property, stated on the implementation
def _walk(p, path, acc):
    """acc[id] = (node, path) where path = list of enclosing nodes (outermost first)"""
    op = p[0]
    if op == 1:
        _walk(p[1], path, acc)
        _walk(p[2], path, acc)
    elif op in (2, 3, 4, 11):
        acc[p[1]] = (p, path)
    elif op == 6:
        acc[p[1]] = (p, path)
        _walk(p[5], path + [p], acc)
    elif op == 7:
        acc[p[1]] = (p, path)
        _walk(p[2], path + [p], acc)
    elif op == 10:
        acc[p[1]] = (p, path)
        _walk(p[3], path + [p], acc)


def _has(p, ops):
    if p[0] in ops:
        return True
    if p[0] == 1:
        return _has(p[1], ops) or _has(p[2], ops)
    if p[0] == 6:
        return _has(p[5], ops)
    if p[0] == 7:
        return _has(p[2], ops)
    if p[0] == 10:
        return _has(p[3], ops)
    return False


def _unshielded_blocking(p):
    if p[0] in (2, 3, 11):
        return True
    if p[0] == 1:
        return _unshielded_blocking(p[1]) or _unshielded_blocking(p[2])
    if p[0] == 6:
        return _unshielded_blocking(p[5])
    if p[0] == 10:
        return _unshielded_blocking(p[3])
    return False


def _catch_can_swallow_cancel(p):
    """some try/except CancelledError|BaseException has an await point outside every shield in its body"""
    if p[0] == 10:
        return (p[2] in (0, 2) and _unshielded_blocking(p[3])) or _catch_can_swallow_cancel(p[3])
    if p[0] == 1:
        return _catch_can_swallow_cancel(p[1]) or _catch_can_swallow_cancel(p[2])
    if p[0] == 6:
        return _catch_can_swallow_cancel(p[5])
    if p[0] == 7:
        return _catch_can_swallow_cancel(p[2])
    return False


def _has_catch_cancel(p):
    if p[0] == 10 and p[2] in (0, 2):
        return True
    if p[0] == 1:
        return _has_catch_cancel(p[1]) or _has_catch_cancel(p[2])
    if p[0] == 6:
        return _has_catch_cancel(p[5])
    if p[0] == 7:
        return _has_catch_cancel(p[2])
    if p[0] == 10:
        return _has_catch_cancel(p[3])
    return False


def oracle(inp):
    prog, timers, turns = inp[0], inp[1], inp[2]
    evs, outcome, cnt = run_impl(inp)
    nodes = {}
    _walk(prog, [], nodes)
    n_ext = len(timers) + len(turns)
    # a scope takes back only its own requests: task.cancelling() never drops below the number of controller cancels
    # that were accepted so far (nobody else calls uncancel())
    accepted = 0
    for e in evs:
        if e[0] == 4:
            accepted += 1
        elif e[0] == 2 and e[5] < accepted:
            return (f"took-back-foreign-request: after scope {e[1]} exited task.cancelling()={e[5]} although {accepted} "
                    f"controller cancel(s) had been accepted")
    if cnt < accepted:
        return f"took-back-foreign-request: task.cancelling()={cnt} at the end although {accepted} controller cancel(s) had been accepted"
    for e in evs:
        if e[0] != 2:
            continue
        _, nid, t, called, caught, cancelling, sw, exc = e
        node, path = nodes[nid]
        if sw and not called:
            return f"swallow-not-own: scope {nid} swallowed an exception although cancel() was never called on it"
        if node[2] and bool(sw) != bool(caught):
            return f"timeout-iff-caught: timeout scope {nid} raised TimeoutError={sw} but cancelled_caught()={caught}"
        if caught and not called:
            return f"caught-not-called: scope {nid}"
        outermost = not any(q[0] == 6 for q in path)
        if outermost and n_ext == 0 and cancelling != 0 and not _has(prog, (10,)):
            # the known pattern: some cancelled scope was handed something else than a CancelledError (or nothing)
            leaky = any(x[0] == 2 and x[3] and x[7] != 1 for x in evs)
            return (f"{'leftover-cancel' if leaky else 'leftover-cancel-after-cancelled-exit'}: outermost scope {nid} "
                    f"exited with task.cancelling()={cancelling} although nobody outside the scopes cancelled the task")
    # once the controller's task.cancel() was accepted, no blocking statement outside a shield completes any more
    # (programs without try/except: nothing may swallow the CancelledError but a scope that was itself cancelled)
    if not _catch_can_swallow_cancel(prog):
        no_scope_cancelled = not any(x[0] == 2 and x[3] for x in evs)
        seen_ext = False
        fresh = False      # some accepted cancel arrived outside every shield while NO active scope had cancel_called yet
        for e in evs:
            if e[0] == 4:
                seen_ext = True
                fresh = fresh or (e[2] == 0 and not e[3])
            elif seen_ext and e[0] == 1 and nodes[e[1]][0][0] in (2, 3) and not any(q[0] == 7 for q in nodes[e[1]][1]):
                swallowed = [x[1] for x in evs if x[0] == 2 and x[6]]
                kind = "lost-external-cancel" if swallowed else "lost-cancel"
                if fresh or no_scope_cancelled:
                    # not the history of the known findings (a cancel racing with / overwritten by the cancel of a scope
                    # that was ALREADY cancelled): nothing may claim a cancellation that arrived first
                    kind += "-no-scope-was-cancelled"
                return (f"{kind}: statement {e[1]} completed at tick {e[2]} after the controller's task.cancel() had "
                        f"been accepted (scopes that swallowed / raised TimeoutError: {swallowed})")
    # once ANOTHER task has called cancel() on a scope, no blocking statement inside it completes any more -- not even
    # one whose future had just been made ready (programs without shields: no postponed-cancellation window)
    if not _has(prog, (4, 7)):
        hit = set()
        for e in evs:
            if e[0] == 7:
                hit.add(e[1])
            elif e[0] == 2:
                hit.discard(e[1])
            elif e[0] == 1 and e[1] in nodes and nodes[e[1]][0][0] in (2, 3, 11):
                which = [q[1] for q in nodes[e[1]][1] if q[0] == 6 and q[1] in hit]
                if which:
                    return (f"completed-after-foreign-cancel: statement {e[1]} completed at tick {e[2]} inside scope(s) "
                            f"{which} after another task had called cancel() on them")
    # once the program called cancel() on a scope, no blocking statement inside it and outside every shield that STARTS
    # afterwards completes
    # (the unchanged code itself lets a cancelled scope fall silent when, while a foreign cancellation postponed by a
    #  shield is pending, the program's own try/except swallows that foreign CancelledError: such programs are skipped)
    swallow_in_window = _has(prog, (4, 7)) and _has_catch_cancel(prog)
    cancelled_at = {}       # scope id -> why the scope is certainly cancelled from now on
    started_after = set()
    for e in ([] if swallow_in_window else evs):
        if e[0] == 5:
            cancelled_at.setdefault(e[1], "cancel")
        elif e[0] == 6 and e[3] and e[3][0] <= e[2]:
            cancelled_at.setdefault(e[1], "expired")       # rescheduled to a deadline that is not in the future
        elif e[0] == 0 and e[1] in nodes and nodes[e[1]][0][0] == 6 and nodes[e[1]][0][4] == [0]:
            cancelled_at.setdefault(e[1], "expired")       # entered exactly at its deadline
        elif e[0] == 0 and e[1] in nodes and nodes[e[1]][0][0] in (2, 3):
            encl = [q[1] for q in nodes[e[1]][1] if q[0] == 6]
            if any(c in cancelled_at for c in encl) and not any(q[0] == 7 for q in nodes[e[1]][1]):
                started_after.add(e[1])
            else:
                started_after.discard(e[1])
        elif e[0] == 1 and e[1] in started_after:
            which = [c for c in (q[1] for q in nodes[e[1]][1] if q[0] == 6) if c in cancelled_at]
            if any(cancelled_at[c] == "cancel" for c in which):
                return (f"late-completion-after-cancel: statement {e[1]} started and completed (tick {e[2]}) inside "
                        f"scope(s) {which} after the program had called cancel() on them")
            return (f"late-completion-expired-deadline: statement {e[1]} started and completed (tick {e[2]}) inside scope(s) "
                    f"{which} that had been entered / rescheduled with a deadline not in the future")
        elif e[0] == 2:
            cancelled_at.pop(e[1], None)
    # a sleep that started when an enclosing (not shield-separated) scope's deadline had been reached, or that was
    # still running strictly after it, must not complete (programs without reschedule)
    if not swallow_in_window:
        deadline = {}       # scope id -> deadline currently in force (None = inf), following reschedule()
        at_start = {}
        for e in evs:
            if e[0] == 0 and e[1] in nodes and nodes[e[1]][0][0] == 6:
                q = nodes[e[1]][0]
                deadline[e[1]] = e[2] + q[4][0] if q[4] else None
            elif e[0] == 6:
                deadline[e[1]] = e[3][0] if e[3] else None
            elif e[0] == 2:
                deadline.pop(e[1], None)
            elif e[0] == 0 and e[1] in nodes and nodes[e[1]][0][0] == 2 and nodes[e[1]][0][2] > 0:
                path = nodes[e[1]][1]
                at_start[e[1]] = ({} if any(q[0] == 7 for q in path)
                                  else {q[1]: deadline.get(q[1]) for q in path if q[0] == 6})
            elif e[0] == 1 and e[1] in at_start:
                for sid, dl in at_start[e[1]].items():
                    if dl is not None and dl < e[2]:
                        return (f"late-completion: sleep {e[1]} completed at tick {e[2]} inside scope {sid} whose "
                                f"deadline was tick {dl}")
    return None


def signature(inp, failure):
    return failure.split(":")[0]


def shrink(inp):
    prog, timers, turns, K, fuel = inp[:5]

    def subs(p):
        op = p[0]
        if op == 1:
            yield p[1]
            yield p[2]
            for a in subs(p[1]):
                yield [1, a, p[2]]
            for b in subs(p[2]):
                yield [1, p[1], b]
        elif op == 6:
            yield p[5]
            for b in subs(p[5]):
                yield p[:5] + [b]
        elif op == 7:
            yield p[2]
            for b in subs(p[2]):
                yield [7, p[1], b]
        elif op == 10:
            yield p[3]
            for b in subs(p[3]):
                yield [10, p[1], p[2], b]
        elif op != 0:
            yield [0]

    if timers or turns:
        yield [prog, [], [], K, fuel]
    for q in subs(prog):
        yield [q, timers, turns, K, fuel]
