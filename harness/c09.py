"""C09 — TLS truncation is never reported as a clean end-of-stream."""
from __future__ import annotations

import errno
import itertools
import math
import os
import selectors
import socket
import ssl
import struct
import threading

import tlskit as K
from common import detloop, runner, sx

PROPERTY_ID = "C09"
RUN_MODULE = "Run.C09"
PROPS_FILE = "Props/C09.v"
ALLOWED_AXIOMS = []
_TLS = "src/easynetwork/lowlevel/api_async/transports/tls.py"
_SOCK = "src/easynetwork/lowlevel/api_sync/transports/socket.py"
ANCHORS = [
    (_TLS, "AsyncTLSStreamTransport.wrap"),
    (_TLS, "AsyncTLSStreamTransport.aclose"),
    (_TLS, "AsyncTLSStreamTransport.recv"),
    (_TLS, "AsyncTLSStreamTransport.recv_into"),
    (_TLS, "AsyncTLSStreamTransport.__flush_data_to_send"),
    (_TLS, "AsyncTLSStreamTransport._retry_ssl_method"),
    (_TLS, "_IncomingDataReader.readinto"),
    (_SOCK, "SSLStreamTransport.__init__"),
    (_SOCK, "SSLStreamTransport.close"),
    (_SOCK, "SSLStreamTransport.recv_noblock"),
    (_SOCK, "SSLStreamTransport.recv_noblock_into"),
    (_SOCK, "SSLStreamTransport._try_ssl_method"),
    ("src/easynetwork/lowlevel/_utils.py", "is_ssl_eof_error"),
    ("src/easynetwork/clients/tcp.py", "TCPNetworkClient"),           # whole class: __init__ has typing overloads
    ("src/easynetwork/clients/async_tcp.py", "AsyncTCPNetworkClient"),
]
RULE = ("real OpenSSL: a live in-memory TLS session (TLS 1.2 and 1.3, transport as client and as server, peer = "
        "independent stdlib ssl.SSLObject that sends data records and a close-notify) is cut after k bytes of the "
        "peer's ciphertext for k = every 16th offset plus every record boundary +-2 (thorough: every offset), then the "
        "underlying stream ends; standard_compatible in {True, False}; asynchronous transport on the deterministic "
        "loop and blocking transport over a socketpair with a relay thread; every SSL-object outcome is recorded "
        "and replayed as the model's oracle.  Scripted SSL objects: every outcome class (incl. WANT_WRITE, "
        "SSLSyscallError, stringly-typed EOF, non-SSL OSError) x every transport answer for handshake/recv/recv_into/"
        "send/close.  Non-trivial = the stream is cut before the end of the peer's close-notify, or an error outcome "
        "/ transport failure / timeout occurs.")
TRUSTED = [
    "model of tls.py/socket.py decision logic hand-written in coq/Conc/TlsPump.v, coq/Conc/TlsEof.v; except-clause "
    "tables regenerated from /repo by the fail-closed ast translator in harness/c09.py (Gen/ParamsC09.v)",
    "OpenSSL 3.0 / CPython 3.12 ssl module: only their recorded outcomes are used (oracle); the class hierarchy of "
    "the ssl exceptions and the suppress_ragged_eofs filter of ssl.SSLSocket.read are transcribed in TlsBase.v/TlsEof.v",
    "ideal record layer coq/Conc/IdealTls.v (a cut before the end of the close-notify record makes read answer "
    "SSLEOFError) — validated, not proved, by the offset sweep against real OpenSSL",
]
ASSUMPTIONS = [
    "the SSLContext does not have OP_IGNORE_UNEXPECTED_EOF set (clear by default on CPython 3.12.1; the clients clear "
    "it explicitly for ssl=True); with the option set OpenSSL itself reports a truncation as a close-notify and no "
    "transport can tell the difference",
    "bufsize > 0 for recv",
]

REPO = runner.REPO

# ------------------------------------------------------------------ params(): harness/tlsparams.py
# Every definition of Gen/ParamsC09.v is obtained by a reader of the source (tolerant to harmless refactorings) AND by
# behavioural probes on the real transports; see harness/tlsparams.py for the rules (agreement / fallback / fail closed).

def _refresh_c08_params():
    """coq/Conc/TlsPump.v (shared with C08) reads Gen/ParamsC08.v: keep it in step with the tree under test."""
    import c08
    from common import coqrun
    text = "(* REGENERATED from /repo on every run by harness/c08.py -- do not edit *)\n" + c08.params_text()
    path = os.path.join(coqrun.COQ, "Gen", "ParamsC08.v")
    with coqrun.build_lock():
        old = open(path).read() if os.path.exists(path) else None
        if old != text:
            with open(path, "w") as fh:
                fh.write(text)


def params():
    _refresh_c08_params()
    return params_text()


def params_text():
    import tlsparams
    return tlsparams.c09_text()


def extra(ctx):
    import tlsparams
    return dict(parameters_obtained_by=tlsparams.provenance())


# ------------------------------------------------------------------ running the real code

K_ASYNC, K_SYNC = 0, 1
OP_WRAP, OP_RECV, OP_RECV_INTO, OP_SEND, OP_CLOSE = range(5)
RECV_SIZE = 100
_MEMO = {}


def exc_code(exc):
    import asyncio
    if isinstance(exc, asyncio.CancelledError):
        return 12
    if isinstance(exc, TimeoutError):
        return 11
    if isinstance(exc, K.TransportSpin):
        return 13        # the code under test polls a connection which has ended (the harness transport stopped the loop)
    return K.classify(exc)


def _peer_script(codes):
    return [("unwrap",) if n == 0 else ("write", bytes([65 + (n % 26)]) * n) for n in codes]


def _make_exc(code):
    return {
        K.O_WANT_READ: lambda: ssl.SSLWantReadError(ssl.SSL_ERROR_WANT_READ, "want read"),
        K.O_WANT_WRITE: lambda: ssl.SSLWantWriteError(ssl.SSL_ERROR_WANT_WRITE, "want write"),
        K.O_ZERO_RETURN: lambda: ssl.SSLZeroReturnError(ssl.SSL_ERROR_ZERO_RETURN, "closed"),
        K.O_SSL_EOF: lambda: ssl.SSLEOFError(ssl.SSL_ERROR_EOF, "EOF occurred in violation of protocol"),
        K.O_SSL_EOF_STR: lambda: ssl.SSLError(1, "[SSL: UNEXPECTED_EOF_WHILE_READING] unexpected eof while reading"),
        K.O_SSL_SYSCALL: lambda: ssl.SSLSyscallError(ssl.SSL_ERROR_SYSCALL, "Some I/O error occurred"),
        K.O_SSL_OTHER: lambda: ssl.SSLError(1, "[SSL: BAD_RECORD_MAC] bad mac"),
        K.O_CERT: lambda: ssl.SSLCertVerificationError(1, "certificate verify failed"),
        K.O_OSERROR: lambda: ConnectionResetError(errno.ECONNRESET, "reset"),
        K.O_OTHER_EXC: lambda: KeyError("scripted"),
    }[code]()


class FakeSSLObject:
    """Scripted SSL object: every call pops (method, outcome, value, wdelta)."""

    def __init__(self, script, wbio):
        self.script = [tuple(x) for x in script]
        self.wbio = wbio
        self.context = None

    def _next(self, m, arg_buffer=None, n=0):
        if not self.script:
            raise KeyError("script exhausted")
        meth, code, val, wd = self.script.pop(0)
        if meth != m:
            raise KeyError(f"script expected method {meth}, code called {m}")
        if wd:
            self.wbio.write(b"\xee" * wd)
        if code != K.O_OK:
            raise _make_exc(code)
        return val

    def do_handshake(self):
        self._next(K.M_HANDSHAKE)

    def getpeercert(self, *a):
        return {}

    def read(self, n=1024, buffer=None):
        v = self._next(K.M_READ)
        if buffer is not None:
            memoryview(buffer)[:v] = b"p" * v
            return v
        return b"p" * v

    def write(self, data):
        return self._next(K.M_WRITE)

    def unwrap(self):
        self._next(K.M_UNWRAP)
        return None


class FakeContext:
    options = 0

    def __init__(self, script, rec):
        self.script, self.rec = script, rec

    def wrap_bio(self, read_bio, write_bio, server_side=False, server_hostname=None, session=None):
        obj = FakeSSLObject(self.script, write_bio.real)
        return K.RecSSLObject(obj, self.rec, write_bio)


class _NullPeer:
    handshaken = True
    total_out = 0
    got_close_notify = False

    def feed(self, data):
        pass

    def pump(self):
        return b""


def _events_to_case(events):
    """(answers, observations) in model encoding from the recorder log."""
    answers, obs = [], []
    for ev in events:
        k = ev[0]
        if k == "ssl":
            _, _tid, m, arg, code, val, wd = ev
            answers.append([0, m, arg, code, val, wd])
        elif k == "send":
            obs.append([0, 0, ev[2]])
        elif k == "sent":
            answers.append([1, 2, 0] if ev[2] else [1, 3, 0])
        elif k == "recv":
            obs.append([0, 1, 0])
        elif k == "rcvd":
            answers.append([1, 1, 0] if ev[2] < 0 else [1, 0, ev[2]])
        elif k == "feed":
            obs.append([0, 2, ev[2]])
        elif k == "reof":
            obs.append([0, 3, 0])
        elif k == "weof":
            obs.append([0, 4, 0])
        elif k == "close":
            obs.append([0, 5, 0])
        elif k == "cancel":
            answers.append([1, 4, 0])
        elif k == "res":
            obs.append([1, ev[2], ev[3]])
    return answers, obs


def _own_context(cfg, role_client, ver, runner_fn):
    """cfg["prior"] in (0, 1): this transport is NOT the first one created from its SSLContext: a complete session of a
    transport with standard_compatible = prior (handshake, reads until the peer's close, close) has used the same
    context object before.  Returns that context (None: the shared cached one, no history)."""
    if cfg.get("_ctx") is not None:
        return cfg["_ctx"]
    if cfg.get("prior", -1) < 0:
        return None
    mine = K.fresh_ctx(role_client, ver, bool(cfg["ign"]))
    runner_fn(dict(cfg, std=cfg["prior"], cut=None, prior=-1, _ctx=mine, plan=list(PLAN_DEFAULT), outer_scope=0))
    return mine


def run_async(cfg):
    """Run one scenario on the real AsyncTLSStreamTransport.  Returns dict(ops, answers, obs, info)."""
    from easynetwork.lowlevel.api_async.transports.tls import AsyncTLSStreamTransport

    rec = K.Recorder()
    std = bool(cfg["std"])
    fake = cfg.get("fake")
    if fake is None:
        ver, role_client = cfg["ver"], bool(cfg["client"])
        script = _peer_script(cfg["peer"])
        mine = _own_context(cfg, role_client, ver, run_async)
        if role_client:
            peer = K.Peer(K.server_ctx(ver), True, script)
            ctx = K.RecContext(mine or K.client_ctx(ver, bool(cfg["ign"])), rec)
        else:
            peer = K.Peer(K.client_ctx(ver), False, script)
            ctx = K.RecContext(mine or K.server_ctx(ver, bool(cfg["ign"])), rec)
        peer.reply_close = bool(cfg.get("reply_close", 0))
    else:
        role_client = True
        peer = _NullPeer()
        ctx = FakeContext(fake["ssl"], rec)
    ops = []
    info = {}
    received_all = bytearray()

    async def main():
        rec.name_task(0)
        frag = cfg.get("frag", 0)
        tr = K.MemTransport(rec, peer, K.new_backend(), cut=cfg.get("cut"),
                            frags=(lambda avail: frag) if frag else None,
                            recv_script=list(fake["rx"]) if fake else None,
                            send_script=list(fake["tx"]) if fake else None)
        tr.peer_silent_eof = not cfg.get("silent", 0)
        if not role_client and fake is None:
            tr.stream += peer.pump()
        info["tr"] = tr

        def res(kind, v):
            rec.log("res", 0, kind, v)

        ops.append([OP_WRAP, 0])
        try:
            with K.patched_ssl_module(rec):
                t = await AsyncTLSStreamTransport.wrap(tr, ctx, server_side=not role_client,
                                                       server_hostname="localhost" if role_client else None,
                                                       standard_compatible=std, handshake_timeout=cfg.get("hs_timeout", 60.0),
                                                       shutdown_timeout=cfg.get("sd_timeout", 30.0))
        except BaseException as exc:
            res(1, exc_code(exc))
            return
        res(0, 0)
        for step in cfg["plan"]:
            what = step[0]
            if what == OP_SEND:
                sizes = list(step[1])
                ops.append([OP_SEND, sizes])
                try:
                    if len(sizes) == 1:
                        await t.send_all(b"s" * sizes[0])
                    else:
                        await t.send_all_from_iterable([b"s" * n for n in sizes])
                    res(0, 0)
                except BaseException as exc:
                    res(1, exc_code(exc))
            elif what in (OP_RECV, OP_RECV_INTO):
                n, maxcalls = step[1], step[2]
                again = 0
                for call_no in range(maxcalls + 2):
                    if call_no >= maxcalls and not again:
                        break
                    ops.append([what, n])
                    ended = False
                    try:
                        if what == OP_RECV:
                            got = len(await t.recv(n))
                        else:
                            buf = bytearray(n)
                            got = await t.recv_into(buf)
                        res(0, got)
                        ended = got == 0
                    except BaseException as exc:
                        res(1, exc_code(exc))
                        ended = True
                    if ended:
                        # the verdict must be sticky: read again after an error / end-of-stream (live sessions only)
                        again += 1
                        if fake is not None or maxcalls <= 1 or again > 2:
                            break
            elif what == OP_CLOSE:
                ops.append([OP_CLOSE, 0])
                try:
                    if cfg.get("outer_scope"):
                        # aclose() in the clean-up of a request whose timeout scope has already expired
                        with tr.backend().move_on_after(0):
                            try:
                                await t.aclose()
                                res(0, 0)
                            except BaseException as exc:
                                res(1, exc_code(exc))
                                raise
                    else:
                        await t.aclose()
                        res(0, 0)
                except BaseException as exc:
                    res(1, exc_code(exc))
        info["t"] = t

    detloop.run(main())
    answers, obs = _events_to_case(rec.events)
    if cfg.get("outer_scope"):
        answers = [[1, 5, 0] if a[:2] == [1, 4] else a for a in answers]     # the cancellation comes from the outer scope
    tr = info["tr"]
    info.update(delivered=tr.delivered, peer_total=peer.total_out, cn_seen=bool(peer.got_close_notify),
                peer_done=bool(getattr(peer, "handshaken", False) and not getattr(peer, "script", None)),
                overlap=tr.overlap or tr.recv_overlap, rec=rec)
    return dict(ops=ops, answers=answers, obs=obs, info=info)


# ---- blocking transport

class RawSSLProxy:
    """Stands in for SSLSocket._sslobj (the C-level object) and records the raw outcome of every call."""

    def __init__(self, real, log):
        object.__setattr__(self, "_real", real)
        object.__setattr__(self, "_log", log)

    def _call(self, m, fn, *args):
        try:
            r = fn(*args)
        except BaseException as exc:
            self._log.append([m, K.classify(exc), 0])
            raise
        self._log.append([m, K.O_OK, len(r) if isinstance(r, (bytes, bytearray)) else r if isinstance(r, int) else 0])
        return r

    def do_handshake(self):
        return self._call(K.M_HANDSHAKE, self._real.do_handshake)

    def read(self, *args):
        return self._call(K.M_READ, self._real.read, *args)

    def write(self, data):
        return self._call(K.M_WRITE, self._real.write, data)

    def shutdown(self):
        return self._call(K.M_UNWRAP, self._real.shutdown)

    def __getattr__(self, name):
        return getattr(self._real, name)

    def __setattr__(self, name, value):
        setattr(self._real, name, value)


class RawRecContext:
    def __init__(self, real, log):
        self.real, self.log = real, log

    @property
    def options(self):
        return self.real.options

    @options.setter
    def options(self, value):
        self.real.options = value

    def wrap_socket(self, sock, **kw):
        self.kw = kw
        s = self.real.wrap_socket(sock, **kw)
        s._sslobj = RawSSLProxy(s._sslobj, self.log)
        return s


class FakeSSLSocket:
    """Scripted stand-in for ssl.SSLSocket (answers are what the stdlib layer would raise/return)."""

    def __init__(self, sock, script, log):
        self.sock, self.script, self.log = sock, [tuple(x) for x in script], log
        self.closed = False
        self.family, self.type = sock.family, sock.type

    def _next(self, m):
        if not self.script:
            raise KeyError("script exhausted")
        meth, code, val = self.script.pop(0)
        if meth != m:
            raise KeyError(f"script expected {meth}, called {m}")
        self.log.append([m, code, val])
        if code != K.O_OK:
            raise _make_exc(code)
        return val

    def setblocking(self, flag):
        pass

    def fileno(self):
        return -1 if self.closed else self.sock.fileno()

    def do_handshake(self):
        self._next(K.M_HANDSHAKE)

    def recv(self, n):
        return b"p" * self._next(K.M_READ)

    def recv_into(self, buffer):
        return self._next(K.M_READ)

    def send(self, data):
        return self._next(K.M_WRITE)

    def unwrap(self):
        self._next(K.M_UNWRAP)
        return self.sock

    def shutdown(self, how):
        pass

    def close(self):
        self.closed = True

    def getsockname(self):
        return ""

    getpeername = getsockname


class FakeSyncContext:
    options = 0

    def __init__(self, script, log):
        self.script, self.log = script, log

    def wrap_socket(self, sock, **kw):
        self.kw = kw
        self.sock = FakeSSLSocket(sock, self.script, self.log)
        return self.sock


class FakeSelector(selectors.BaseSelector):
    """Ready as long as the scripted socket still has answers; logs what the transport waits for."""

    def __init__(self, ctx, waits):
        self.ctx, self.waits = ctx, waits

    def register(self, fileobj, events, data=None):
        self.waits.append([0, 7 if events == selectors.EVENT_READ else 8, 0])
        self.key = selectors.SelectorKey(fileobj, fileobj, events, data)
        return self.key

    def unregister(self, fileobj):
        return self.key

    def select(self, timeout=None):
        return [(self.key, self.key.events)] if self.ctx.sock.script else []

    def get_map(self):
        return {}

    def close(self):
        pass


def run_sync(cfg):
    """Run one scenario on the real SSLStreamTransport.  Returns dict(ops, answers, obs, info)."""
    from easynetwork.lowlevel.api_sync.transports.socket import SSLStreamTransport

    std = bool(cfg["std"])
    fake = cfg.get("fake")
    log, obs, ops = [], [], []
    a, b = socket.socketpair()
    state = dict(delivered=0, err=None, peer=None)
    th = None
    if fake is None:
        ver, role_client, cut, how = cfg["ver"], bool(cfg["client"]), cfg.get("cut"), cfg.get("how", 0)
        script = _peer_script(cfg["peer"])
        mine = _own_context(cfg, role_client, ver, run_sync)
        if role_client:
            peer = K.Peer(K.server_ctx(ver), True, script)
            ctx = RawRecContext(mine or K.client_ctx(ver, bool(cfg["ign"])), log)
        else:
            peer = K.Peer(K.client_ctx(ver), False, script)
            ctx = RawRecContext(mine or K.server_ctx(ver, bool(cfg["ign"])), log)
        state["peer"] = peer
        b.settimeout(120.0)

        def relay():
            try:
                out = peer.pump()
                while True:
                    if out:
                        room = len(out) if cut is None else max(0, min(len(out), cut - state["delivered"]))
                        if room:
                            b.sendall(out[:room])
                            state["delivered"] += room
                    if cut is not None and state["delivered"] >= cut:
                        break
                    if peer.handshaken and not peer.script:
                        break
                    data = b.recv(65536)
                    if not data:
                        break
                    peer.feed(data)
                    out = peer.pump()
                if how == 0:
                    b.shutdown(socket.SHUT_WR)
                    while True:          # keep reading what the transport says while closing
                        d = b.recv(65536)
                        if not d:
                            break
                        peer.feed(d)
                        peer.pump()
                else:
                    b.setsockopt(socket.SOL_SOCKET, socket.SO_LINGER, struct.pack("ii", 1, 0))
                    b.close()
            except OSError as exc:
                state["err"] = repr(exc)

        th = threading.Thread(target=relay, daemon=True)
        th.start()
        sel_factory = None
        role = role_client
    else:
        role = True
        ctx = FakeSyncContext(fake["ssl"], log)
        sel_factory = lambda: FakeSelector(ctx, obs)  # noqa: E731

    def res(kind, v):
        obs.append([1, kind, v])

    t = None
    ops.append([OP_WRAP, 0])
    # live sockets: a generous budget (never reached unless something is really stuck, even on a loaded machine);
    # scripted socket: the selector stub never waits, so make the time budget irrelevant: an exhausted script is the
    # only "timeout" (budget <= retry_interval makes _retry give up at the first not-ready answer)
    tmo = 120.0 if fake is None else 1.0e5
    try:
        t = SSLStreamTransport(a, ctx, 1.0 if fake is None else 1.0e6, server_side=not role, server_hostname="localhost" if role else None,
                               standard_compatible=std, handshake_timeout=tmo, shutdown_timeout=tmo if fake else 30.0,
                               selector_factory=sel_factory)
        res(0, 0)
    except BaseException as exc:
        obs.append([0, 9, 0])
        res(1, exc_code(exc))
    if t is not None:
        for step in cfg["plan"]:
            what = step[0]
            if what == OP_SEND:
                ops.append([OP_SEND, [step[1][0]]])
                try:
                    res(0, t.send(b"s" * step[1][0], tmo))
                except BaseException as exc:
                    res(1, exc_code(exc))
            elif what in (OP_RECV, OP_RECV_INTO):
                n, maxcalls = step[1], step[2]
                again = 0
                for call_no in range(maxcalls + 2):
                    if call_no >= maxcalls and not again:
                        break
                    ops.append([what, n])
                    ended = False
                    try:
                        got = len(t.recv(n, tmo)) if what == OP_RECV else t.recv_into(bytearray(n), tmo)
                        res(0, got)
                        ended = got == 0
                    except BaseException as exc:
                        res(1, exc_code(exc))
                        ended = True
                    if ended:
                        again += 1
                        if fake is not None or maxcalls <= 1 or again > 2:
                            break
            elif what == OP_CLOSE:
                ops.append([OP_CLOSE, 0])
                try:
                    t.close()
                    obs.append([0, 9, 0])
                    res(0, 0)
                except BaseException as exc:
                    obs.append([0, 9, 0])
                    res(1, exc_code(exc))
        answers = list(log)
        if not t.is_closed():
            try:
                t.close()
            except BaseException:
                pass
    else:
        answers = list(log)
        a.close()
    if th is not None:
        th.join(180)
        if th.is_alive():
            state["err"] = "relay thread stuck (watchdog)"
    b.close()
    a.close()
    peer = state["peer"]
    info = dict(delivered=state["delivered"], err=state["err"], kw=getattr(ctx, "kw", {}),
                cn_seen=bool(peer and peer.got_close_notify), peer_total=peer.total_out if peer else 0,
                peer_done=bool(peer and peer.handshaken and not peer.script))
    return dict(ops=ops, answers=answers, obs=obs, info=info)


# ---- the library's own default TLS path: TCPNetworkClient(..., ssl=True) / AsyncTCPNetworkClient(..., ssl=True)

K_DEFAULT_CLIENT, K_DEFAULT_FLAG, K_DEFAULT_CLIENT_ASYNC = 2, 3, 4


class _RecDefaultContext(ssl.SSLContext):
    """What the patched ssl.create_default_context() returns: a genuine SSLContext with OP_IGNORE_UNEXPECTED_EOF SET
    (see _default_context_factory) that trusts the test certificate and records raw SSL outcomes."""

    def wrap_socket(self, sock, **kw):
        s = super().wrap_socket(sock, **kw)
        s._sslobj = RawSSLProxy(s._sslobj, self._log)
        return s


def _default_context_factory(holder, log, ver=None):
    def create_default_context(*a, **k):
        ctx = _RecDefaultContext(ssl.PROTOCOL_TLS_CLIENT)
        # CPython 3.12.1 leaves the option clear by default; interpreters/distributions whose default context has it
        # set are the reason the clients clear it, so the stand-in default context has it SET
        ctx.options |= ssl.OP_IGNORE_UNEXPECTED_EOF
        ctx.load_verify_locations(K.CERT)
        if ver is not None:
            ctx.minimum_version = ctx.maximum_version = K._VER[ver]
        ctx._log = log
        holder.append(ctx)
        return ctx
    return create_default_context


def run_default_client(cfg):
    """TCPNetworkClient(sock, protocol, ssl=True) over loopback TCP against the relayed peer, cut after k bytes."""
    from easynetwork.clients.tcp import TCPNetworkClient
    from easynetwork.protocol import StreamProtocol
    from easynetwork.serializers.line import StringLineSerializer

    std, ver, cut = bool(cfg["std"]), cfg["ver"], cfg.get("cut")
    log, holder = [], []
    lst = socket.socket()
    lst.bind(("127.0.0.1", 0))
    lst.listen(1)
    a = socket.create_connection(lst.getsockname())
    b, _ = lst.accept()
    lst.close()
    b.settimeout(120.0)
    peer = K.Peer(K.server_ctx(ver), True, [("write", b"hello\n"), ("write", b"x" * 39 + b"\n"), ("unwrap",)])
    state = dict(delivered=0, err=None)

    def relay():
        try:
            out = peer.pump()
            while True:
                if out:
                    room = len(out) if cut is None else max(0, min(len(out), cut - state["delivered"]))
                    if room:
                        b.sendall(out[:room])
                        state["delivered"] += room
                if cut is not None and state["delivered"] >= cut:
                    break
                if peer.handshaken and not peer.script:
                    break
                data = b.recv(65536)
                if not data:
                    break
                peer.feed(data)
                out = peer.pump()
            b.shutdown(socket.SHUT_WR)
            while True:
                d = b.recv(65536)
                if not d:
                    break
                peer.feed(d)
                peer.pump()
        except OSError as exc:
            state["err"] = repr(exc)

    th = threading.Thread(target=relay, daemon=True)
    th.start()
    saved = ssl.create_default_context
    ssl.create_default_context = _default_context_factory(holder, log, ver)
    first, last = None, None
    client = None
    try:
        try:
            flag = {} if cfg.get("omit") else dict(ssl_standard_compatible=std)      # omitted: the documented default (True)
            client = TCPNetworkClient(a, StreamProtocol(StringLineSerializer()), ssl=True, server_hostname="localhost",
                                      ssl_handshake_timeout=120.0, ssl_shutdown_timeout=30.0, **flag)
            first = [1, 0, 0]
        except BaseException as exc:
            cause = exc.__cause__ if isinstance(exc, ConnectionAbortedError) and isinstance(exc.__cause__, ssl.SSLError) else exc
            first = [1, 1, exc_code(cause)]
    finally:
        ssl.create_default_context = saved
    npackets = 0
    if client is not None:
        ended = 0
        for _ in range(8):
            try:
                client.recv_packet(timeout=120.0)
                npackets += 1
                continue
            except ConnectionAbortedError as exc:
                # the endpoint reports a clean end-of-stream as ECONNABORTED "(end-of-stream)"; the client converts an
                # SSL EOF error into the same class (without the suffix, the SSL error as __cause__): tell them apart
                if isinstance(exc.__cause__, ssl.SSLError):
                    last = [1, 1, exc_code(exc.__cause__)]
                else:
                    last = [1, 0, 0]
            except BaseException as exc:
                last = [1, 1, exc_code(exc)]
            ended += 1                      # the verdict must be sticky: ask twice more
            if ended > 2:
                break
    answers = list(log)
    if client is not None:
        try:
            client.close()
        except BaseException:
            pass
    else:
        a.close()
    th.join(180)
    b.close()
    # transport-level calls reconstructed from the raw log: one recv per pumped read that ended
    ops = [[OP_WRAP, 0]]
    for m, code, _v in answers:
        if m == K.M_READ and code not in (K.O_WANT_READ, K.O_WANT_WRITE, K.O_SSL_SYSCALL):
            ops.append([OP_RECV, RECV_SIZE])
    if last is None:
        last = first
    flag = int(bool(holder and holder[0].options & ssl.OP_IGNORE_UNEXPECTED_EOF))
    info = dict(delivered=state["delivered"], peer_total=peer.total_out, peer_done=bool(peer.handshaken and not peer.script),
                cn_seen=bool(peer.got_close_notify), err=state["err"], npackets=npackets)
    return dict(ops=ops, answers=answers, obs=[first, last, flag], info=info)


def run_default_client_async(cfg):
    """AsyncTCPNetworkClient(sock, protocol, backend, ssl=True) over loopback TCP against the relayed peer, cut after k
    bytes; runs on the deterministic loop with real sockets (the selector waits for the relay thread)."""
    import asyncio

    from easynetwork.clients.async_tcp import AsyncTCPNetworkClient
    from easynetwork.lowlevel.api_async.backend._asyncio.backend import AsyncIOBackend
    from easynetwork.protocol import StreamProtocol
    from easynetwork.serializers.line import StringLineSerializer

    std, ver, cut = bool(cfg["std"]), cfg["ver"], cfg.get("cut")
    rec = K.Recorder()
    holder = []
    lst = socket.socket()
    lst.bind(("127.0.0.1", 0))
    lst.listen(1)
    a = socket.create_connection(lst.getsockname())
    b, _ = lst.accept()
    lst.close()
    b.settimeout(120.0)
    peer = K.Peer(K.server_ctx(ver), True, [("write", b"hello\n"), ("write", b"x" * 39 + b"\n"), ("unwrap",)])
    state = dict(delivered=0, err=None)

    def relay():
        try:
            out = peer.pump()
            while True:
                if out:
                    room = len(out) if cut is None else max(0, min(len(out), cut - state["delivered"]))
                    if room:
                        b.sendall(out[:room])
                        state["delivered"] += room
                if cut is not None and state["delivered"] >= cut:
                    break
                if peer.handshaken and not peer.script:
                    break
                data = b.recv(65536)
                if not data:
                    break
                peer.feed(data)
                out = peer.pump()
            b.shutdown(socket.SHUT_WR)
            while True:
                d = b.recv(65536)
                if not d:
                    break
                peer.feed(d)
                peer.pump()
        except OSError as exc:
            state["err"] = repr(exc)

    th = threading.Thread(target=relay, daemon=True)
    th.start()
    res = dict(first=None, last=None, end=None)

    def unwrap_cause(exc):
        return exc.__cause__ if isinstance(exc, ConnectionAbortedError) and isinstance(exc.__cause__, ssl.SSLError) else exc

    async def main():
        rec.name_task(0)
        saved = ssl.create_default_context
        ssl.create_default_context = _default_context_factory(holder, [], ver)
        try:
            flag = {} if cfg.get("omit") else dict(ssl_standard_compatible=std)  # omitted: the documented default (True)
            client = AsyncTCPNetworkClient(a, StreamProtocol(StringLineSerializer()), AsyncIOBackend(), ssl=True,
                                           server_hostname="localhost", **flag,
                                           # no timers: the deterministic loop must WAIT (real time, bounded by
                                           # allow_block) for the relay thread instead of advancing its virtual clock
                                           ssl_handshake_timeout=math.inf, ssl_shutdown_timeout=math.inf)
        finally:
            ssl.create_default_context = saved
        try:
            with K.patched_tls_wrap(rec):
                await client.wait_connected()
            res["first"] = [1, 0, 0]
        except BaseException as exc:
            res["first"] = [1, 1, exc_code(unwrap_cause(exc))]
            res["end"] = len(rec.events)
            return
        ended = 0
        for _ in range(8):
            try:
                await client.recv_packet()
                continue
            except ConnectionAbortedError as exc:
                res["last"] = [1, 1, exc_code(exc.__cause__)] if isinstance(exc.__cause__, ssl.SSLError) else [1, 0, 0]
            except BaseException as exc:
                res["last"] = [1, 1, exc_code(exc)]
            ended += 1                      # sticky verdict: ask twice more
            if ended > 2:
                break
        res["end"] = len(rec.events)
        try:
            await client.aclose()
        except BaseException:
            pass

    try:
        with detloop.running(allow_block=120.0) as loop:
            loop.run_until_complete(main())
    except detloop.DeadlockError:
        state["err"] = "deadlock"
    th.join(180)
    for s_ in (a, b):
        try:
            s_.close()
        except OSError:
            pass
    events = rec.events[: res["end"] if res["end"] is not None else len(rec.events)]
    answers, _obs = _events_to_case(events)
    ops = [[OP_WRAP, 0]]
    for ev in events:
        if ev[0] == "ssl" and ev[2] == K.M_READ and ev[4] not in (K.O_WANT_READ, K.O_WANT_WRITE):
            ops.append([OP_RECV, ev[3]])
    # transport-level failures inside a pumped read end that read as well
    nreads = sum(1 for o in ops if o[0] == OP_RECV)
    first = res["first"] or [1, 2, 0]
    last = res["last"] or first
    flag = int(bool(holder and holder[0].options & ssl.OP_IGNORE_UNEXPECTED_EOF))
    info = dict(delivered=state["delivered"], peer_total=peer.total_out, peer_done=bool(peer.handshaken and not peer.script),
                cn_seen=bool(peer.got_close_notify), err=state["err"], nreads=nreads)
    return dict(ops=ops, answers=answers, obs=[first, last, flag], info=info)


def run_default_flag(which):
    """Is OP_IGNORE_UNEXPECTED_EOF still set on the default context after the client's constructor?"""
    from easynetwork.protocol import StreamProtocol
    from easynetwork.serializers.line import StringLineSerializer

    holder = []
    saved = ssl.create_default_context
    ssl.create_default_context = _default_context_factory(holder, [])
    a, b = socket.socket(), None
    lst = socket.socket()
    lst.bind(("127.0.0.1", 0))
    lst.listen(1)
    a = socket.create_connection(lst.getsockname())
    b, _ = lst.accept()
    lst.close()
    try:
        if which == 1:
            from easynetwork.clients.async_tcp import AsyncTCPNetworkClient
            from easynetwork.lowlevel.api_async.backend._asyncio.backend import AsyncIOBackend
            AsyncTCPNetworkClient(a, StreamProtocol(StringLineSerializer()), AsyncIOBackend(), ssl=True,
                                  server_hostname="localhost")
        else:
            b.close()       # the handshake fails at once; the context has been prepared before
            try:
                from easynetwork.clients.tcp import TCPNetworkClient
                TCPNetworkClient(a, StreamProtocol(StringLineSerializer()), ssl=True, server_hostname="localhost",
                                 ssl_handshake_timeout=2.0)
            except OSError:
                pass
    finally:
        ssl.create_default_context = saved
        for s_ in (a, b):
            try:
                s_.close()
            except OSError:
                pass
    return [int(bool(holder and holder[0].options & ssl.OP_IGNORE_UNEXPECTED_EOF))]


def _default_client_cases(thorough):
    yield dict(input=[K_DEFAULT_FLAG, 0], nontrivial=True, tags=["default-client-context", "blocking"])
    yield dict(input=[K_DEFAULT_FLAG, 1], nontrivial=True, tags=["default-client-context", "async"])
    for ver in (13, 12):
        base = dict(kind=K_DEFAULT_CLIENT, std=1, ver=ver, cut=None)
        r = run_default_client(base)
        total = r["info"]["delivered"]
        step = 8 if thorough else 64
        for cut in sorted(set(range(0, total + 1, step)) | {total - 30, total - 2, total - 1, total}):
            for std, omit in ((1, 0), (0, 0), (1, 1)):       # omit: ssl_standard_compatible not given = the documented default, True
                cfg = dict(base, std=std, cut=cut, omit=omit)
                r = run_default_client(cfg)
                inp = sx.norm([K_DEFAULT_CLIENT, std, r["ops"], r["answers"], 0, [b"client", ver, cut, omit]])
                _MEMO[sx.to_text(inp)] = sx.norm(r["obs"])
                yield dict(input=inp, nontrivial=cut < total,
                           tags=["default-client-path", "blocking", "real-openssl", f"tls1.{ver - 10}",
                                 "flag-omitted" if omit else "std" if std else "nonstd", "truncated" if cut < total else "clean-close"])
        # the same sweep through AsyncTCPNetworkClient(ssl=True)
        base = dict(kind=K_DEFAULT_CLIENT_ASYNC, std=1, ver=ver, cut=None)
        r = run_default_client_async(base)
        total = r["info"]["delivered"]
        for cut in sorted(set(range(0, total + 1, step)) | {total - 30, total - 2, total - 1, total}):
            for std, omit in ((1, 0), (0, 0), (1, 1)):
                cfg = dict(base, std=std, cut=cut, omit=omit)
                r = run_default_client_async(cfg)
                inp = sx.norm([K_DEFAULT_CLIENT_ASYNC, std, r["ops"], r["answers"], 1, [b"aclient", ver, cut, omit]])
                _MEMO[sx.to_text(inp)] = sx.norm(r["obs"])
                yield dict(input=inp, nontrivial=cut < total,
                           tags=["default-client-path", "async", "real-openssl", f"tls1.{ver - 10}",
                                 "flag-omitted" if omit else "std" if std else "nonstd", "truncated" if cut < total else "clean-close"])


# ---- recv() pending / draining in one task while another task closes the transport

K_CONCURRENT_CLOSE = 5


def run_concurrent_close(cfg):
    """Real AsyncTLSStreamTransport: a reader task loops on recv() while a second task calls aclose() (after the reader's
    `after`-th recv, or at once while the reader is parked).  The peer sends `peer` (data sizes, 0 = close_notify), the
    stream is cut after `cut` bytes; the peer answers our close_notify if reply_close.  Returns the multi-task pump
    trace (recv and unwrap calls), the per-call results and what the peer saw.
    cfg["writer"] = n > 0: instead of the reader, a task calls send_all(n bytes) while the wrapped transport is under
    back-pressure (it parks inside transport.send_all holding the send lock); the other task calls aclose() meanwhile; then
    the peer starts reading again: the peer must see the payload and THEN our close_notify."""
    import asyncio

    import c08
    from easynetwork.lowlevel.api_async.transports.tls import AsyncTLSStreamTransport

    rec = K.Recorder()
    std, ver, client = bool(cfg["std"]), cfg["ver"], bool(cfg["client"])
    script = _peer_script(cfg["peer"])
    if client:
        peer = K.Peer(K.server_ctx(ver), True, script)
        ctx = K.RecContext(K.client_ctx(ver), rec)
    else:
        peer = K.Peer(K.client_ctx(ver), False, script)
        ctx = K.RecContext(K.server_ctx(ver), rec)
    peer.reply_close = bool(cfg.get("reply_close", 1))
    peer.lazy = True
    info = dict(results={}, recvs=[], close=None, deadlock=False, closer_op=None)

    async def main():
        rec.name_task(0)
        tr = K.MemTransport(rec, peer, K.RecBackend(K.new_backend(), rec), cut=cfg.get("cut"))
        tr.peer_silent_eof = not cfg.get("silent", 1)
        info["tr"] = tr
        if not client:
            tr.stream += peer.pump()
        op = rec.begin_op(K.M_HANDSHAKE, 0, [])
        with K.patched_ssl_module(rec):
            t = await AsyncTLSStreamTransport.wrap(tr, ctx, server_side=not client,
                                                   server_hostname="localhost" if client else None,
                                                   standard_compatible=std, shutdown_timeout=30.0)
        info["results"][op] = [0, 0]
        go_close = asyncio.Event()
        wsize = cfg.get("writer", 0)

        async def writer():
            op = rec.begin_op(K.M_WRITE, 0, [wsize])
            try:
                await t.send_all(b"w" * wsize)
                info["results"][op] = [0, 0]
                info["sent_ok"] = True
            except BaseException as exc:
                info["results"][op] = [1, exc_code(exc)]

        async def reader():
            for i in range(8):
                if i == cfg["after"]:
                    go_close.set()
                    await asyncio.sleep(0)
                op = rec.begin_op(K.M_READ, RECV_SIZE, [])
                try:
                    d = await t.recv(RECV_SIZE)
                except BaseException as exc:
                    info["results"][op] = [1, exc_code(exc)]
                    info["recvs"].append([1, exc_code(exc)])
                    return
                info["results"][op] = [0, len(d)]
                info["recvs"].append([0, len(d)])
                if not d:
                    return

        async def closer():
            await go_close.wait()
            op = rec.begin_op(K.M_UNWRAP, 0, [])
            info["closer_op"] = op
            try:
                await t.aclose()
                info["close"] = [0, 0]
            except BaseException as exc:
                info["close"] = [1, exc_code(exc)]

        if wsize:
            tr.writable.clear()                       # the peer stops reading: send_all() parks, holding the send lock
            r = asyncio.ensure_future(writer())
            c = asyncio.ensure_future(closer())
            for _ in range(6):
                await asyncio.sleep(0)
            go_close.set()
            for _ in range(12):
                await asyncio.sleep(0)
            tr.writable.set()                         # ... and reads again
        else:
            r = asyncio.ensure_future(reader())
            c = asyncio.ensure_future(closer())
            if cfg["after"] >= 8:
                go_close.set()
        await asyncio.wait([r, c], timeout=200)
        info["events_end"] = len(rec.events)
        for x in (r, c):
            x.cancel()
        await asyncio.gather(r, c, return_exceptions=True)

    try:
        detloop.run(main())
    except detloop.DeadlockError:
        info["deadlock"] = True
    events = list(rec.events[: info.get("events_end", len(rec.events))])
    # the closer's pumped call is unwrap(); what aclose() does after it (write_eof x2, transport.aclose) is the op layer
    cop = info["closer_op"]
    if cop is not None:
        err_at = next((i for i, ev in enumerate(events) if ev[0] == "ssl" and ev[1] == cop and ev[4] not in (K.O_OK, K.O_WANT_READ, K.O_WANT_WRITE)), None)
        if err_at is not None:
            keep_until = err_at
            # the pump's own write_eof pair right after the error belongs to it
            j = err_at + 1
            while j < len(events) and events[j][1] == cop and events[j][0] in ("reof", "weof") and j <= err_at + 2:
                keep_until = j
                j += 1
            events = [ev for i, ev in enumerate(events) if not (i > keep_until and ev[1] == cop)]
        last = max((i for i, ev in enumerate(events) if ev[1] == cop and ev[0] in ("ssl", "acq", "sent", "rcvd", "cancel", "send", "recv")),
                   default=-1)
        if err_at is None:
            events = [ev for i, ev in enumerate(events) if not (i > last and ev[0] in ("reof", "weof", "close") and ev[1] == cop)]
        cev = [ev for ev in events if ev[1] == cop]
        if any(ev[0] == "cancel" for ev in cev):
            info["results"][cop] = [1, 12]
        else:
            ssl_ev = [ev for ev in cev if ev[0] == "ssl"]
            failed_io = [ev for ev in cev if (ev[0] == "sent" and not ev[2]) or (ev[0] == "rcvd" and ev[2] < 0)]
            if failed_io:
                info["results"][cop] = [1, 9]
            elif ssl_ev and ssl_ev[-1][4] == K.O_OK:
                info["results"][cop] = [0, ssl_ev[-1][5]]
            elif ssl_ev:
                info["results"][cop] = [1, ssl_ev[-1][4]]
    events = [ev for ev in events if ev[0] != "close"]
    # results at the level of the pumped call (what _retry_ssl_method returned / raised), for every call
    pump_results = {}
    for opid in {ev[1] for ev in events if ev[0] == "op"}:
        oev = [ev for ev in events if ev[1] == opid and ev[0] != "op"]
        ssl_ev = [ev for ev in oev if ev[0] == "ssl"]
        if any(ev[0] == "cancel" for ev in oev):
            pump_results[opid] = [1, 12]
        elif any((ev[0] == "sent" and not ev[2]) or (ev[0] == "rcvd" and ev[2] < 0) for ev in oev):
            pump_results[opid] = [1, 9]
        elif ssl_ev and ssl_ev[-1][4] == K.O_OK and opid in info["results"]:
            pump_results[opid] = [0, 0 if ssl_ev[-1][2] == K.M_WRITE else ssl_ev[-1][5]]
        elif ssl_ev and ssl_ev[-1][4] not in (K.O_OK, K.O_WANT_READ, K.O_WANT_WRITE):
            pump_results[opid] = [1, ssl_ev[-1][4]]
    labels, obs, results = c08._events_to_trace(events, pump_results)
    tr = info.get("tr")
    info.update(delivered=tr.delivered if tr else 0, peer_total=peer.total_out, cn_seen=bool(peer.got_close_notify),
                peer_done=bool(peer.handshaken and not peer.script), err=None, peer_plain=len(peer.plain_in),
                peer_error=peer.read_error)
    return dict(labels=labels, out=[obs, results], info=info)


def _concurrent_close_cases(thorough):
    import c08
    state = c08.current_flag()
    for ver in (13, 12):
        for client in (1, 0):
            for std in (1, 0):
                for after in (0, 1, 8):
                    for peer, cut_mode in (([20, 0], "none"), ([20, 0], "before-cn"), ([20], "none"), ([], "parked")):
                        if cut_mode == "parked" and after != 8:
                            continue
                        # "parked": the peer is silent, so the reader is parked inside recv_into (holding the recv lock) when
                        # the other task calls aclose(); the peer answers our close_notify with its own
                        base = dict(kind=K_CONCURRENT_CLOSE, std=std, ver=ver, client=client, peer=peer, after=after,
                                    reply_close=1, silent=1, cut=None)
                        if cut_mode == "before-cn":
                            # cut in the middle of the peer's close_notify record (the last record of its stream)
                            full = run_concurrent_close(dict(base, after=99))
                            base["cut"] = full["info"]["peer_total"] - 3
                        r = run_concurrent_close(base)
                        inp = sx.norm([K_CONCURRENT_CLOSE, std, r["labels"],
                                       [b"cclose", state, ver, client, peer, after, -1 if base["cut"] is None else base["cut"],
                                        base["silent"]]])
                        _MEMO[sx.to_text(inp)] = sx.norm(r["out"])
                        yield dict(input=inp, nontrivial=True,
                                   tags=["async", "recv-while-closing", f"tls1.{ver - 10}", "std" if std else "nonstd",
                                         f"close-after-{after}", "cut-" + cut_mode, "real-openssl"])
                # aclose() while a send_all() is parked by back-pressure (holding the send lock); the peer reads again later
                for wsize in (100, 20000):
                    base = dict(kind=K_CONCURRENT_CLOSE, std=std, ver=ver, client=client, peer=[], after=99, reply_close=1,
                                silent=1, cut=None, writer=wsize)
                    r = run_concurrent_close(base)
                    inp = sx.norm([K_CONCURRENT_CLOSE, std, r["labels"], [b"cclose", state, ver, client, [], 99, -1, 1, wsize]])
                    _MEMO[sx.to_text(inp)] = sx.norm(r["out"])
                    yield dict(input=inp, nontrivial=True,
                               tags=["async", "send-parked-while-closing", f"tls1.{ver - 10}", "std" if std else "nonstd",
                                     "real-openssl"])


# ------------------------------------------------------------------ cases

def _cfg_sx(cfg):
    """Configuration as a trailing sx field (ignored by the model; used by run_impl/oracle to re-run)."""
    fake = cfg.get("fake")
    if fake is not None:
        return [b"fake", [list(x) for x in fake["ssl"]], list(fake.get("rx", [])), list(fake.get("tx", [])),
                [list(s) for s in cfg["plan"]], int(cfg.get("hs_timeout", 60)), int(cfg.get("sd_timeout", 30))]
    return [b"real", cfg["ver"], int(cfg["client"]), -1 if cfg.get("cut") is None else cfg["cut"], int(cfg["ign"]),
            list(cfg["peer"]), [list(s) for s in cfg["plan"]], cfg.get("frag", 0), int(cfg.get("reply_close", 0)),
            int(cfg.get("silent", 0)), cfg.get("how", 0), int(cfg.get("sd_timeout", 30)), int(cfg.get("outer_scope", 0)),
            int(cfg.get("prior", -1))]


def _sx_cfg(kind, std, f):
    f = list(f)
    if f[0] == b"fake":
        return dict(kind=kind, std=std, fake=dict(ssl=[tuple(x) for x in f[1]], rx=list(f[2]), tx=list(f[3])),
                    plan=[_plan_step(s) for s in f[4]], hs_timeout=float(f[5]), sd_timeout=float(f[6]))
    return dict(kind=kind, std=std, ver=f[1], client=f[2], cut=None if f[3] < 0 else f[3], ign=f[4], peer=list(f[5]),
                plan=[_plan_step(s) for s in f[6]], frag=f[7], reply_close=f[8], silent=f[9], how=f[10],
                sd_timeout=float(f[11]) if len(f) > 11 else 30.0, outer_scope=f[12] if len(f) > 12 else 0,
                prior=f[13] if len(f) > 13 else -1)


def _plan_step(s):
    s = list(s)
    if s[0] == OP_SEND:
        return (OP_SEND, list(s[1]))
    return tuple(s)


def _build(cfg):
    """Run the scenario once on the implementation; return (input, output, info)."""
    kind, std = cfg["kind"], int(cfg["std"])
    r = run_async(cfg) if kind == K_ASYNC else run_sync(cfg)
    if kind == K_ASYNC:
        inp = [K_ASYNC, std, r["ops"], r["answers"], _cfg_sx(cfg)]
    else:
        raw = 0 if cfg.get("fake") else 1
        inp = [K_SYNC, std, r["ops"], r["answers"], raw, 1 - raw, _cfg_sx(cfg)]
    out = [r["obs"], 0]
    inp = sx.norm(inp)
    _MEMO[sx.to_text(inp)] = sx.norm(out)
    return inp, out, r["info"]


def _cclose_cfg(std, tail):
    return dict(kind=K_CONCURRENT_CLOSE, std=std, ver=tail[2], client=tail[3], peer=list(tail[4]), after=tail[5],
                cut=None if tail[6] < 0 else tail[6], reply_close=1, silent=tail[7] if len(tail) > 7 else 1,
                writer=tail[8] if len(tail) > 8 else 0)


def run_impl(inp):
    key = sx.to_text(sx.norm(inp))
    if key in _MEMO:
        return _MEMO[key]
    kind, std = inp[0], inp[1]
    if kind == K_DEFAULT_FLAG:
        return run_default_flag(inp[1])
    if kind == K_ASYNC and len(inp) >= 6 and isinstance(inp[5], int):
        if bool(inp[5]) != _unread_close_ok():
            return [777]                 # witness recorded for the other state of the fix
        cfg = _sx_cfg(kind, std, inp[4])
        r = run_async(cfg)
        return [r["obs"], 0]
    if kind == K_CONCURRENT_CLOSE:
        import c08
        tail = inp[-1]
        if tail[1] != c08.current_flag():
            return [777]
        return run_concurrent_close(_cclose_cfg(std, tail))["out"]
    if kind == K_DEFAULT_CLIENT:
        tail = inp[-1]
        return run_default_client(dict(std=std, ver=tail[1], cut=tail[2], omit=tail[3] if len(tail) > 3 else 0))["obs"]
    if kind == K_DEFAULT_CLIENT_ASYNC:
        tail = inp[-1]
        return run_default_client_async(dict(std=std, ver=tail[1], cut=tail[2], omit=tail[3] if len(tail) > 3 else 0))["obs"]
    cfg = _sx_cfg(kind, std, inp[-1])
    inp2, out, _info = _build(cfg)
    if sx.norm(inp2[3]) != sx.norm(inp[3]) and kind == K_ASYNC:
        return [out[0], 0, b"recorded SSL answers differ from this run"]
    return out


PLAN_DEFAULT = [(OP_RECV, RECV_SIZE, 12), (OP_CLOSE, 0, 0)]
PLAN_INTO = [(OP_RECV_INTO, RECV_SIZE, 12), (OP_CLOSE, 0, 0)]


def _truncated(info, cfg):
    """The peer's close-notify was not completely delivered (or the peer never sent one)."""
    return not (info["peer_done"] and info["delivered"] >= info["peer_total"] and 0 in cfg["peer"])


def _real_sweep(kind, thorough, rng):
    peers = [[5, 40, 0], [0]] if not thorough else [[5, 40, 0], [0], [300, 0]]
    for ver in (13, 12):
        for client in (1, 0):
            for peer in peers:
                base = dict(kind=kind, std=1, ver=ver, client=client, cut=None, ign=0, peer=peer, plan=PLAN_DEFAULT)
                _inp, _out, info = _build(base)
                total = info["delivered"]
                # record boundaries of the peer's stream: re-run capturing it
                stream = _capture_stream(base)
                bounds = [p for p, _t in K.record_boundaries(stream)]
                if thorough:
                    offs = set(range(0, total + 1))
                else:
                    offs = set(range(0, total + 1, 16)) | {0, 1, total - 1, total}
                    for p in bounds:
                        offs.update(q for q in range(p - 2, p + 3) if 0 <= q <= total)
                for cut in sorted(offs):
                    near = min((abs(cut - p) for p in bounds), default=99) <= 2
                    for std in (1, 0):
                        plan = PLAN_INTO if (cut % 2 and kind == K_ASYNC) or (cut % 3 == 0 and kind == K_SYNC) else PLAN_DEFAULT
                        cfg = dict(base, std=std, cut=cut, plan=plan, how=(cut // 16) % 2 if kind == K_SYNC else 0)
                        inp, _out, info = _build(cfg)
                        trunc = _truncated(info, cfg)
                        yield dict(input=inp, nontrivial=trunc,
                                   tags=["async" if kind == K_ASYNC else "blocking", f"tls1.{ver - 10}",
                                         "client" if client else "server", "std" if std else "nonstd",
                                         "truncated" if trunc else "clean-close", "near-record-boundary" if near else "mid-record",
                                         "recv_into" if plan is PLAN_INTO else "recv", "real-openssl"])
                # several transports created one after the other from ONE SSLContext with different standard_compatible settings:
                # what an earlier transport did to the caller's context must not change what a later one reports
                hist_cuts = sorted({total - 1, total} | set(sorted(bounds)[-2:]))
                for cut in (hist_cuts if thorough else hist_cuts[-3:]):
                    for prior, std in ((0, 1), (1, 1), (1, 0)):
                        cfg = dict(base, std=std, cut=cut, prior=prior)
                        inp, _out, info = _build(cfg)
                        trunc = _truncated(info, cfg)
                        yield dict(input=inp, nontrivial=trunc,
                                   tags=["async" if kind == K_ASYNC else "blocking", "shared-context-history",
                                         f"prior-{'std' if prior else 'nonstd'}", "std" if std else "nonstd",
                                         "truncated" if trunc else "clean-close", "real-openssl"])
                # OP_IGNORE_UNEXPECTED_EOF explicitly set on the context: outside the property's assumption, kept for the correspondence
                for cut in sorted(bounds)[:: 1 if thorough else 2]:
                    for std in (1, 0):
                        for c in (cut, cut - 1):
                            cfg = dict(base, std=std, cut=c, ign=1)
                            inp, _out, info = _build(cfg)
                            yield dict(input=inp, nontrivial=True,
                                       tags=["async" if kind == K_ASYNC else "blocking", "ignore-unexpected-eof-set",
                                             "real-openssl", "std" if std else "nonstd"])


_STREAMS = {}


def _capture_stream(base):
    key = (base["ver"], base["client"], tuple(base["peer"]))
    if key not in _STREAMS:
        cfg = dict(base, kind=K_ASYNC, std=1, cut=None, plan=PLAN_DEFAULT)
        script = _peer_script(cfg["peer"])
        ver = cfg["ver"]
        # run two bare SSLObjects against each other and keep the peer -> transport direction
        if cfg["client"]:
            peer = K.Peer(K.server_ctx(ver), True, script)
            me = K.Peer(K.client_ctx(ver), False, [])
        else:
            peer = K.Peer(K.client_ctx(ver), False, script)
            me = K.Peer(K.server_ctx(ver), True, [])
        stream = bytearray()
        for _ in range(20):
            out = me.pump()
            if out:
                peer.feed(out)
            back = peer.pump()
            if back:
                stream += back
                me.feed(back)
            if not out and not back:
                break
        _STREAMS[key] = bytes(stream)
    return _STREAMS[key]


_TERMINALS = [K.O_OK, K.O_ZERO_RETURN, K.O_SSL_EOF, K.O_SSL_EOF_STR, K.O_SSL_SYSCALL, K.O_SSL_OTHER, K.O_CERT,
              K.O_OSERROR, K.O_OTHER_EXC]


def _fake_async(thorough, rng):
    """Scripted SSL object under the asynchronous transport: every outcome class, every transport answer."""
    hs_ok = [(K.M_HANDSHAKE, K.O_WANT_READ, 0, 9), (K.M_HANDSHAKE, K.O_OK, 0, 4)]
    prefixes = [[], [(K.O_WANT_READ, 0)], [(K.O_WANT_READ, 5)], [(K.O_WANT_WRITE, 5)], [(K.O_WANT_WRITE, 0)],
                [(K.O_WANT_READ, 5), (K.O_WANT_READ, 0)], [(K.O_WANT_READ, 3), (K.O_WANT_WRITE, 2)]]
    rx_opts = [3, 0, -1, -2]
    tx_opts = [1, 0, -2]

    def emit(cfg, tags):
        inp, _out, _info = _build(cfg)
        return dict(input=inp, nontrivial=True, tags=["async", "scripted-ssl"] + tags)

    for method, plan_of in ((K.M_READ, None), (K.M_UNWRAP, None), (K.M_HANDSHAKE, None), (K.M_WRITE, None)):
        for pre in prefixes:
            for term in _TERMINALS:
                for std in (1, 0):
                    rx_choices = list(itertools.product(rx_opts, repeat=sum(1 for o, _ in pre if o == K.O_WANT_READ)))
                    tx_choices = list(itertools.product(tx_opts, repeat=sum(1 for o, w in pre if w or o == K.O_WANT_WRITE)))
                    combos = [(rx, tx) for rx, tx in itertools.product(rx_choices, tx_choices)
                              if (method in (K.M_HANDSHAKE, K.M_UNWRAP) or (-2 not in rx and -2 not in tx))
                              and not (0 in rx and any(x > 0 for x in rx[rx.index(0):]))]   # no data after end of stream
                    if not thorough and len(combos) > 4:
                        combos = rng.sample(combos, 4)
                    for rx, tx in combos:
                        val = 7 if (term == K.O_OK and method == K.M_READ) else 0
                        if method == K.M_WRITE and term == K.O_OK:
                            val = 6
                        body = [(method, o, 0, w) for o, w in pre] + [(method, term, val, 2 if term == K.O_OK else 0)]
                        if method == K.M_HANDSHAKE:
                            script = body
                            plan = [(OP_CLOSE, 0, 0)]
                            rxs, txs = list(rx), list(tx) + [1, 1]
                        else:
                            script = list(hs_ok)
                            rxs, txs = [4] + list(rx), [1, 1] + list(tx) + [1, 1, 1]
                            if method == K.M_READ:
                                plan = [(OP_RECV_INTO if (len(pre) + term) % 2 else OP_RECV, RECV_SIZE, 1), (OP_CLOSE, 0, 0)]
                                script += body + [(K.M_UNWRAP, K.O_OK, 0, 3)]
                            elif method == K.M_WRITE:
                                plan = [(OP_SEND, [6]), (OP_CLOSE, 0, 0)]
                                script += body + [(K.M_UNWRAP, K.O_OK, 0, 3)]
                            else:
                                plan = [(OP_CLOSE, 0, 0), (OP_CLOSE, 0, 0), (OP_SEND, [3])]
                                script += body
                        cfg = dict(kind=K_ASYNC, std=std, fake=dict(ssl=script, rx=rxs, tx=txs), plan=plan)
                        yield emit(cfg, [f"method{method}", f"terminal{term}", "std" if std else "nonstd",
                                         f"prefix{len(pre)}"])
    # write path: partial writes, several chunks
    for std in (1, 0):
        for sizes, outs in (([6], [(K.O_OK, 2), (K.O_OK, 4)]), ([3, 4], [(K.O_OK, 3), (K.O_WANT_READ, 0), (K.O_OK, 4)]),
                            ([5], [(K.O_OK, 5)]), ([5, 1, 2], [(K.O_OK, 5), (K.O_OK, 1), (K.O_ZERO_RETURN, 0)])):
            script = list(hs_ok) + [(K.M_WRITE, o, v, 11 if o == K.O_OK else 0) for o, v in outs] + [(K.M_UNWRAP, K.O_OK, 0, 3)]
            cfg = dict(kind=K_ASYNC, std=std, fake=dict(ssl=script, rx=[4, 2, 2], tx=[1] * 8),
                       plan=[(OP_SEND, sizes), (OP_CLOSE, 0, 0)])
            yield emit(cfg, ["method2", "write-backlog"])


def _fake_sync(thorough, rng):
    prefixes = [[], [K.O_WANT_READ], [K.O_WANT_WRITE], [K.O_SSL_SYSCALL], [K.O_WANT_READ, K.O_SSL_SYSCALL],
                [K.O_WANT_WRITE, K.O_WANT_READ]]
    for method in (K.M_READ, K.M_UNWRAP, K.M_HANDSHAKE, K.M_WRITE):
        for pre in prefixes:
            for term in _TERMINALS + [K.O_WANT_READ, K.O_SSL_SYSCALL, K.O_WANT_WRITE]:
                for std in (1, 0):
                    val = 7 if (term == K.O_OK and method in (K.M_READ, K.M_WRITE)) else 0
                    body = [(method, o, 0) for o in pre] + [(method, term, val)]
                    if method == K.M_HANDSHAKE:
                        script, plan = body, [(OP_CLOSE, 0, 0)]
                        if term == K.O_OK:
                            script = script + [(K.M_UNWRAP, K.O_OK, 0)]
                    elif method == K.M_READ:
                        script = [(K.M_HANDSHAKE, K.O_OK, 0)] + body
                        plan = [(OP_RECV_INTO if (len(pre) + term) % 2 else OP_RECV, RECV_SIZE, 1)]
                    elif method == K.M_WRITE:
                        script = [(K.M_HANDSHAKE, K.O_OK, 0)] + body
                        plan = [(OP_SEND, [7])]
                    else:
                        script = [(K.M_HANDSHAKE, K.O_OK, 0)] + body
                        plan = [(OP_CLOSE, 0, 0), (OP_CLOSE, 0, 0)]
                    cfg = dict(kind=K_SYNC, std=std, fake=dict(ssl=script), plan=plan)
                    inp, _out, _info = _build(cfg)
                    yield dict(input=inp, nontrivial=True,
                               tags=["blocking", "scripted-ssl", f"method{method}", f"terminal{term}",
                                     "std" if std else "nonstd", f"prefix{len(pre)}"])


def _unread_close_ok():
    """Does the tree under test send the close_notify even when unwrap() fails (unread application data)?"""
    import c08
    try:
        return "f_close_flush := true" in c08.params_text()
    except runner.TranslateError:
        return False


def _close_cases(rng):
    """Closing an open transport: close-notify first, with a peer that answers, stays silent, or just ends."""
    for ver in (13, 12):
        for client in (1, 0):
            for std in (1, 0):
                for reply, silent in ((1, 0), (0, 0), (0, 1)):
                    for pre in ([], [(OP_SEND, [10])], [(OP_SEND, [3, 4])]):
                        for first in (RECV_SIZE, 5):       # 5: part of the peer's record stays unread when we close
                            cfg = dict(kind=K_ASYNC, std=std, ver=ver, client=client, cut=None, ign=0, peer=[20],
                                       plan=[(OP_RECV, first, 1)] + pre + [(OP_CLOSE, 0, 0), (OP_CLOSE, 0, 0)],
                                       reply_close=reply, silent=silent)
                            if first == 5 and not _unread_close_ok():
                                continue        # known finding on a tree without the fix: witness lives in corpus/C09
                            inp, _out, _info = _build(cfg)
                            yield dict(input=inp, nontrivial=True,
                                       tags=["async", "close-open-transport", "std" if std else "nonstd", "real-openssl",
                                             "unread-data-at-close" if first == 5 else "all-read",
                                             "peer-replies" if reply else ("peer-silent-timeout" if silent else "peer-ends")])
                # the time budget of the closing handshake is already used up (shutdown timeout 0, or aclose() inside an
                # expired scope): the close notification is still handed to the wrapped transport before anything waits
                for sd, outer in ((0, 0), (30, 1), (0, 1)):
                    for first in (RECV_SIZE, 5):
                        if (first == 5 and (not _unread_close_ok() or outer)) or (outer and not std):
                            continue        # (outer scope + unread data: the cancellation lands inside transport.aclose(),
                                            # a point the op-layer model treats as atomic)
                        cfg = dict(kind=K_ASYNC, std=std, ver=ver, client=client, cut=None, ign=0, peer=[20],
                                   plan=[(OP_RECV, first, 1), (OP_CLOSE, 0, 0)], reply_close=0, silent=1,
                                   sd_timeout=sd, outer_scope=outer)
                        inp, _out, _info = _build(cfg)
                        yield dict(input=inp, nontrivial=True,
                                   tags=["async", "close-open-transport", "expired-scope", "std" if std else "nonstd", "real-openssl",
                                         "shutdown-timeout-0" if sd == 0 else "outer-scope-expired"])
                for pre in ([], [(OP_SEND, [10])]):
                    cfg = dict(kind=K_SYNC, std=std, ver=ver, client=client, cut=None, ign=0, peer=[20],
                               plan=[(OP_RECV, RECV_SIZE, 1)] + pre + [(OP_CLOSE, 0, 0), (OP_CLOSE, 0, 0)])
                    inp, _out, _info = _build(cfg)
                    yield dict(input=inp, nontrivial=True,
                               tags=["blocking", "close-open-transport", "std" if std else "nonstd", "real-openssl"])


def cases(tier, rng, escalate):
    thorough = tier == "thorough" or escalate
    yield from _default_client_cases(thorough)
    yield from _concurrent_close_cases(thorough)
    yield from _close_cases(rng)
    yield from _fake_async(thorough, rng)
    yield from _fake_sync(thorough, rng)
    yield from _real_sweep(K_ASYNC, thorough, rng)
    yield from _real_sweep(K_SYNC, thorough, rng)


# ------------------------------------------------------------------ the property, stated on the implementation

def oracle(inp):
    kind, std = inp[0], inp[1]
    if kind == K_ASYNC and len(inp) >= 6 and isinstance(inp[5], int):
        if bool(inp[5]) != _unread_close_ok():
            return None
        inp = list(inp[:5])
    if kind == K_DEFAULT_FLAG:
        if run_default_flag(inp[1])[0]:
            return ("default client context: OP_IGNORE_UNEXPECTED_EOF is still set after the %s client's constructor "
                    "(ssl=True), so OpenSSL hides truncations" % ("asynchronous" if inp[1] else "blocking"))
        return None
    if kind == K_CONCURRENT_CLOSE:
        cfg = _cclose_cfg(std, inp[-1])
        r = run_concurrent_close(cfg)
        info = r["info"]
        trunc = _truncated(info, cfg)
        eofs = [x for x in info["recvs"] if x == [0, 0]]
        if info["deadlock"]:
            return "recv() + aclose(): the event loop would block forever"
        if std and trunc and eofs and 0 in cfg["peer"]:
            return (f"standard-compatible: stream cut at {cfg['cut']} before the end of the peer's close-notify reported as clean "
                    "end-of-stream to a reader draining while aclose() is in progress")
        cres = info["results"].get(info["closer_op"], [0, 0]) if info["closer_op"] is not None else [0, 0]
        unwrap_failed = cres[0] == 1 and cres[1] not in (9, 12)      # unwrap() itself raised an SSL error
        reader_failed = any(x[0] == 1 and x[1] != 12 for x in info["recvs"])      # the stream was already broken: nothing to say
        if cfg.get("writer"):
            if info.get("sent_ok") and (info["peer_plain"] != cfg["writer"] or info["peer_error"] is not None):
                return ("aclose() while a send_all() was parked by back-pressure: send_all() returned but the peer did not read "
                        f"its payload ({info['peer_plain']} of {cfg['writer']} bytes)")
            if std and info["close"] == [0, 0] and info.get("sent_ok") and not info["cn_seen"] and not unwrap_failed:
                return ("standard-compatible aclose() while a send_all() was parked by back-pressure (the peer read again later): "
                        "the peer got the whole payload and then NO close-notify (our alert was never flushed: truncation at the peer)")
            return None
        if std and info["close"] == [0, 0] and not info["cn_seen"] and not reader_failed and (_unread_close_ok() or not unwrap_failed):
            return ("standard-compatible aclose() while a recv() is pending in another task did not deliver a close-notify "
                    "to the peer")
        return None
    if kind in (K_DEFAULT_CLIENT, K_DEFAULT_CLIENT_ASYNC):
        tail = inp[-1]
        cfg = dict(std=std, ver=tail[1], cut=tail[2], omit=tail[3] if len(tail) > 3 else 0)
        r = run_default_client(cfg) if kind == K_DEFAULT_CLIENT else run_default_client_async(cfg)
        info = r["info"]
        first, last, _flag = r["obs"]
        trunc = not (info["peer_done"] and info["delivered"] >= info["peer_total"])
        eof = last[1] == 0 and first[1] == 0
        if std and trunc and eof:
            return (f"default client (ssl=True), standard-compatible{' (ssl_standard_compatible not given: the default)' if cfg.get('omit') else ''}: "
                    f"stream cut at {cfg['cut']} reported as clean end-of-stream")
        if not trunc and not eof:
            return "default client (ssl=True): complete stream with close-notify did not end cleanly"
        return None
    cfg = _sx_cfg(kind, std, inp[4] if (kind == K_ASYNC and len(inp) >= 6 and isinstance(inp[5], int)) else inp[-1])
    r = run_async(cfg) if kind == K_ASYNC else run_sync(cfg)
    info, obs = r["info"], r["obs"]
    results = [o for o in obs if o[0] == 1]
    ops = r["ops"]
    recv_results = [res for op, res in zip(ops, results) if op[0] in (OP_RECV, OP_RECV_INTO)]
    if cfg.get("fake") is not None:
        # scripted SSL object: the reported result against the SSL object's final outcome of that read
        finals = _final_read_outcomes(r["answers"], kind)
        for res, fin in zip(recv_results, finals):
            eof_reported = res[1] == 0 and res[2] == 0
            eof_error = fin in (K.O_SSL_EOF, K.O_SSL_EOF_STR)
            if kind == K_SYNC:
                eof_error = fin == K.O_SSL_EOF and False   # the stdlib layer has already filtered; nothing to state
            if std and eof_error and eof_reported:
                return "standard-compatible: SSL EOF error reported as clean end-of-stream (scripted SSL object)"
            if not std and eof_error and not eof_reported and kind == K_ASYNC:
                return "non-standard mode: SSL EOF error not reported as end-of-stream (scripted SSL object)"
            if eof_reported and not (fin in (K.O_ZERO_RETURN,) or (fin == K.O_OK) or (not std and eof_error)):
                return f"end-of-stream reported after SSL outcome {fin}"
        return None
    hs_ok = results and results[0][1] == 0
    trunc = _truncated(info, cfg)
    eofs = [res for res in recv_results if res[1] == 0 and res[2] == 0]
    if any(res[1] == 1 and res[2] == 13 for res in recv_results):
        return (f"the underlying connection ended (cut at {cfg.get('cut')}) and the reader got neither an error nor end-of-stream: "
                "recv() keeps reading the ended connection in a loop which never ends")
    # ASSUMPTION of the property: the context has OP_IGNORE_UNEXPECTED_EOF cleared; with the option set OpenSSL itself
    # answers read() -> b"" at a truncation (those cases stay in the correspondence, the property is not stated on them)
    if std and trunc and eofs and not cfg.get("ign"):
        return f"standard-compatible: stream cut at {cfg.get('cut')} before the end of the close-notify reported as clean end-of-stream"
    if trunc and hs_ok and not std and recv_results and recv_results[-1][1] == 1 and recv_results[-1][2] in (4, 5):
        return f"non-standard mode: abrupt end at {cfg.get('cut')} raised an SSL EOF error instead of end-of-stream"
    if not trunc and hs_ok and recv_results and not eofs:
        return "complete stream with close-notify did not end with a clean end-of-stream"
    # closing an open transport in standard-compatible mode sends a close-notify
    clean_eof_then_close = (std and hs_ok and not trunc and recv_results and recv_results[-1][1] == 0 and recv_results[-1][2] == 0
                            and not any(r_[1] == 1 for r_ in recv_results) and any(op[0] == OP_CLOSE for op in ops)
                            and (kind == K_ASYNC or cfg.get("how", 0) == 0))
    if clean_eof_then_close:
        close_res = [res for op, res in zip(ops, results) if op[0] == OP_CLOSE]
        if close_res and close_res[0][1] == 0 and not info["cn_seen"] and info.get("err") is None:
            return ("standard-compatible close after the peer's clean close-notify did not send our own close-notify "
                    "(closing the transport must send one)")
    open_at_close = (hs_ok and cfg.get("cut") is None and not any(r_[1] == 1 or (r_[1] == 0 and r_[2] == 0) for r_ in recv_results)
                     and not any(op[0] == OP_SEND and r_[1] == 1 for op, r_ in zip(ops, results)))
    if std and open_at_close and any(op[0] == OP_CLOSE for op in ops):
        close_res = [res for op, res in zip(ops, results) if op[0] == OP_CLOSE]
        closed = close_res and (close_res[0][1] == 0 or (cfg.get("outer_scope") and close_res[0][1:] == [1, 12]))
        if closed and not info["cn_seen"] and info.get("err") is None:
            return "standard-compatible close of an open transport did not deliver a close-notify to the peer"
    return None


def _final_read_outcomes(answers, kind):
    """Final outcome of each pumped read, from the recorded SSL answers of this run (None: the pump ended otherwise)."""
    outs = []
    for a in answers:
        if kind == K_ASYNC:
            if a[0] != 0:
                continue
            m, code = a[1], a[3]
        else:
            m, code = a[0], a[1]
        if m == K.M_READ and code not in (K.O_WANT_READ, K.O_WANT_WRITE) and not (kind == K_SYNC and code == K.O_SSL_SYSCALL):
            outs.append(code)
    return outs


def signature(inp, failure):
    if failure.startswith("standard-compatible close of an open transport did not deliver a close-notify") and _has_unread_close(inp):
        return "aclose-with-unread-data-drops-close-notify"
    return _signature(inp, failure)


def _has_unread_close(inp):
    try:
        tagged = len(inp) >= 6 and isinstance(inp[5], int)
        cfg = _sx_cfg(inp[0], inp[1], inp[4] if tagged else inp[-1])
        return (inp[0] == K_ASYNC and cfg.get("fake") is None and cfg["plan"][0][0] == OP_RECV
                and cfg["plan"][0][1] < sum(n for n in cfg["peer"] if n))
    except Exception:
        return False


def _signature(inp, failure):
    return failure.split(":")[0] + ":" + failure.split(":")[1][:40] if ":" in failure else failure


def shrink(inp):
    return []
