"""C18 -- server lifecycle operations are safe in every order.

Model: coq/Conc/Lifecycle.v (labelled transition system of BaseAsyncNetworkServerImpl: is_shutdown event, run scope,
factory scope, close lock, close guard, listeners, server tasks, active-task counter; serve_forever / server_close /
shutdown split at their awaits; client attach/detach).

Correspondence (trace replay): the REAL AsyncTCPNetworkServer / AsyncUDPNetworkServer on the deterministic loop
(real loopback listeners, virtual clock) and the REAL StandaloneTCPNetworkServer / StandaloneUDPNetworkServer with one
real thread per call.  A case is a sequence of labels; after every label the system is run to quiescence and every
call's status, is_serving() and is_listening() are recorded.  Awaits inside serve_forever that belong to the
environment (listeners factory, service_init, a client's teardown) are gated by the case, which is how every
interleaving point of start-up and tear-down is reached deterministically.
"""
from __future__ import annotations

import asyncio
import contextlib
import itertools
import logging
import os
import socket
import sys
import threading
import time

from common import detloop
from common.runner import TranslateError, anchor_digest

PROPERTY_ID = "C18"
RUN_MODULE = "Run.C18"
PROPS_FILE = "Props/C18.v"
ALLOWED_AXIOMS = []
SRC = "src/easynetwork/"
ANCHORS = [
    (SRC + "servers/_base.py", "BaseAsyncNetworkServerImpl.serve_forever"),
    (SRC + "servers/_base.py", "BaseAsyncNetworkServerImpl.server_activate"),
    (SRC + "servers/_base.py", "BaseAsyncNetworkServerImpl.server_close"),
    (SRC + "servers/_base.py", "BaseAsyncNetworkServerImpl.shutdown"),
    (SRC + "servers/_base.py", "BaseAsyncNetworkServerImpl.is_serving"),
    (SRC + "servers/_base.py", "BaseAsyncNetworkServerImpl.is_listening"),
    (SRC + "servers/_base.py", "BaseAsyncNetworkServerImpl.__serve"),
    (SRC + "servers/_base.py", "BaseAsyncNetworkServerImpl.__attach_server"),
    (SRC + "servers/_base.py", "BaseAsyncNetworkServerImpl.__detach_server"),
    (SRC + "servers/_base.py", "BaseAsyncNetworkServerImpl.__init__"),
    (SRC + "servers/_base.py", "BaseStandaloneNetworkServerImpl.serve_forever"),
    (SRC + "servers/_base.py", "BaseStandaloneNetworkServerImpl.shutdown"),
    (SRC + "servers/_base.py", "BaseStandaloneNetworkServerImpl.server_close"),
    (SRC + "servers/_base.py", "BaseStandaloneNetworkServerImpl._run_sync_or_else"),
    (SRC + "servers/_base.py", "BaseStandaloneNetworkServerImpl.is_serving"),
    (SRC + "servers/standalone_tcp.py", "StandaloneTCPNetworkServer.__init__"),
    (SRC + "servers/standalone_udp.py", "StandaloneUDPNetworkServer.__init__"),
    (SRC + "servers/threads_helper.py", "NetworkServerThread"),
    (SRC + "servers/abc.py", "AbstractAsyncNetworkServer.__aexit__"),
    (SRC + "lowlevel/api_async/backend/_asyncio/threads.py", "ThreadsPortal.__aexit__"),
    (SRC + "lowlevel/api_async/backend/_asyncio/threads.py", "ThreadsPortal.run_coroutine_soon"),
    (SRC + "lowlevel/api_async/backend/_asyncio/threads.py", "ThreadsPortal.run_sync_soon"),
    (SRC + "lowlevel/api_async/servers/datagram.py", "AsyncDatagramServer.__on_client_coroutine_task_done"),
]
RULE = ("label sequences over {serve_forever, shutdown, server_close, connect a client, disconnect a client, observe} "
        "plus the release labels of the gated awaits (listeners factory, service_init, client teardown): every "
        "sequence up to length 4 (quick) / 5 (thorough) for the ungated and each single-gate configuration on the "
        "asynchronous TCP server, a sample on the UDP server and the standalone (threaded) servers, plus random "
        "sequences up to length 8. Non-trivial = a lifecycle call is issued while an earlier call is still pending, "
        "or after the server was closed, or a client is connected when a call is issued.")
TRUSTED = [
    "LTS coq/Conc/Lifecycle.v hand-written from servers/_base.py (validated by trace replay on the cases counted here)",
    "asyncio semantics (task FIFO scheduling, TaskGroup cancelling its children on exit, Event) as exercised by the "
    "deterministic loop on CPython 3.12",
    "quiescence detection of the threaded servers by sampling thread frames (harness/c18.py)",
]
ASSUMPTIONS = [
    "the first segment of a call (up to its first suspension) is atomic; thread pre-emption inside a Python statement "
    "of the standalone wrapper is not modelled (GIL granularity = the model's atomic segments)",
    "cancelled tasks eventually end and awaited environment operations eventually complete (they are labels that may "
    "fire at any time)",
    "single listener per server (host 127.0.0.1)",
]

SETTLE_ITERATIONS = 80
# AST digests (common.runner.anchor_digest) of AsyncDatagramServer.__client_coroutine / __on_client_coroutine_task_done
_DGRAM = SRC + "lowlevel/api_async/servers/datagram.py"
_UDP_RESTART_SHAPES = {
    # as found: restart of the client task from the finally clause, also when the client task was cancelled
    ("f0cabb418c1ff3ce", "79d6ee2c9003a9f0"): False,
    # meta/fixes/C18_udp_requeue_on_shutdown.diff (/repo 7007369): no restart when the client task was cancelled
    ("9934ccc4ae934877", "db6e470efadf4121"): True,
    # rework by the lead (C16 regression of the former): always restart, but the RuntimeError of start_soon() is
    # swallowed when the client task was cancelled (task_group_may_be_closed) -> serve_forever still exits cleanly
    ("ad1b645ce35888a1", "b3513aa282a8e340"): True,
}


# AST digests of BaseStandaloneNetworkServerImpl.shutdown
_BASE = SRC + "servers/_base.py"
_SHUTDOWN_SHAPES = {
    # as found: the threading.Event is waited for after the bootstrap lock is released, whether or not a portal was seen
    "3841530871b929d5": False,
    # meta/fixes/C18_shutdown_lost_wakeup.diff: one event per run, captured under the bootstrap lock
    "fc1d7f129cbd5606": True,
}


# AST digests of BaseStandaloneNetworkServerImpl._run_sync_or_else / server_close
_CLOSE_SHAPES = {
    # as found: suppress(RuntimeError) also swallows the BusyResourceError of the asynchronous server_close() (close guard
    # held during the set-up of serve_forever) and __is_closed is set whatever happened
    ("6af78529766b9251", "5e02ccf599498826"): False,
    # meta/fixes/C18_standalone_close_during_setup.diff: BusyResourceError propagates, __is_closed only set on success
    ("a9ace5c2b05a9b4b", "366afca0c975b2e4"): True,
}


def _parse(rel):
    import ast
    import os
    from common.runner import REPO
    try:
        return ast.parse(open(os.path.join(REPO, rel)).read())
    except SyntaxError as exc:
        raise TranslateError(f"{rel}: does not parse: {exc}")


def _find_def(node, *names):
    import ast
    for name in names:
        found = None
        for ch in ast.iter_child_nodes(node):
            if isinstance(ch, (ast.FunctionDef, ast.AsyncFunctionDef, ast.ClassDef)) and ch.name == name:
                found = ch
        if found is None:
            raise TranslateError(f"definition {'.'.join(names)} not found")
        node = found
    return node


def _tr_nst_run():
    """NetworkServerThread.run: `try: serve_forever(is_up_event=ev) finally: ev.set()` -> True;
    `... except BaseException: ev.set(); raise` -> False; anything else is rejected."""
    import ast
    fn = _find_def(_parse(SRC + "servers/threads_helper.py"), "NetworkServerThread", "run")
    body = [s for s in fn.body if not (isinstance(s, ast.Expr) and isinstance(s.value, ast.Constant))]
    where = "threads_helper.NetworkServerThread.run"
    if len(body) != 1 or not isinstance(body[0], ast.Try) or body[0].orelse:
        raise TranslateError(f"{where}: body is not a single try statement")
    t = body[0]
    if len(t.body) != 1 or ast.unparse(t.body[0]) != "self.__server.serve_forever(is_up_event=self.__is_up_event)":
        raise TranslateError(f"{where}: try body is not the serve_forever call")
    setter = "self.__is_up_event.set()"
    if not t.handlers and len(t.finalbody) == 1 and ast.unparse(t.finalbody[0]) == setter:
        return True
    if not t.finalbody and len(t.handlers) == 1 and t.handlers[0].type is not None \
            and ast.unparse(t.handlers[0].type) == "BaseException" and len(t.handlers[0].body) == 2 \
            and ast.unparse(t.handlers[0].body[0]) == setter and ast.unparse(t.handlers[0].body[1]) == "raise":
        return False
    raise TranslateError(f"{where}: unrecognised way of setting the is_up event")


def _callback_role(fn, expr):
    """what an exit-stack callback of the standalone serve_forever does: 'set' (event.set), 'reset' (forgets portal and
    server), 'reacquire' (takes the bootstrap lock again); identified by what it does, not by its name"""
    import ast
    src = ast.unparse(expr)
    if src.endswith(".set") and "__is_closed" not in src:
        return "set"
    if isinstance(expr, ast.Name):
        for node in ast.walk(fn):
            if isinstance(node, ast.FunctionDef) and node.name == expr.id:
                body = ast.unparse(node)
                if "__threads_portal = None" in body and "__server = None" in body:
                    return "reset"
                if "__bootstrap_lock.get()" in body and "enter_context" in body:
                    return "reacquire"
    return None


def _tr_standalone_exit_order():
    """BaseStandaloneNetworkServerImpl.serve_forever: the exit stack must unwind as
    re-acquire the bootstrap lock -> reset (portal, server) -> event.set(), i.e. be registered in the opposite order
    (the thread-level model's tear-down segment V5 is exactly that).  Fail closed otherwise."""
    import ast
    fn = _find_def(_parse(_BASE), "BaseStandaloneNetworkServerImpl", "serve_forever")
    order = []
    for node in ast.walk(fn):
        if isinstance(node, ast.Expr) and isinstance(node.value, ast.Call) and isinstance(node.value.func, ast.Attribute) \
                and node.value.func.attr == "callback" and node.value.args:
            role = _callback_role(fn, node.value.args[0])
            if role is not None:
                order.append((node.lineno, role))
    roles = [r for _l, r in sorted(order)]
    if roles != ["set", "reset", "reacquire"]:
        raise TranslateError("_base.py BaseStandaloneNetworkServerImpl.serve_forever: exit-stack callbacks are registered as "
                             f"{roles}; the tear-down must unwind as re-acquire lock -> reset portal/server -> event.set")


def _tr_lock_order():
    """Order in which standalone serve_forever / server_close take the close lock and the bootstrap lock, and whether
    serve_forever tests __is_closed under the close lock.  -> (serve_first, closed_under_lock, close_first)"""
    import ast
    fn = _find_def(_parse(_BASE), "BaseStandaloneNetworkServerImpl", "serve_forever")
    where = "_base.py BaseStandaloneNetworkServerImpl.serve_forever"
    events = []

    def visit(node):
        if isinstance(node, (ast.FunctionDef, ast.AsyncFunctionDef, ast.Lambda)) and node is not fn:
            return          # nested helpers run later (tear-down, the serving coroutine)
        if isinstance(node, ast.Call) and isinstance(node.func, ast.Attribute) and node.func.attr == "enter_context" and node.args:
            src = ast.unparse(node.args[0])
            if "__close_lock" in src:
                events.append((node.lineno, node.col_offset, "acq-close"))
            elif "__bootstrap_lock" in src:
                events.append((node.lineno, node.col_offset, "acq-boot"))
        if isinstance(node, ast.If) and any(isinstance(b, ast.Raise) for b in node.body):
            t = ast.unparse(node.test)
            if "__is_closed" in t:
                events.append((node.lineno, node.col_offset, "chk-closed"))
            elif "__is_shutdown" in t:
                events.append((node.lineno, node.col_offset, "chk-running"))
        for ch in ast.iter_child_nodes(node):
            visit(ch)

    visit(fn)
    seq = [e for _l, _c, e in sorted(events)]
    if sorted(seq) != ["acq-boot", "acq-close", "chk-closed", "chk-running"]:
        raise TranslateError(f"{where}: expected one acquisition of each lock and one test of each flag, found {seq}")
    if seq.index("chk-running") < seq.index("acq-boot"):
        raise TranslateError(f"{where}: the 'already running' test is not made under the bootstrap lock")
    serve_first = "LClose" if seq.index("acq-close") < seq.index("acq-boot") else "LBoot"
    closed_under_lock = seq.index("chk-closed") > seq.index("acq-close")
    # server_close: outermost with = close lock, the bootstrap lock is taken by _run_sync_or_else inside it
    sc = _find_def(_parse(_BASE), "BaseStandaloneNetworkServerImpl", "server_close")
    rs = _find_def(_parse(_BASE), "BaseStandaloneNetworkServerImpl", "_run_sync_or_else")
    withs = [n for n in sc.body if isinstance(n, ast.With)]
    if len(withs) != 1 or "__close_lock" not in ast.unparse(withs[0].items[0].context_expr):
        raise TranslateError("_base.py BaseStandaloneNetworkServerImpl.server_close: does not start by taking the close lock")
    inner = ast.unparse(withs[0])
    if "_run_sync_or" not in inner or "__bootstrap_lock" in inner:
        raise TranslateError("_base.py BaseStandaloneNetworkServerImpl.server_close: unexpected use of the locks")
    rw = [n for n in rs.body if isinstance(n, ast.With)]
    if len(rw) != 1 or "__bootstrap_lock" not in ast.unparse(rw[0].items[0].context_expr):
        raise TranslateError("_base.py BaseStandaloneNetworkServerImpl._run_sync_or_else: does not run under the bootstrap lock")
    return serve_first, closed_under_lock, "LClose"


def _probe(case, what):
    """behavioural extraction: run the REAL code on a witness scenario (used when a function has an unknown shape)"""
    try:
        return run_impl(case)
    except Exception as exc:
        raise TranslateError(f"behavioural probe for {what} failed: {exc.__class__.__name__}: {exc}")


def params():
    """coq/Gen/ParamsC18.v.  Every parameter is read from the AST when the shape is known; when a function has been
    rewritten into an unknown shape its behaviour on the witness scenario of that parameter is observed on the REAL code
    instead (each of these scenarios is also an oracle-checked corpus case, and a theorem depends on the parameter where
    its wrong value breaks the property)."""
    notes = []
    key = (anchor_digest(_DGRAM, "AsyncDatagramServer.__client_coroutine"),
           anchor_digest(_DGRAM, "AsyncDatagramServer.__on_client_coroutine_task_done"))
    if key in _UDP_RESTART_SHAPES:
        udp_guarded = _UDP_RESTART_SHAPES[key]
    else:
        obs = _probe([1, [0, 0, 0], [0, 9, 1]], "udp_restart_guarded")
        udp_guarded = obs[-1][0][0] == 1
        notes.append(f"udp_restart_guarded: behavioural (unknown shape {key}): serve, queued datagram, shutdown -> {obs[-1][0]}")
    key2 = anchor_digest(_BASE, "BaseStandaloneNetworkServerImpl.shutdown")
    if key2 in _SHUTDOWN_SHAPES:
        shutdown_guarded = _SHUTDOWN_SHAPES[key2]
    else:
        obs = _probe([2, [0, 0, 0], [10, 0, 11]], "standalone_shutdown_guarded")
        shutdown_guarded = obs[-1][0][0] == 1
        notes.append(f"standalone_shutdown_guarded: behavioural (unknown shape {key2}): pre-empted shutdown, serve, resume -> {obs[-1][0]}")
    try:
        nst = _tr_nst_run()
    except TranslateError as exc:
        obs = _probe([2, [0, 1, 0], [12, 1]], "nst_sets_up_in_finally")
        nst = obs[-1][0][0] == 1
        notes.append(f"nst_sets_up_in_finally: behavioural ({exc}): start with set-up held, shutdown -> {obs[-1][0]}")
    try:
        _tr_standalone_exit_order()
    except TranslateError as exc:
        obs = _probe([2, [0, 0, 1], [0, 1]], "the tear-down order of the standalone serve_forever")
        if obs[-1][0] != [0, 0]:
            raise TranslateError(f"{exc}; and behaviourally shutdown() returns before the serving thread has reset its state: {obs[-1][0]}")
        notes.append(f"tear-down order: behavioural ({exc})")
    key3 = (anchor_digest(_BASE, "BaseStandaloneNetworkServerImpl._run_sync_or_else"),
            anchor_digest(_BASE, "BaseStandaloneNetworkServerImpl.server_close"))
    if key3 in _CLOSE_SHAPES:
        close_busy = _CLOSE_SHAPES[key3]
    else:
        obs = _probe([2, [0, 1, 0], [0, 2, 7]], "standalone_close_propagates_busy")
        close_busy = obs[1][0][1] == 4
        notes.append(f"standalone_close_propagates_busy: behavioural (unknown shape {key3}): serve held in set-up, close -> {obs[1][0]}")
    # lock order of the standalone wrapper: AST + three witness scenarios on the REAL server (pause gates of the driver):
    #  [14,16] serve_forever held before its 2nd lock acquisition: is_serving() (bootstrap lock) parked <-> it took LBoot first
    #  [15,16] server_close held before its 2nd lock acquisition: likewise for server_close
    #  [13,2,16] serve_forever held before its 1st acquisition, server_close completes, release: ServerClosedError <-> the
    #            closed test is made after the close lock has been taken
    def lock_witnesses():
        o1 = _probe([2, [0, 0, 0], [14, 16]], "serve_first_lock")
        o2 = _probe([2, [0, 0, 0], [15, 16]], "close_first_lock")
        o3 = _probe([2, [0, 0, 0], [13, 2, 16]], "serve_closed_check_under_lock")
        return ("LBoot" if o1[0][1] == 2 else "LClose", o3[-1][0][0] == 3, "LBoot" if o2[0][1] == 2 else "LClose"), (o1, o2, o3)

    try:
        serve_first, closed_under_lock, close_first = _tr_lock_order()
    except TranslateError as exc:
        (serve_first, closed_under_lock, close_first), obs = lock_witnesses()
        notes.append(f"serve_first_lock / serve_closed_check_under_lock / close_first_lock: behavioural ({exc}): {obs}")
    else:
        got, obs = lock_witnesses()
        if got != (serve_first, closed_under_lock, close_first):
            raise TranslateError("_base.py BaseStandaloneNetworkServerImpl: the source reads as lock order "
                                 f"{(serve_first, closed_under_lock, close_first)}, the witness scenarios on the real server "
                                 f"give {got}: {obs}")
    # the parameters read from known shapes must agree with their witness scenario on the real code as well
    overrides = {}
    for name, value, case, read in (
            ("udp_restart_guarded", udp_guarded, [1, [0, 0, 0], [0, 9, 1]], lambda o: o[-1][0][0] == 1),
            ("standalone_shutdown_guarded", shutdown_guarded, [2, [0, 0, 0], [10, 0, 11]], lambda o: o[-1][0][0] == 1),
            ("nst_sets_up_in_finally", nst, [2, [0, 1, 0], [12, 1]], lambda o: o[-1][0][0] == 1),
            ("standalone_close_propagates_busy", close_busy, [2, [0, 1, 0], [0, 2, 7]], lambda o: o[1][0][1] == 4)):
        if any(n.startswith(name + ":") for n in notes):
            continue                      # already behavioural
        o = _probe(case, name)
        if read(o) != value:
            if name == "nst_sets_up_in_finally":
                raise TranslateError(f"{name}: the source reads as {value}, the witness scenario {case} on the real code gives {o}")
            # a digest table only knows the shape of ONE function; the behaviour of the scenario also depends on the code
            # around it: the real code decides, the model follows it (and the cases / known-findings entry then speak)
            notes.append(f"{name}: the digest table says {value} for this shape, but the witness scenario {case} on the real "
                         f"code gives {o}: behavioural value {read(o)} used")
            overrides[name] = read(o)
    udp_guarded = overrides.get("udp_restart_guarded", udp_guarded)
    shutdown_guarded = overrides.get("standalone_shutdown_guarded", shutdown_guarded)
    close_busy = overrides.get("standalone_close_propagates_busy", close_busy)

    def b(x):
        return "true" if x else "false"

    return ("".join("(* " + n.replace("(*", "( *").replace("*)", "* )") + " *)\n" for n in notes)
            + "(* threads_helper.py NetworkServerThread.run: is_up_event.set() in a finally clause (else: only on an exception) *)\n"
            f"Definition nst_sets_up_in_finally : bool := {b(nst)}.\n"
            "(* datagram.py: is the restart of a client task skipped when that task was cancelled (server tear-down)? *)\n"
            f"Definition udp_restart_guarded : bool := {b(udp_guarded)}.\n"
            "(* _base.py standalone shutdown(): does it wait for the event of the run it saw under the bootstrap lock? *)\n"
            f"Definition standalone_shutdown_guarded : bool := {b(shutdown_guarded)}.\n"
            "(* _base.py standalone server_close(): does the BusyResourceError of the close guard reach the caller (and leave "
            "__is_closed unset)? *)\n"
            f"Definition standalone_close_propagates_busy : bool := {b(close_busy)}.\n"
            "(* _base.py standalone: order in which serve_forever / server_close take the close lock and the bootstrap lock;\n"
            "   is the __is_closed test of serve_forever made under the close lock? *)\n"
            "Inductive lockid := LClose | LBoot.\n"
            f"Definition serve_first_lock : lockid := {serve_first}.\n"
            f"Definition serve_closed_check_under_lock : bool := {b(closed_under_lock)}.\n"
            f"Definition close_first_lock : lockid := {close_first}.\n")


L_SERVE, L_SHUTDOWN, L_CLOSE, L_CONNECT, L_DISCONNECT, L_OBSERVE, L_REL_FACTORY, L_REL_INIT, L_REL_CLIENT, L_UDPQ = range(10)
L_PRE_SHUTDOWN, L_RESUME, L_NST_START = 10, 11, 12
L_SERVE_P1, L_SERVE_P2, L_CLOSE_P2, L_REL_PAUSE = 13, 14, 15, 16
L_FACTORY_FAIL, L_API_INSIDE, L_REL_QUIT = 17, 18, 19
L_CLOSE_CANCELLED, L_SHUTDOWN_CANCELLED = 20, 21     # async worlds: the caller is cancelled at the call's first checkpoint
L_ACTIVATE = 22                                      # async worlds: a bare server_activate() from its own task
# async worlds, 100 + 10 a + b (a, b in 0 serve / 1 shutdown / 2 close): two tasks issue call a and call b back to back, so
# that b starts while a sits at its first checkpoint; two status slots, one observation after both
L_PAIRS = tuple(100 + 10 * a + b for a in (0, 1, 2) for b in (0, 1, 2))
# async worlds, 30 + k: a lone server_activate() from its own task and, k loop iterations into it, server_close() (the REAL
# listeners factory runs unless the factory gate is set); two status slots (activation: "over" whatever its outcome; close)
L_RACES = tuple(range(30, 50))
CALLS = (L_SERVE, L_SHUTDOWN, L_CLOSE, L_PRE_SHUTDOWN, L_SERVE_P1, L_SERVE_P2, L_CLOSE_P2, L_CLOSE_CANCELLED, L_SHUTDOWN_CANCELLED,
         L_ACTIVATE) + L_PAIRS + L_RACES


def _port_bound(kind, addr):
    """Is a listener socket of the server still bound to addr?  Probed from outside by trying to bind there:
    TCP: a probe with SO_REUSEADDR fails with EADDRINUSE iff a LISTENING socket exists (TIME_WAIT remnants of accepted
    connections do not matter); UDP: a plain probe fails iff the server's socket is still open."""
    if addr is None:
        return 0
    udp = kind in (1, 3)
    s = socket.socket(socket.AF_INET, socket.SOCK_DGRAM if udp else socket.SOCK_STREAM)
    try:
        if not udp:
            s.setsockopt(socket.SOL_SOCKET, socket.SO_REUSEADDR, 1)
        s.bind(addr)
        return 0
    except OSError:
        return 1
    finally:
        s.close()


def _status(fut_exc, done):
    """canonical status of a call: 0 pending, 1 returned, 2 ServerAlreadyRunning, 3 ServerClosedError,
    4 BusyResourceError, 5 crashed with the task-group-is-shutting-down group, 6 cancelled, 9 anything else"""
    from easynetwork.exceptions import BusyResourceError, ServerAlreadyRunning, ServerClosedError
    if not done:
        return 0
    exc = fut_exc
    if exc is None:
        return 1
    if isinstance(exc, ServerAlreadyRunning):
        return 2
    if isinstance(exc, ServerClosedError):
        return 3
    if isinstance(exc, BusyResourceError):
        return 4
    if isinstance(exc, BaseExceptionGroup):
        def leaves(e):
            if isinstance(e, BaseExceptionGroup):
                for x in e.exceptions:
                    yield from leaves(x)
            else:
                yield e
        if all(isinstance(e, RuntimeError) and "shutting down" in str(e) for e in leaves(exc)):
            return 5
    if isinstance(exc, (asyncio.CancelledError,)):
        return 6
    if type(exc) is OSError:
        return 7            # the error of the (scripted) listeners factory
    if isinstance(exc, ScriptedTeardownError) or (isinstance(exc, BaseExceptionGroup) and all(
            isinstance(e, ScriptedTeardownError) for e in _leaves(exc))):
        return 10           # the scripted failure of the service's tear-down (standalone worlds with init gate value 2)
    return 9


class ScriptedTeardownError(Exception):
    """raised by a callback that service_init() pushed on the server's exit stack (a tear-down that FAILS)"""


def _leaves(e):
    if isinstance(e, BaseExceptionGroup):
        for x in e.exceptions:
            yield from _leaves(x)
    else:
        yield e


# ----------------------------------------------------------------------------------------------------------------
# asynchronous servers on the deterministic loop
# ----------------------------------------------------------------------------------------------------------------
class _AsyncWorld:
    """One persistent deterministic loop; a fresh server per case."""

    def __init__(self):
        self.loop = detloop.DetLoop()
        self.loop.set_exception_handler(lambda loop, ctx: None)
        self.cases = 0
        for quiet in ("easynetwork", "asyncio", "c18"):
            lg = logging.getLogger(quiet)
            if not lg.handlers:
                lg.addHandler(logging.NullHandler())
            lg.propagate = False

    def run(self, inp):
        asyncio.set_event_loop(self.loop)
        try:
            return self.loop.run_until_complete(asyncio.wait_for(self._case(inp), 3600))
        finally:
            asyncio.set_event_loop(None)

    async def _settle(self):
        # A fixed number of loop iterations (each polls the real sockets with a zero timeout).  A virtual-time sleep
        # cannot be used: while serve_forever waits for its children inside a cancelled run scope, CancelScope
        # re-delivers the cancellation with call_soon on every iteration, so the loop is never idle.
        self.loop.steps = 0
        for _ in range(SETTLE_ITERATIONS):
            await asyncio.sleep(0)

    async def _until(self, cond):
        """Let the loop run until an expected event of the real sockets has been seen by the server (loopback delivery is
        normally synchronous with the sender, but this does not rely on it); bounded generously, never by a short timeout."""
        deadline = time.monotonic() + WATCHDOG
        spins = 0
        while not cond():
            await asyncio.sleep(0)
            spins += 1
            if spins > 200:
                if time.monotonic() > deadline:
                    raise HarnessUnsettled("an expected socket event never reached the server")
                time.sleep(0.0005)

    async def _case(self, inp):
        from easynetwork.protocol import DatagramProtocol, StreamProtocol
        from easynetwork.serializers.line import StringLineSerializer
        from easynetwork.servers.handlers import AsyncDatagramRequestHandler, AsyncStreamRequestHandler
        self.cases += 1
        kind, labels = inp[0], inp[2]
        gf, gi, gc = inp[1][:3]
        gq = inp[1][3] if len(inp[1]) > 3 else 0
        gate_f, gate_i, gate_c, gate_q = asyncio.Event(), asyncio.Event(), asyncio.Event(), asyncio.Event()
        for g, on in ((gate_f, gf), (gate_i, gi), (gate_c, gc), (gate_q, gq)):
            if not on:
                g.set()
        factory_error = []

        async def service_setup(exit_stack, server):
            async def service_quit():
                # a service whose tear-down takes time; it runs in the serve_forever task inside the cancelled run scope,
                # so it has to be shielded like any real clean-up that awaits
                await server.backend().ignore_cancellation(gate_q.wait())
            exit_stack.push_async_callback(service_quit)
            await gate_i.wait()
        never = asyncio.Event()
        connected = []

        class SH(AsyncStreamRequestHandler):
            async def service_init(self, exit_stack, server):
                await service_setup(exit_stack, server)

            async def on_connection(self, client):
                connected.append(client)

            async def handle(self, client):
                try:
                    req = yield
                except asyncio.CancelledError:
                    await gate_c.wait()      # a client whose teardown takes time (the task group waits for it)
                    raise
                await client.send_packet("re:" + req)

        class DH(AsyncDatagramRequestHandler):
            async def service_init(self, exit_stack, server):
                await service_setup(exit_stack, server)

            async def handle(self, client):
                req = yield
                if req == "busy":
                    busy_seen.append(1)
                    await never.wait()
                await client.send_packet("re:" + req)

        busy_seen = []
        logger = logging.getLogger("c18")
        if kind == 0:
            from easynetwork.servers.async_tcp import AsyncTCPNetworkServer
            srv = AsyncTCPNetworkServer("127.0.0.1", 0, StreamProtocol(StringLineSerializer()), SH(), logger=logger)
            attr = "_AsyncTCPNetworkServer__listeners_factory"
        else:
            from easynetwork.servers.async_udp import AsyncUDPNetworkServer
            srv = AsyncUDPNetworkServer("127.0.0.1", 0, DatagramProtocol(StringLineSerializer()), DH(), logger=logger)
            attr = "_AsyncUDPNetworkServer__listeners_factory"
        orig_factory = getattr(srv, attr)

        async def gated_factory():
            await gate_f.wait()
            if factory_error:
                import errno
                raise OSError(errno.EADDRINUSE, "scripted listener factory: address already in use")
            return await orig_factory()

        setattr(srv, attr, gated_factory)

        calls, clients, obs = [], [], []
        cancelled_calls = set()
        over_either_way = set()

        class ReturnedWhileListening(Exception):
            pass

        async def closing():
            # server_close(), observed at the instant it returns: the listeners must be closed THEN (status 8 otherwise),
            # not only once everything has come to rest
            await srv.server_close()
            if srv.is_listening():
                raise ReturnedWhileListening
        addr = None
        try:
            for lab in labels:
                if lab == L_SERVE:
                    calls.append(asyncio.ensure_future(srv.serve_forever()))
                elif lab == L_SHUTDOWN:
                    calls.append(asyncio.ensure_future(srv.shutdown()))
                elif lab == L_CLOSE:
                    calls.append(asyncio.ensure_future(closing()))
                elif lab == L_ACTIVATE:
                    calls.append(asyncio.ensure_future(srv.server_activate()))
                elif lab in L_RACES:
                    a = asyncio.ensure_future(srv.server_activate())
                    for _ in range(lab - 30):
                        await asyncio.sleep(0)
                    over_either_way.add(len(calls))
                    calls.append(a)
                    calls.append(asyncio.ensure_future(closing()))
                elif lab in L_PAIRS:
                    for which in ((lab - 100) // 10, (lab - 100) % 10):
                        calls.append(asyncio.ensure_future((srv.serve_forever, srv.shutdown, closing)[which]()))
                elif lab in (L_CLOSE_CANCELLED, L_SHUTDOWN_CANCELLED):
                    # the call runs up to its first checkpoint, then its caller is cancelled there (task.cancel())
                    t = asyncio.ensure_future(srv.server_close() if lab == L_CLOSE_CANCELLED else srv.shutdown())
                    await asyncio.sleep(0)
                    t.cancel()
                    cancelled_calls.add(len(calls))
                    calls.append(t)
                elif lab == L_CONNECT and kind == 0:
                    if srv.is_serving():
                        a = srv.get_addresses()[0]
                        n_before = len(connected)
                        clients.append(await asyncio.open_connection(a.host, a.port))
                        await self._until(lambda: len(connected) > n_before)     # explicit condition: on_connection ran
                elif lab == L_DISCONNECT and kind == 0:
                    if clients:
                        r, w = clients.pop()
                        w.close()
                elif lab == L_UDPQ and kind == 1:
                    if srv.is_serving():
                        a = srv.get_addresses()[0]
                        s = socket.socket(socket.AF_INET, socket.SOCK_DGRAM)
                        s.setblocking(False)
                        s.sendto(b"busy", (a.host, a.port))
                        await self._until(lambda: busy_seen)                     # explicit condition: the handler has it
                        await self._settle()
                        s.sendto(b"queued", (a.host, a.port))
                        clients.append((None, s))
                elif lab == L_REL_FACTORY:
                    gate_f.set()
                elif lab == L_REL_INIT:
                    gate_i.set()
                elif lab == L_REL_CLIENT:
                    gate_c.set()
                elif lab == L_REL_QUIT:
                    gate_q.set()
                elif lab == L_FACTORY_FAIL:
                    factory_error.append(1)
                    gate_f.set()
                await self._settle()
                del factory_error[:]
                if gq:
                    gate_q.clear()
                # gates are one-shot per release label
                if gf:
                    gate_f.clear()
                if gi:
                    gate_i.clear()
                if gc:
                    gate_c.clear()
                st = []
                for ci_, c in enumerate(calls):
                    if not c.done():
                        st.append(0)
                    elif c.cancelled():
                        st.append(1 if ci_ in cancelled_calls else 6)     # cancelled by the harness: the call is over
                    elif isinstance(c.exception(), ReturnedWhileListening):
                        st.append(8)
                    else:
                        code = _status(c.exception(), True)
                        st.append(1 if ci_ in over_either_way and code == 3 else code)
                if srv.is_listening():
                    a = srv.get_addresses()
                    if a:
                        addr = (a[0].host, a[0].port)
                obs.append([st, int(srv.is_serving()), int(srv.is_listening()), _port_bound(kind, addr)])
        finally:
            gate_f.set(), gate_i.set(), gate_c.set(), gate_q.set(), never.set()
            for _r, w in clients:
                with contextlib.suppress(Exception):
                    w.close()
            with contextlib.suppress(BaseException):
                await asyncio.wait_for(srv.shutdown(), 5)
            with contextlib.suppress(BaseException):
                await asyncio.wait_for(srv.server_close(), 5)
            for c in calls:
                c.cancel()
            with contextlib.suppress(BaseException):
                await asyncio.wait_for(asyncio.gather(*calls, return_exceptions=True), 5)
            await self._settle()
        return obs


_async_world = None


def _run_async(inp):
    global _async_world
    if _async_world is None or _async_world.cases >= 400:
        if _async_world is not None:
            with contextlib.suppress(BaseException):
                _async_world.loop.close()
        _async_world = _AsyncWorld()
    try:
        return _async_world.run(inp)
    except BaseException:
        _async_world = None
        raise


def run_impl(inp):
    import warnings
    sys.unraisablehook = lambda *a: None
    with warnings.catch_warnings():
        warnings.simplefilter("ignore")
        if inp[0] in (0, 1):
            return _run_async(inp)
        try:
            return _run_standalone(inp)
        except HarnessUnsettled:
            return _run_standalone(inp)      # retried once; a second failure is reported as a harness problem


# ----------------------------------------------------------------------------------------------------------------
# standalone (threaded) servers: one real thread per call, quiescence by sampling, a watchdog on everything
# ----------------------------------------------------------------------------------------------------------------
WATCHDOG = 90.0         # real seconds: upper bound for the system to come to rest (only reached on livelock / overload)
GATE_WAIT = 3600.0      # harness gates are opened by the harness itself; this bound is never meant to expire


class HarnessUnsettled(RuntimeError):
    """the threads of a case never came to rest within WATCHDOG: a harness problem, not an observation"""


class _Call:
    def __init__(self, fn, name):
        self.exc = None
        self.done = threading.Event()
        self.thread = threading.Thread(target=self._run, args=(fn,), name=name, daemon=True)
        self.thread.start()

    def _run(self, fn):
        try:
            fn()
        except BaseException as exc:  # noqa: BLE001 - the class is the observable
            self.exc = exc
        finally:
            self.done.set()

    def status(self):
        return _status(self.exc, self.done.is_set())


def _kernel_view(me):
    """(tid -> (state, voluntary switches, involuntary switches)) for every OTHER task of this process.

    Load independent: a thread that is parked on a lock / event / future / select is in state S and its context-switch
    counters do not move; a thread that is runnable (even if it gets no CPU for a long time) is in state R; a thread
    that was woken and went back to sleep (e.g. it found the GIL taken) has its voluntary counter incremented.  Every
    wake-up in this driver is issued by another thread of the process or by loopback I/O performed by one, i.e. it is
    synchronous with the waker; so "all S, no counter moved between two looks" means nothing is in flight."""
    view = {}
    try:
        tids = os.listdir("/proc/self/task")
    except OSError:
        return None
    for tid in tids:
        if int(tid) == me:
            continue
        try:
            with open(f"/proc/self/task/{tid}/status") as fh:
                txt = fh.read()
        except OSError:
            continue            # the task has just ended
        state = vol = nonvol = None
        for line in txt.splitlines():
            if line.startswith("State:"):
                state = line.split()[1]
            elif line.startswith("voluntary_ctxt_switches:"):
                vol = line.split()[1]
            elif line.startswith("nonvoluntary_ctxt_switches:"):
                nonvol = line.split()[1]
        view[tid] = (state, vol, nonvol)
    return view


def _quiesce(_threads=None):
    """Wait until the whole process (except the calling harness thread) is at rest: every task parked in the kernel and
    nothing having moved between consecutive looks, and no Python frame having advanced.  The criterion does not depend
    on how fast threads get the CPU; the pauses between looks only let them run.  Raises HarnessUnsettled if that never
    happens within WATCHDOG (livelock or a machine too loaded to make any progress)."""
    me = threading.get_native_id()
    my_ident = threading.get_ident()
    deadline = time.monotonic() + WATCHDOG
    same, last, pause = 0, None, 0.001
    while time.monotonic() < deadline:
        time.sleep(pause)                       # releases the GIL: lets every runnable thread go on
        pause = min(pause * 1.5, 0.02)
        view = _kernel_view(me)
        if view is None or any(v[0] != "S" for v in view.values()):
            same, last, pause = 0, None, 0.001
            continue
        frames = tuple(sorted((ident, id(f), f.f_lasti) for ident, f in sys._current_frames().items() if ident != my_ident))
        snap = (tuple(sorted(view.items())), frames)
        if snap == last:
            same += 1
            if same >= 2:
                return True
        else:
            same, last = 0, snap
    raise HarnessUnsettled("the threads of the case did not come to rest")


def _query(fn, blocked):
    """Run a query of the server (is_serving / get_addresses) in its own thread and let everything come to rest:
    its result, or `blocked` if the query itself is parked (e.g. on the bootstrap lock) -- no timeout involved."""
    box = []
    t = threading.Thread(target=lambda: box.append(fn()), name="c18-query", daemon=True)
    t.start()
    _quiesce()
    return box[0] if box else blocked


def _with_watchdog(fn, default):
    return _query(fn, default)


def _loop_threads(before):
    return [t for t in threading.enumerate() if t not in before and t is not threading.current_thread()]


def _run_standalone(inp):
    from easynetwork.protocol import DatagramProtocol, StreamProtocol
    from easynetwork.serializers.line import StringLineSerializer
    from easynetwork.servers.handlers import AsyncDatagramRequestHandler, AsyncStreamRequestHandler
    kind, _gates, labels = inp[0], inp[1], inp[2]
    never = threading.Event()
    gate_init, gate_teardown = _gates[1] == 1, bool(_gates[2])
    failing_teardown = _gates[1] == 2       # world dimension: the service's tear-down fails (a callback of service_init raises)

    def raise_at_teardown():
        raise ScriptedTeardownError("scripted: the service's tear-down fails")
    init_waiters = []          # (loop, asyncio.Event) of a service_init() held back in the serving thread's loop
    init_lock = threading.Lock()

    async def held_service_init():
        if gate_init:
            ev = asyncio.Event()
            with init_lock:
                init_waiters.append((asyncio.get_running_loop(), ev))
            await ev.wait()

    def release_service_init():
        with init_lock:
            waiters, init_waiters[:] = list(init_waiters), []
        for loop, ev in waiters:
            with contextlib.suppress(RuntimeError):
                loop.call_soon_threadsafe(ev.set)

    srv_ref = []

    def api_from_inside():
        # lifecycle queries issued by a request handler, i.e. from INSIDE the server thread
        srv_ref[0].is_serving()
        srv_ref[0].get_addresses()

    class SH(AsyncStreamRequestHandler):
        async def service_init(self, exit_stack, server):
            if failing_teardown:
                exit_stack.callback(raise_at_teardown)
            await held_service_init()

        async def handle(self, client):
            req = yield
            if req == "api":
                api_from_inside()
            await client.send_packet("re:" + req)

    class DH(AsyncDatagramRequestHandler):
        async def service_init(self, exit_stack, server):
            if failing_teardown:
                exit_stack.callback(raise_at_teardown)
            await held_service_init()

        async def handle(self, client):
            req = yield
            if req == "busy":
                await asyncio.Event().wait()
            if req == "api":
                api_from_inside()
            await client.send_packet("re:" + req)

    logger = logging.getLogger("c18")
    for quiet in ("easynetwork", "asyncio", "c18"):
        lg = logging.getLogger(quiet)
        if not lg.handlers:
            lg.addHandler(logging.NullHandler())
        lg.propagate = False
    # pre-emption point of shutdown(): every threading.Event the wrapper creates gets a gate in front of wait(), active
    # for the thread of label 10 only (works whether the event is created once or once per run)
    resume = threading.Event()
    from easynetwork.servers import _base as _base_mod
    real_threading = _base_mod._threading
    if L_PRE_SHUTDOWN in labels:
        class GatedEvent(threading.Event):
            def wait(self, timeout=None):
                if threading.current_thread().name.startswith("c18-pshutdown"):
                    resume.wait(GATE_WAIT)
                return super().wait(timeout)

        class _Shim:
            Event = GatedEvent

            def __getattr__(self, name):
                return getattr(real_threading, name)

        _base_mod._threading = _Shim()
    if kind == 2:
        from easynetwork.servers.standalone_tcp import StandaloneTCPNetworkServer
        srv = StandaloneTCPNetworkServer("127.0.0.1", 0, StreamProtocol(StringLineSerializer()), SH(), logger=logger)
    else:
        from easynetwork.servers.standalone_udp import StandaloneUDPNetworkServer
        srv = StandaloneUDPNetworkServer("127.0.0.1", 0, DatagramProtocol(StringLineSerializer()), DH(), logger=logger)
    srv_ref.append(srv)
    # Both locks of the wrapper are replaced (ForkSafeLock's own lock_factory) by re-entrant locks with two kinds of gate:
    #  * tear-down gate: the serving thread is held back right before it RE-acquires the bootstrap lock at the end of
    #    serve_forever (its second acquisition of that lock), i.e. between two callbacks of its exit stack;
    #  * pause gate: a call whose thread is named "...-p<k>-..." is held back right before its k-th lock acquisition
    #    (counted over both locks), i.e. between any two lock acquisitions of serve_forever / server_close.
    teardown_gate = threading.Event()
    pause_gate = threading.Event()
    pause_labels = (L_SERVE_P1, L_SERVE_P2, L_CLOSE_P2)
    if gate_teardown or L_PRE_SHUTDOWN in labels or any(lab in pause_labels for lab in labels):
        from easynetwork.lowlevel._lock import ForkSafeLock
        acquisitions = {}                 # thread name -> lock acquisitions so far, over both locks

        class GatedRLock:
            def __init__(self, is_bootstrap):
                self._lock = threading.RLock()
                self._is_bootstrap = is_bootstrap
                self._count = {}
                self._depth = {}

            def acquire(self, *a, **kw):
                t = threading.current_thread()
                k = acquisitions.get(t.name, 0) + 1
                if f"-p{k}-" in t.name:
                    pause_gate.wait(GATE_WAIT)
                acquisitions[t.name] = k
                if self._is_bootstrap and t.name.startswith("c18-pshutdown"):
                    self._depth[t.name] = self._depth.get(t.name, 0) + 1
                if gate_teardown and self._is_bootstrap and t.name.startswith("c18-serve"):
                    self._count[t.name] = self._count.get(t.name, 0) + 1
                    if self._count[t.name] == 2:
                        teardown_gate.wait(GATE_WAIT)
                return self._lock.acquire(*a, **kw)

            def release(self):
                r = self._lock.release()
                # pre-emption point of shutdown() (label 10): right after it has released the bootstrap lock, i.e. before
                # anything it does outside the lock (reading the event attribute, waiting for the event)
                t = threading.current_thread()
                if self._is_bootstrap and t.name.startswith("c18-pshutdown"):
                    self._depth[t.name] = self._depth.get(t.name, 1) - 1
                    if self._depth[t.name] == 0:
                        resume.wait(GATE_WAIT)
                return r

            def __enter__(self):
                self.acquire()
                return self

            def __exit__(self, *exc):
                self.release()

        setattr(srv, "_BaseStandaloneNetworkServerImpl__bootstrap_lock", ForkSafeLock(lambda: GatedRLock(True)))
        setattr(srv, "_BaseStandaloneNetworkServerImpl__close_lock", ForkSafeLock(lambda: GatedRLock(False)))
    # exceptions ending a NetworkServerThread are only visible through threading.excepthook
    thread_excs = {}
    old_excepthook = threading.excepthook
    threading.excepthook = lambda args: thread_excs.__setitem__(args.thread.name if args.thread else "?", args.exc_value)

    class _ThreadStatus:
        """status slot of the serve_forever call made by a NetworkServerThread"""

        def __init__(self, thread):
            self.thread = thread

        def status(self):
            if self.thread.is_alive() or self.thread.ident is None:
                return 0
            return _status(thread_excs.get(self.thread.name), True)

    # start-up window gate: the server factory is called by the serving thread while it holds the close lock and the
    # bootstrap lock (they are released only once the portal exists)
    gated = bool(_gates[0])
    window_gate = threading.Event()
    in_window = threading.Event()
    if gated:
        attr = "_BaseStandaloneNetworkServerImpl__server_factory"
        orig_factory = getattr(srv, attr)

        def gated_factory(backend):
            in_window.set()
            window_gate.wait(GATE_WAIT)
            window_gate.clear()
            in_window.clear()
            return orig_factory(backend)

        setattr(srv, attr, gated_factory)
    before = set(threading.enumerate())
    calls, clients, obs = [], [], []
    addr = None
    try:
        for n, lab in enumerate(labels):
            if lab == L_SERVE:
                calls.append(_Call(srv.serve_forever, f"c18-serve-{n}"))
            elif lab == L_SHUTDOWN:
                calls.append(_Call(srv.shutdown, f"c18-shutdown-{n}"))
            elif lab == L_CLOSE:
                calls.append(_Call(srv.server_close, f"c18-close-{n}"))
            elif lab == L_CONNECT and kind == 2:
                if _with_watchdog(srv.is_serving, False):
                    a = _with_watchdog(srv.get_addresses, ())
                    if a:
                        clients.append(socket.create_connection((a[0].host, a[0].port), timeout=WATCHDOG))
            elif lab == L_DISCONNECT and kind == 2:
                if clients:
                    clients.pop().close()
            elif lab == L_UDPQ and kind == 3:
                if _with_watchdog(srv.is_serving, False):
                    a = _with_watchdog(srv.get_addresses, ())
                    if a:
                        s = socket.socket(socket.AF_INET, socket.SOCK_DGRAM)
                        s.sendto(b"busy", (a[0].host, a[0].port))
                        _quiesce()
                        s.sendto(b"queued", (a[0].host, a[0].port))
                        clients.append(s)
            elif lab == L_API_INSIDE:
                a = _query(lambda: srv.get_addresses() if srv.is_serving() else (), None)
                if a:
                    if kind == 2:
                        with socket.create_connection((a[0].host, a[0].port), timeout=WATCHDOG) as c:
                            c.sendall(b"api\n")
                            c.recv(100)
                    else:
                        with socket.socket(socket.AF_INET, socket.SOCK_DGRAM) as c:
                            c.settimeout(WATCHDOG)
                            c.sendto(b"api", (a[0].host, a[0].port))
                            c.recv(100)
            elif lab == L_REL_FACTORY:
                window_gate.set()
            elif lab == L_REL_INIT:
                release_service_init()
            elif lab == L_REL_CLIENT:
                teardown_gate.set()
            elif lab == L_NST_START:
                from easynetwork.servers.threads_helper import NetworkServerThread
                nst = NetworkServerThread(srv, name=f"c18-serve-nst-{n}", daemon=True)
                calls.append(_Call(nst.start, f"c18-start-{n}"))
                calls.append(_ThreadStatus(nst))
            elif lab == L_PRE_SHUTDOWN:
                calls.append(_Call(srv.shutdown, f"c18-pshutdown-{n}"))
            elif lab == L_SERVE_P1:
                calls.append(_Call(srv.serve_forever, f"c18-serve-p1-{n}"))
            elif lab == L_SERVE_P2:
                calls.append(_Call(srv.serve_forever, f"c18-serve-p2-{n}"))
            elif lab == L_CLOSE_P2:
                calls.append(_Call(srv.server_close, f"c18-close-p2-{n}"))
            elif lab == L_REL_PAUSE:
                pause_gate.set()
            elif lab == L_RESUME:
                resume.set()
            _quiesce()
            if lab == L_REL_CLIENT:
                teardown_gate.clear()      # one-shot: a release with nobody at the gate is not remembered
            if lab == L_REL_PAUSE:
                pause_gate.clear()
            if in_window.is_set():
                serving = listening = 0        # is_serving() would block on the bootstrap lock: that is the window
            else:
                def both():
                    sv = int(srv.is_serving())
                    ad = srv.get_addresses()
                    return sv, ad
                res = _query(both, None)
                if res is None:
                    serving = listening = 2    # the query itself is parked
                else:
                    serving, listening = res[0], int(len(res[1]) > 0)
                    if res[1]:
                        addr = (res[1][0].host, res[1][0].port)
            # the queries above run in the loop thread: everything is at rest again when _query returns
            obs.append([[c.status() for c in calls], serving, listening, _port_bound(kind, addr)])
    finally:
        never.set()
        resume.set()
        pause_gate.set()
        _base_mod._threading = real_threading
        window_gate.set()
        gate_init = False
        release_service_init()
        teardown_gate.set()
        if gated:
            setattr(srv, attr, orig_factory)
        for c in clients:
            with contextlib.suppress(Exception):
                c.close()
        # tear down whatever is left: every gate is open; shutdown and server_close run in their own threads and the
        # process is left to come to rest (threads parked for good by a real deadlock stay behind as daemons)
        def _quietly(fn):
            with contextlib.suppress(BaseException):
                fn()

        for fn in (srv.shutdown, srv.server_close):
            threading.Thread(target=_quietly, args=(fn,), name="c18-cleanup", daemon=True).start()
            with contextlib.suppress(HarnessUnsettled):
                _quiesce()
        teardown_gate.set()
        release_service_init()
        with contextlib.suppress(HarnessUnsettled):
            _quiesce()
        threading.excepthook = old_excepthook
    return obs


# ----------------------------------------------------------------------------------------------------------------
# cases
# ----------------------------------------------------------------------------------------------------------------
def _nontrivial(labels):
    seen_serve = False
    for i, lab in enumerate(labels):
        if seen_serve and lab in (L_SERVE, L_SHUTDOWN, L_CLOSE, L_CONNECT, L_UDPQ, L_NST_START):
            return True
        if lab in (L_SERVE, L_NST_START):
            seen_serve = True
        if lab == L_CLOSE and any(x in CALLS for x in labels[i + 1:]):
            return True
    return False


def _mk(kind, gates, labels, extra=()):
    tags = [("async-tcp", "async-udp", "standalone-tcp", "standalone-udp")[kind], f"len{min(len(labels), 8)}",
            "gates" + "".join(map(str, gates))] + list(extra)
    if L_API_INSIDE in labels:
        tags.append("has-api-inside")
    for name, lab in (("serve", 0), ("shutdown", 1), ("close", 2), ("connect", 3), ("udp-queued", 9), ("server-thread", 12)):
        if lab in labels:
            tags.append("has-" + name)
    return dict(input=[kind, list(gates), list(labels)], tags=tags, nontrivial=_nontrivial(labels))


def cases(tier, rng, escalate):
    """quick: the threaded cases of the UDP flavour are thinned out (one in three of the gate families: the wrapper under
    test is the same class as for TCP); thorough / escalated: everything"""
    thorough = tier == "thorough" or escalate
    thin = {"between-locks", "setup-held", "startup-window", "teardown-window"}
    n = 0
    for c in _cases(tier, rng, escalate):
        if not thorough and c["input"][0] == 3 and thin & set(c["tags"]) and "refused-close" not in c["tags"]:
            n += 1
            if n % 3:
                continue
        yield c


def _cases(tier, rng, escalate):
    thorough = tier == "thorough" or escalate
    maxlen = 5 if thorough else 4
    base = [L_SERVE, L_SHUTDOWN, L_CLOSE, L_CONNECT, L_DISCONNECT]
    # asynchronous TCP server, ungated: every sequence
    for n in range(1, maxlen + 1):
        for seq in itertools.product(base, repeat=n):
            yield _mk(0, (0, 0, 0), seq, ["exhaustive"])
    # one gate at a time: the release label joins the alphabet; sequences must contain a serve_forever
    for gates, rel in (((1, 0, 0), L_REL_FACTORY), ((0, 1, 0), L_REL_INIT), ((0, 0, 1), L_REL_CLIENT)):
        alpha = [L_SERVE, L_SHUTDOWN, L_CLOSE, rel] + ([L_CONNECT] if rel == L_REL_CLIENT else [])
        for n in range(2, maxlen + 1):
            for seq in itertools.product(alpha, repeat=n):
                if L_SERVE in seq:
                    yield _mk(0, gates, seq, ["exhaustive"])
    # asynchronous UDP server
    ualpha = [L_SERVE, L_SHUTDOWN, L_CLOSE]
    for n in range(1, maxlen + 1):
        for seq in itertools.product(ualpha, repeat=n):
            yield _mk(1, (0, 0, 0), seq, ["exhaustive"])
    for gates, rel in (((1, 0, 0), L_REL_FACTORY), ((0, 1, 0), L_REL_INIT)):
        for n in range(2, maxlen):
            for seq in itertools.product(ualpha + [rel], repeat=n):
                if L_SERVE in seq:
                    yield _mk(1, gates, seq, ["exhaustive"])
    # UDP client activity: a datagram queued behind a suspended handler (the model carries the teardown defect)
    for n in range(2, maxlen + 1):
        for seq in itertools.product(ualpha + [L_UDPQ], repeat=n):
            if L_UDPQ in seq and L_SERVE in seq:
                yield _mk(1, (0, 0, 0), seq, ["exhaustive"])
    # standalone (threaded) servers: every sequence of calls up to length 3 (4 when thorough) + client activity
    slen = 4 if thorough else 3
    for kind in (2, 3):
        for n in range(1, slen + 1):
            for seq in itertools.product([L_SERVE, L_SHUTDOWN, L_CLOSE], repeat=n):
                yield _mk(kind, (0, 0, 0), seq, ["exhaustive"])
    for seq in ([0, 3, 1], [0, 3, 2], [0, 3, 2, 4], [0, 3, 2, 0, 4], [0, 3, 2, 1], [0, 3, 3, 2, 4, 4], [0, 3, 4, 1, 0, 1],
                [0, 3, 2, 0], [0, 1, 0, 3, 2, 4, 0]):
        yield _mk(2, (0, 0, 0), seq, ["clients"])
    for seq in ([0, 9, 1], [0, 9, 2], [0, 9, 1, 0, 1], [0, 9, 2, 0]):
        yield _mk(3, (0, 0, 0), seq, ["clients"])
    # cancellation of the asynchronous lifecycle calls at their first checkpoint (task.cancel() of the caller)
    for kind in (0, 1):
        busy = [L_CONNECT] if kind == 0 else [L_UDPQ]
        for pre in ([], [L_SERVE], [L_SERVE] + busy, [L_SERVE, L_SHUTDOWN], [L_SERVE, L_CLOSE]):
            for cancelled in (L_CLOSE_CANCELLED, L_SHUTDOWN_CANCELLED):
                for post in ([], [L_OBSERVE], [L_SERVE], [L_CLOSE], [L_SHUTDOWN], [L_CLOSE, L_SERVE], [L_SERVE, L_SHUTDOWN],
                             [cancelled], [L_CLOSE_CANCELLED, L_SERVE]):
                    yield _mk(kind, (0, 0, 0), pre + [cancelled] + post, ["cancelled-call"])
        for cancelled in (L_CLOSE_CANCELLED, L_SHUTDOWN_CANCELLED):
            yield _mk(kind, (1, 0, 0), [L_SERVE, cancelled, L_REL_FACTORY], ["cancelled-call"])
            yield _mk(kind, (0, 1, 0), [L_SERVE, cancelled, L_REL_INIT], ["cancelled-call"])
            yield _mk(kind, (0, 1, 0), [L_SERVE, cancelled, L_REL_INIT, L_CLOSE], ["cancelled-call"])
            if kind == 0:
                yield _mk(kind, (0, 0, 1), [L_SERVE, L_CONNECT, cancelled, L_REL_CLIENT], ["cancelled-call"])
                yield _mk(kind, (0, 0, 1), [L_SERVE, L_CONNECT, cancelled, L_SERVE, L_REL_CLIENT], ["cancelled-call"])
    # overlapping lifecycle calls from several TASKS of the asynchronous server: bare server_activate() calls (held inside
    # the gated listeners factory or queued on the activation lock) with serve / close / shutdown arriving meanwhile, and
    # pairs of calls issued back to back (the second starts while the first sits at its first checkpoint)
    for kind in (0, 1):
        for gf in (0, 1):
            rel = [L_REL_FACTORY] if gf else []
            for mid in ([], [L_SERVE], [L_CLOSE], [L_SHUTDOWN], [L_ACTIVATE], [L_SERVE, L_CLOSE], [L_CLOSE, L_SERVE], [L_SERVE, L_SHUTDOWN],
                        [L_ACTIVATE, L_CLOSE], [L_SERVE, L_ACTIVATE, L_CLOSE], [L_CLOSE_CANCELLED], [L_SERVE, L_CLOSE_CANCELLED]):
                for post in ([], [L_SERVE], [L_CLOSE], [L_SERVE, L_SHUTDOWN], [L_ACTIVATE]):
                    yield _mk(kind, (gf, 0, 0), [L_ACTIVATE] + mid + rel + post, ["overlap"])
            for pre in ([L_SERVE], [L_CLOSE], [L_SERVE, L_SHUTDOWN]):
                yield _mk(kind, (gf, 0, 0), pre + [L_ACTIVATE] + rel + [L_OBSERVE], ["overlap"])
                yield _mk(kind, (gf, 0, 0), pre + [L_ACTIVATE] + rel + [L_CLOSE, L_ACTIVATE], ["overlap"])
        for race in L_RACES[:12] if not thorough else L_RACES:
            for post in ([], [L_OBSERVE], [L_SERVE], [L_ACTIVATE]):
                yield _mk(kind, (0, 0, 0), [race] + post, ["overlap", "activation-race"])
            yield _mk(kind, (0, 0, 0), [L_SERVE, L_SHUTDOWN, race], ["overlap", "activation-race"])
            yield _mk(kind, (1, 0, 0), [race, L_REL_FACTORY], ["overlap", "activation-race"])
        busy = [L_CONNECT] if kind == 0 else [L_UDPQ]
        for pair in L_PAIRS:
            for pre in ([], [L_SERVE], [L_SERVE] + busy, [L_ACTIVATE], [L_SERVE, L_SHUTDOWN], [L_CLOSE]):
                for post in ([], [L_SERVE], [L_CLOSE], [L_SHUTDOWN], [pair]):
                    yield _mk(kind, (0, 0, 0), pre + [pair] + post, ["overlap"])
            yield _mk(kind, (1, 0, 0), [pair, L_REL_FACTORY], ["overlap"])
            if pair != 112:
                # (shutdown then close, both before the cancelled activation is resumed: the call ends normally -- the run
                #  scope was cancelled first -- while the LTS, which does not record the order, says ServerClosedError)
                yield _mk(kind, (1, 0, 0), [L_SERVE, pair, L_REL_FACTORY], ["overlap"])
            yield _mk(kind, (0, 1, 0), [L_SERVE, pair, L_REL_INIT], ["overlap"])
            if kind == 0:
                yield _mk(kind, (0, 0, 1), [L_SERVE, L_CONNECT, pair, L_REL_CLIENT], ["overlap"])
    # failing tear-downs (standalone, init gate value 2: a callback pushed by service_init raises while the server is torn
    # down): every sequence of serve / shutdown / close; a serve_forever that got as far as serving ends with that error
    for kind in (2, 3):
        for n in range(1, 4):
            for seq in itertools.product([L_SERVE, L_SHUTDOWN, L_CLOSE], repeat=n):
                if L_SERVE in seq[:-1]:
                    yield _mk(kind, (0, 2, 0), seq, ["failing-teardown"])
    # start-up window (close lock + bootstrap lock held until the portal exists): one call issued inside the window
    for kind in (2, 3):
        # (no server_close inside the window: once released it races with the asynchronous set-up of the new run --
        #  ServerClosedError for serve_forever, BusyResourceError for the close, or a clean close after "up" depending on
        #  thread timing -- which cannot be replayed deterministically; serve_forever / shutdown inside the window have
        #  the same outcome wherever they land)
        for inside in (L_SERVE, L_SHUTDOWN, None):
            for after in ([], [L_SHUTDOWN], [L_CLOSE], [L_SERVE], [L_CLOSE, L_SERVE, L_REL_FACTORY], [L_SHUTDOWN, L_SERVE, L_REL_FACTORY, L_SHUTDOWN]):
                for pre in ([], [L_CLOSE], [L_SHUTDOWN]):
                    seq = pre + [L_SERVE] + ([inside] if inside is not None else []) + [L_REL_FACTORY] + after
                    yield _mk(kind, (1, 0, 0), seq, ["startup-window"])
    # tear-down window of the serving thread (held back before it re-acquires the bootstrap lock): gates (0,0,1), release 8
    tl = 4 if thorough else 3
    for kind in (2, 3):
        for n in range(2, tl + 2):
            for seq in itertools.product([L_SERVE, L_SHUTDOWN, L_CLOSE, L_REL_CLIENT], repeat=n):
                if seq[0] == L_SERVE and (L_SHUTDOWN in seq or L_CLOSE in seq) and (n <= tl or seq[-1] == L_REL_CLIENT):
                    yield _mk(kind, (0, 0, 1), seq, ["teardown-window"])
    # set-up held in service_init (portal exists, locks released): gates (0,1,0), release 7; NetworkServerThread.start()
    for kind in (2, 3):
        for n in range(2, tl + 1):
            for seq in itertools.product([L_SERVE, L_NST_START, L_SHUTDOWN, L_CLOSE, L_REL_INIT], repeat=n):
                if seq[0] in (L_SERVE, L_NST_START):
                    yield _mk(kind, (0, 1, 0), seq, ["setup-held"])
        for n in range(1, tl + 1):
            for seq in itertools.product([L_NST_START, L_SHUTDOWN, L_CLOSE], repeat=n):
                if L_NST_START in seq:
                    yield _mk(kind, (0, 0, 0), seq, ["server-thread"])
        for seq in ([12, 1, 8, 0, 8], [12, 2, 12, 8], [0, 1, 12, 8, 1, 8]):
            yield _mk(kind, (0, 0, 1), seq, ["teardown-window", "server-thread"])
    # asynchronous servers: the service's own tear-down (service_quit) held, alone and together with a slow client:
    # overlapping shutdown / serve_forever / server_close at every point of the tear-down
    for kind in (0, 1):
        for n in range(2, maxlen + 1):
            for seq in itertools.product([L_SERVE, L_SHUTDOWN, L_CLOSE, L_REL_QUIT], repeat=n):
                if seq[0] == L_SERVE and (L_SHUTDOWN in seq or L_CLOSE in seq):
                    yield _mk(kind, (0, 0, 0, 1), seq, ["exhaustive", "quit-held"])
    for seq in ([0, 3, 1, 1, 8, 1, 19], [0, 3, 1, 8, 1, 0, 19, 0], [0, 3, 2, 1, 8, 1, 19, 0], [0, 3, 1, 1, 19, 8], [0, 3, 1, 2, 8, 0, 19]):
        yield _mk(0, (0, 0, 1, 1), seq, ["quit-held", "clients"])
    # restart after an activation that FAILED (bind error from the scripted listeners factory) or was interrupted
    for kind in (0, 1):
        for seq in ([0, 17], [0, 17, 0, 6], [0, 17, 0, 6, 1], [0, 1, 0, 6], [0, 17, 2, 0], [0, 17, 0, 17, 0, 6], [0, 1, 2, 0],
                    [0, 2, 0], [0, 17, 1, 0, 6, 1, 0, 17]):
            yield _mk(kind, (1, 0, 0), seq, ["activation-failed"])
    # standalone servers: lifecycle queries issued by a request handler, i.e. from inside the server thread
    for kind in (2, 3):
        for seq in ([0, 18], [0, 18, 1], [0, 18, 2], [0, 18, 18, 1, 0, 18, 1], [12, 18, 1], [0, 18, 2, 0], [0, 18, 5, 1]):
            yield _mk(kind, (0, 0, 0), seq, ["api-from-inside"])
    yield _mk(2, (0, 0, 0), [0, 3, 18, 2, 4], ["api-from-inside", "clients"])
    # a call held between two of its lock acquisitions (serve_forever before its 1st / 2nd lock, server_close before its
    # 2nd), one other call meanwhile (threading locks are not FIFO), release, follow-up
    for kind in (2, 3):
        for pre in ([], [L_SERVE]):
            for held_call in (L_SERVE_P1, L_SERVE_P2, L_CLOSE_P2):
                for inside in (None, L_SERVE, L_SHUTDOWN, L_CLOSE):
                    for after in ([], [L_SHUTDOWN], [L_CLOSE], [L_SERVE], [L_SHUTDOWN, L_SERVE, L_SHUTDOWN]):
                        if not thorough and pre and after not in ([], [L_SHUTDOWN]):
                            continue
                        seq = pre + [held_call] + ([inside] if inside is not None else []) + [L_REL_PAUSE] + after
                        yield _mk(kind, (0, 0, 0), seq, ["between-locks"])
    # restart after a server_close() that was REFUSED (BusyResourceError while the set-up is held)
    for kind in (2, 3):
        for seq in ([0, 2, 7, 1, 0], [0, 2, 1, 0], [12, 2, 7, 1, 12, 1], [0, 2, 2, 7, 1, 0, 1], [0, 2, 7, 2, 0], [0, 2, 7, 1, 0, 2, 0]):
            yield _mk(kind, (0, 1, 0), seq, ["setup-held", "refused-close"])
    # shutdown() pre-empted between its locked section and its event wait
    for kind in (2, 3):
        for seq in ([10, 11], [10, 0, 11], [10, 0, 11, 1], [0, 10, 11], [0, 10, 0, 11], [10, 2, 11], [10, 0, 2, 11],
                    [10, 0, 11, 2], [1, 10, 0, 11, 1, 0], [10, 0, 1, 11]):
            yield _mk(kind, (0, 0, 0), seq, ["preempted-shutdown"])
    for _ in range(200 if thorough else 25):
        kind = rng.choice((2, 2, 3))
        alpha = [L_SERVE, L_SERVE, L_SHUTDOWN, L_CLOSE] + ([L_CONNECT, L_DISCONNECT] if kind == 2 else [])
        yield _mk(kind, (0, 0, 0), [rng.choice(alpha) for _ in range(rng.randint(4, 6))], ["random"])
    # random longer sequences, all gates
    n = 4000 if thorough else 500
    for _ in range(n):
        kind = rng.choice((0, 0, 0, 1))
        gates = tuple(rng.choice((0, 0, 1)) for _ in range(3))
        if kind == 1:
            gates = (gates[0], gates[1], 0)
        alpha = [L_SERVE, L_SERVE, L_SHUTDOWN, L_CLOSE] + ([L_CONNECT, L_CONNECT, L_DISCONNECT] if kind == 0 else [])
        alpha += [L_REL_FACTORY] * gates[0] + [L_REL_INIT] * gates[1] + [L_REL_CLIENT] * gates[2]
        seq = [rng.choice(alpha) for _ in range(rng.randint(5, 8))]
        yield _mk(kind, gates, seq, ["random"])


# ----------------------------------------------------------------------------------------------------------------
# the property, stated directly on the implementation
# ----------------------------------------------------------------------------------------------------------------
def oracle(inp):
    kind, gates, labels = inp[0], inp[1], inp[2]
    obs = run_impl(inp)
    call_kinds = []
    for lab in labels:
        if lab == L_NST_START:
            call_kinds += [L_NST_START, L_SERVE]     # the start() call, then the serve_forever of the thread it started
        elif lab in (L_SERVE_P1, L_SERVE_P2):
            call_kinds.append(L_SERVE)               # a serve_forever call (held by the harness between two lock acquisitions)
        elif lab in (L_CLOSE_P2, L_CLOSE_CANCELLED):
            call_kinds.append(L_CLOSE)               # a cancelled server_close() is over: the same obligations hold afterwards
        elif lab == L_SHUTDOWN_CANCELLED:
            call_kinds.append(None)                  # a cancelled shutdown() promises nothing about the server's state
        elif lab == L_ACTIVATE:
            call_kinds.append(L_ACTIVATE)
        elif lab in L_RACES:
            call_kinds += [L_ACTIVATE, L_CLOSE]
        elif lab in L_PAIRS:
            call_kinds += [(L_SERVE, L_SHUTDOWN, L_CLOSE)[(lab - 100) // 10], (L_SERVE, L_SHUTDOWN, L_CLOSE)[(lab - 100) % 10]]
        elif lab in CALLS:
            call_kinds.append(lab)
    closed_ok_at = None          # index of the first observation after a server_close returned normally
    prev = []
    ci = 0
    held_slots = set()      # slots of calls the harness holds between two lock acquisitions (not running, not refused yet)
    for step, (lab, (st, serving, listening, bound)) in enumerate(zip(labels, obs)):
        if lab in (L_SERVE_P1, L_SERVE_P2, L_CLOSE_P2):
            held_slots.add(len(st) - 1)
        elif lab == L_REL_PAUSE:
            held_slots.clear()
        if lab in CALLS:
            ci += 1
        kinds = call_kinds[:len(st)]
        for k, s in zip(kinds, st):
            if s in (5, 9):
                what = {L_SERVE: "serve_forever", L_SHUTDOWN: "shutdown", L_CLOSE: "server_close", L_PRE_SHUTDOWN: "shutdown",
                        L_NST_START: "NetworkServerThread.start", L_ACTIVATE: "server_activate"}.get(k, "shutdown (caller cancelled)")
                return (f"{what} ended with an undocumented exception (status {s}) "
                        f"[kind={kind} labels={labels[:step + 1]}]")
            if s == 6:
                return f"a lifecycle call was cancelled from inside [kind={kind} labels={labels[:step + 1]}]"
            if s == 8:
                return f"server_close() returned while is_listening() was still True [kind={kind} labels={labels[:step + 1]}]"
        # a second concurrent serve_forever is refused
        # (inside the gated start-up window of a standalone server a pending call may simply be blocked on a lock)
        in_window = (kind in (2, 3) and gates[0] == 1) or bool(held_slots)
        running = [i for i, (k, s) in enumerate(zip(kinds, st)) if k == L_SERVE and s == 0 and i not in held_slots]
        if len(running) > 1 and not in_window:
            return f"two serve_forever calls are running concurrently [kind={kind} labels={labels[:step + 1]}]"
        if lab == L_SERVE and len(prev) < len(st):
            was_running = any(k == L_SERVE and s == 0 and i not in held_slots for i, (k, s) in enumerate(zip(call_kinds, prev)))
            if st[-1] == 3 and closed_ok_at is None:
                return (f"serve_forever refused with ServerClosedError although no server_close() has succeeded "
                        f"[kind={kind} labels={labels[:step + 1]}]")
            if in_window and st[-1] == 0:
                pass
            elif was_running and closed_ok_at is not None:
                # both refusals apply; the asynchronous server checks "running" first, the standalone one "closed" first
                if st[-1] not in (2, 3):
                    return f"serve_forever on a closed and still running server not refused (status {st[-1]}) [kind={kind} labels={labels[:step + 1]}]"
            elif was_running and st[-1] != 2:
                return f"second concurrent serve_forever not refused with ServerAlreadyRunning (status {st[-1]}) [kind={kind} labels={labels[:step + 1]}]"
            if closed_ok_at is not None and not was_running and st[-1] not in (3,):
                return f"serve_forever on a closed server not refused with ServerClosedError (status {st[-1]}) [kind={kind} labels={labels[:step + 1]}]"
        # shutdown returned => nothing is serving (unless a newer serve_forever was started afterwards)
        for i, (k, s) in enumerate(zip(kinds, st)):
            if k in (L_SHUTDOWN, L_PRE_SHUTDOWN) and s == 1 and (i >= len(prev) or prev[i] == 0):
                newer = any(k2 == L_SERVE and s2 == 0 for k2, s2 in zip(kinds[i + 1:], st[i + 1:]))
                if serving and not newer:
                    return f"shutdown returned while the server is still serving [kind={kind} labels={labels[:step + 1]}]"
                older_running = any(k2 == L_SERVE and s2 == 0 and j not in held_slots
                                    for j, (k2, s2) in enumerate(zip(kinds[:i], st[:i])))
                if older_running:
                    return (f"shutdown returned while the serve_forever call it stopped has not returned "
                            f"[kind={kind} labels={labels[:step + 1]}]")
        # the server must not stop reporting that it serves unless something asked it to stop
        if step > 0 and obs[step - 1][1] == 1 and serving == 0 and \
                lab in (L_API_INSIDE, L_OBSERVE, L_CONNECT, L_SERVE, L_NST_START, L_UDPQ, L_REL_INIT, L_SERVE_P1):
            return (f"is_serving() turned False although nothing asked the server to stop "
                    f"[kind={kind} labels={labels[:step + 1]}]")
        # NetworkServerThread.start() must return once the server is up or its thread has ended
        for i, (k, s) in enumerate(zip(kinds, st)):
            if k == L_NST_START and s == 0 and i + 1 < len(st) and st[i + 1] != 0:
                return (f"NetworkServerThread.start() is still blocked although the server thread has ended "
                        f"[kind={kind} labels={labels[:step + 1]}]")
        # a shutdown call (not held back by the harness) neither returned nor stopped the server
        resumed = L_RESUME in labels[:step + 1]
        for i, (k, s) in enumerate(zip(kinds, st)):
            if (k == L_SHUTDOWN or (k == L_PRE_SHUTDOWN and resumed)) and s == 0 and serving == 1:
                return (f"shutdown neither returned nor stopped the server: it waits while the server keeps serving "
                        f"[kind={kind} labels={labels[:step + 1]}]")
        if closed_ok_at is None and any(k == L_CLOSE and s == 1 for k, s in zip(kinds, st)):
            closed_ok_at = step
        if closed_ok_at is not None and (listening or bound):
            return f"listeners still open after server_close returned [kind={kind} labels={labels[:step + 1]}]"
        prev = st
    # no deadlock: once nothing is held back by the harness a server_close() never stays pending, and a query of the
    # server is never blocked
    held = (gates[0] and L_REL_FACTORY not in labels[-1:]) or any(lab in (L_SERVE_P1, L_SERVE_P2, L_CLOSE_P2) for lab in labels) \
        and labels[-1] != L_REL_PAUSE and L_REL_PAUSE not in labels[max(i for i, lab in enumerate(labels) if lab in (L_SERVE_P1, L_SERVE_P2, L_CLOSE_P2)):]
    if obs and not held and not any(gates) and L_PRE_SHUTDOWN not in labels:
        st, serving = obs[-1][0], obs[-1][1]
        kinds = call_kinds[:len(st)]
        if serving == 2:
            return f"is_serving() blocks although nothing is held back: the locks are deadlocked [kind={kind} labels={labels}]"
        if any(k == L_CLOSE and s == 0 for k, s in zip(kinds, st)):
            return f"server_close() still pending although nothing is held back [kind={kind} labels={labels}]"
    # a closed server does not stay inside serve_forever(): once server_close() has returned normally and nothing is held
    # back any more (every gate of the case released after the last call), no serve_forever call is still running
    rel = (L_REL_FACTORY, L_REL_INIT, L_REL_CLIENT, L_REL_QUIT)
    call_idx = [i for i, lab in enumerate(labels) if lab in CALLS or lab == L_NST_START]
    # (a server with connected clients / a busy datagram handler legitimately keeps serving them after server_close())
    if obs and call_idx and closed_ok_at is not None and not held and L_PRE_SHUTDOWN not in labels \
            and L_CONNECT not in labels and L_UDPQ not in labels and L_API_INSIDE not in labels \
            and all(rel[i] in labels[call_idx[-1] + 1:] for i, g in enumerate(gates) if g):
        st = obs[-1][0]
        if any(k == L_SERVE and s == 0 and i not in held_slots for i, (k, s) in enumerate(zip(call_kinds[:len(st)], st))):
            return ("server_close() has returned but a serve_forever call is still running although nothing is held back: "
                    f"a closed server that never stops [kind={kind} labels={labels}]")
    # no deadlock: with every gate released and a final shutdown, every call must have ended
    if all(g == 0 for g in gates) and labels and labels[-1] == L_SHUTDOWN:
        st = obs[-1][0]
        if any(s == 0 for s in st):
            return f"calls still pending after a final shutdown with nothing held back [kind={kind} labels={labels}]"
    return None


def signature(inp, failure):
    head = failure.split(" [")[0]
    if inp[0] in (2, 3) and inp[1][1] == 1 and inp[1][0] == 0 and head.startswith("listeners still open after server_close returned"):
        return "standalone-server_close-during-setup-returns-normally-but-closes-nothing"
    if inp[0] in (2, 3) and L_PRE_SHUTDOWN in inp[2] and head.startswith("shutdown neither returned nor stopped the server"):
        return "standalone-shutdown-lost-wakeup-serve_forever-starts-before-event-wait"
    if inp[0] in (0, 1) and any(lab in L_RACES for lab in inp[2]) and head.startswith("listeners still open after server_close returned"):
        return "async-server_close-during-activation-leaves-listeners-open"
    if inp[0] in (1, 3) and L_UDPQ in inp[2] and head.startswith("serve_forever ended with an undocumented exception (status 5)"):
        return "udp-serve_forever-raises-taskgroup-shutting-down-when-datagram-queued-at-teardown"
    return head


def shrink(inp):
    kind, gates, labels = inp[0], inp[1], inp[2]
    for i in range(len(labels)):
        yield [kind, gates, labels[:i] + labels[i + 1:]]
    for i, g in enumerate(gates):
        if g:
            g2 = list(gates)
            g2[i] = 0
            yield [kind, g2, [x for x in labels if x != (L_REL_FACTORY, L_REL_INIT, L_REL_CLIENT)[i]]]
