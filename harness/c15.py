"""C15 — stream server: each request reaches the handler exactly once, in order.

Real AsyncStreamServer.serve over an in-memory listener with a scripted connection on the deterministic loop, real
build_lowlevel_stream_server_handler with a scripted AsyncStreamRequestHandler (strategy = list of actions) and the
real server-side client class; the same peer script and action list drive the Coq model (coq/Conc/StreamServer.v).
"""
from __future__ import annotations

import asyncio
import contextlib
from collections.abc import AsyncGenerator
import errno as _errno
import itertools
import warnings
from collections import deque

from common import detloop, streamcase as sc
from c03 import FakeSocket, raise_kind

from easynetwork.exceptions import StreamProtocolParseError
from easynetwork.lowlevel.api_async.transports.abc import AsyncListener, AsyncStreamTransport
from easynetwork.lowlevel.socket import INETSocketAttribute
from easynetwork.protocol import BufferedStreamProtocol, StreamProtocol
from easynetwork.servers.handlers import AsyncStreamRequestHandler

PROPERTY_ID = "C15"
RUN_MODULE = "Run.C15"
PROPS_FILE = "Props/C15.v"
ALLOWED_AXIOMS = []
ANCHORS = [
    ("src/easynetwork/lowlevel/api_async/servers/stream.py", "AsyncStreamServer.__client_coroutine"),
    ("src/easynetwork/lowlevel/api_async/servers/stream.py", "AsyncStreamServer.serve"),
    ("src/easynetwork/lowlevel/api_async/servers/stream.py", "_RequestReceiver.next"),
    ("src/easynetwork/lowlevel/api_async/servers/stream.py", "_BufferedRequestReceiver.next"),
    ("src/easynetwork/lowlevel/api_async/servers/stream.py", "ConnectedStreamClient.aclose"),
    ("src/easynetwork/lowlevel/api_async/servers/stream.py", "ConnectedStreamClient.send_packet"),
    ("src/easynetwork/lowlevel/api_async/backend/_asyncio/stream/socket.py", "StreamReaderBufferedProtocol.get_buffer"),
    ("src/easynetwork/lowlevel/api_async/backend/_asyncio/stream/socket.py", "StreamReaderBufferedProtocol.buffer_updated"),
    ("src/easynetwork/lowlevel/api_async/backend/_asyncio/stream/socket.py", "StreamReaderBufferedProtocol.receive_data"),
    ("src/easynetwork/lowlevel/api_async/backend/_asyncio/stream/socket.py", "StreamReaderBufferedProtocol.receive_data_into"),
    ("src/easynetwork/lowlevel/api_async/backend/_asyncio/stream/socket.py", "StreamReaderBufferedProtocol._wait_for_data"),
    ("src/easynetwork/lowlevel/_asyncgen.py", "SendAction.asend"),
    ("src/easynetwork/lowlevel/_asyncgen.py", "ThrowAction.asend"),
    ("src/easynetwork/lowlevel/_asyncgen.py", "anext_without_asyncgen_hook"),
    ("src/easynetwork/servers/misc.py", "build_lowlevel_stream_server_handler"),
    ("src/easynetwork/servers/async_tcp.py", "_ConnectedClientAPI.aclose"),
    ("src/easynetwork/servers/async_tcp.py", "_ConnectedClientAPI.is_closing"),
    ("src/easynetwork/servers/async_tcp.py", "_ConnectedClientAPI.send_packet"),
    ("src/easynetwork/servers/handlers.py", "AsyncStreamRequestHandler.on_connection"),
    ("src/easynetwork/lowlevel/_stream.py", "StreamDataConsumer.next"),
    ("src/easynetwork/lowlevel/_stream.py", "BufferedStreamDataConsumer.next"),
    ("src/easynetwork/lowlevel/_stream.py", "BufferedStreamDataConsumer.get_write_buffer"),
]
RULE = ("request stream = 0-4 frames (valid / undecodable / empty payload) + optional trailing partial frame, separator "
        "(LF, CRLF) and fixed-size framing, both consumers; chunkings: all for streams <= 5 bytes, whole / byte-wise / "
        "random beyond; every chunk has an arrival time, the peer closes (or resets) at the end; handler strategies = "
        "action lists over {yield t (t in None,0,4,8 ticks), return, close+return, close+yield, raise} of length <= 6 "
        "(exhaustive for length <= 2 on short streams, random beyond), on_connection as coroutine / generator / closing "
        "coroutine; max_recv_size in {1,2,3,64}.  Then pairs of such connections (same protocol, independent peers/strategies, "
        "shifted arrival times) are served CONCURRENTLY by one AsyncStreamServer with one request-handler object; each "
        "connection's observables must equal the model's isolated run (independence).  "
        "End-to-end family: one connection of the real server over the REAL asyncio stream transport "
        "(StreamReaderBufferedProtocol + socket adapter, harness = selector), a handler that only yields timeouts, read events "
        "one tick before / exactly at (both timer orders) / after the expiry of the yielded timeout; the handler must see the "
        "whole decoding of the stream.  One-chunk streams with every order of valid/malformed frames.  Request values include None and the "
        "other falsy values (lf-falsy framing); handler generators native or class-based (non-native AsyncGenerator), re-raising GeneratorExit or returning on it.  Strict and lenient "
        "transports (recv after aclose).  "
        "Non-trivial = at least one generator restart with a request still to "
        "come, or a parse error thrown, or a timeout thrown, or the handler closes the client before the stream ends.")
TRUSTED = ["model of __client_coroutine / request receivers / ThrowAction / build_lowlevel_stream_server_handler "
           "hand-written in coq/Conc/StreamServer.v over the consumer models",
           "in-memory listener/transport with arrival times on the deterministic loop (harness/c15.py) stand for the peer",
           "asyncio task/cancel-scope semantics (backend.timeout, cancel_shielded_coro_yield) are not modelled beyond "
           "'TimeoutError iff the deadline passes while the receiver waits for the transport' — validated by execution"]
ASSUMPTIONS = ["a generator that receives GeneratorExit re-raises it or returns; it does not yield again",
               "the model is of ONE connection; independence of concurrent connections is checked by execution (pairs "
               "served by one server must reproduce the isolated per-connection runs), not proved",
               "handler code takes no virtual time; it echoes each request unless the client is closed",
               "a handler never yields again on GeneratorExit",
               "cancellation is only delivered while the transport waits with no data (C10 covers the data race)"]

TICK = 1.0 / 1024


# request values from a domain that includes None and the other falsy values: the payload byte selects the value
FALSY = {b"N": None, b"0": 0, b"F": False, b"E": "", b"L": []}      # (b"" is what an empty frame already gives)


def _falsy_key(v):
    for k, x in FALSY.items():
        if type(x) is type(v) and x == v:
            return k
    return None


class FalsyAutoSep(sc.IdAutoSep):
    def serialize(self, packet):
        k = _falsy_key(packet)
        return k if k is not None else bytes(packet)

    def deserialize(self, data):
        v = super().deserialize(data)
        return FALSY.get(v, v)


def make_serializer(kind, cfg, impl):
    if impl[0] == b"autosep-falsy":
        return FalsyAutoSep(cfg[0], cfg[1], ascii_only=True)
    return sc.make_serializer(kind, cfg, impl)


def canon(req):
    """the payload bytes a request value stands for"""
    k = _falsy_key(req)
    return k if k is not None else sc.canon_packet(req)


def spec_impl(impl):
    return [b"autosep-ascii"] if impl[0] == b"autosep-falsy" else impl


class ProxyAsyncGen(AsyncGenerator):
    """a class-based (non-native) collections.abc.AsyncGenerator around a native one"""

    def __init__(self, gen):
        self._gen = gen

    def __aiter__(self):
        return self

    def __anext__(self):
        return self._gen.__anext__()

    def asend(self, value):
        return self._gen.asend(value)

    def athrow(self, *args):
        return self._gen.athrow(*args)

    def aclose(self):
        return self._gen.aclose()


class HandlerError(Exception):
    pass


class PeerTransport(AsyncStreamTransport):
    def __init__(self, peer, backend, loop, port=2222, lenient=False):
        super().__init__()
        self.port = port
        self.lenient = lenient      # a lenient transport still delivers queued data after aclose() (strict: EBADF)
        self.script = deque([list(x) for x in peer])
        self._backend = backend
        self._loop = loop
        self._closed = False
        self._sock = FakeSocket()
        self.sent = []

    async def recv_into(self, buffer):
        if self._closed and not self.lenient:
            raise OSError(_errno.EBADF, "closed transport")
        if not self.script:
            return 0
        at = self.script[0][-1] * TICK
        now = self._loop.time()
        if at > now:
            await self._backend.sleep(at - now)
        it = self.script[0]
        if it[0] == 1:
            self.script.popleft()
            return 0
        if it[0] == 3:
            self.script.popleft()
            raise_kind(it[1])
        chunk = it[1]
        if not chunk:
            self.script.popleft()
            return 0
        with memoryview(buffer) as mv:
            n = min(mv.nbytes, len(chunk))
            mv[:n] = chunk[:n]
        if n < len(chunk):
            self.script[0] = [0, chunk[n:], it[2]]
        else:
            self.script.popleft()
        return n

    async def send_all(self, data):
        self.sent.append(bytes(data))

    async def send_all_from_iterable(self, iterable_of_data):
        self.sent.append(b"".join(bytes(d) for d in iterable_of_data))

    async def send_eof(self):
        pass

    async def aclose(self):
        self._closed = True

    def is_closing(self):
        return self._closed

    def backend(self):
        return self._backend

    @property
    def extra_attributes(self):
        s = self._sock
        return {
            INETSocketAttribute.socket: lambda: s,
            INETSocketAttribute.family: lambda: s.family,
            INETSocketAttribute.sockname: s.getsockname,
            INETSocketAttribute.peername: lambda: ("127.0.0.1", self.port),
        }


class MemListener(AsyncListener):
    def __init__(self, backend, transports, loop):
        super().__init__()
        self._backend = backend
        self.transports = transports
        self._loop = loop
        self._closed = False
        self.outcomes = {}
        self.end_times = {}
        self.done = asyncio.Event()

    async def serve(self, handler, task_group=None):
        async with self._backend.create_task_group() as tg:
            for tr in self.transports:
                tg.start_soon(self._run, handler, tr)
            await self._backend.sleep_forever()

    async def _run(self, handler, tr):
        try:
            await handler(tr)
            self.outcomes[getattr(tr, "port", 2222)] = None
        except Exception as exc:
            self.outcomes[getattr(tr, "port", 2222)] = exc
        finally:
            self.end_times[getattr(tr, "port", 2222)] = self._loop.time()
            if len(self.end_times) == len(self.transports):
                self.done.set()

    async def aclose(self):
        self._closed = True

    def is_closing(self):
        return self._closed

    def backend(self):
        return self._backend

    @property
    def extra_attributes(self):
        return {}


def classify(exc):
    if isinstance(exc, HandlerError):
        return [0]
    if isinstance(exc, StreamProtocolParseError):
        return [1, sc.ERR_CODES.get(type(exc.error).__name__, 9)]
    if isinstance(exc, TimeoutError):
        return [2]
    if isinstance(exc, RuntimeError):
        return [4]
    if isinstance(exc, OSError):
        return [3, 1 if exc.errno == _errno.EBADF else 2]
    return [9, type(exc).__name__.encode()]


class _Conn:
    def __init__(self, acts, oc, proxy=False, exit_mode=0):
        self.acts = deque(acts)
        self.oc = oc
        self.exit_mode = exit_mode  # on GeneratorExit the user generator re-raises (0) or simply returns (1)
        self.proxy = proxy      # generators handed to the server are class-based AsyncGenerator objects
        self.log = []
        self.counter = 0


class ScriptedHandler(AsyncStreamRequestHandler):
    """One handler object for the whole server; the strategy and the log are per connection (keyed by the peer port)."""

    def __init__(self, conns, loop):
        self.conns = conns          # port -> _Conn
        self.loop = loop

    def now(self):
        return round(self.loop.time() / TICK)

    def conn(self, client):
        return self.conns[client.extra(INETSocketAttribute.peername)[1]]

    def on_connection(self, client):
        cn = self.conn(client)
        cn.log.append([0])
        if cn.oc == 1:
            return self._wrap(cn, self._gen(client, cn))
        return self._on_conn(client, cn)

    async def _on_conn(self, client, cn):
        if cn.oc == 2:
            await client.aclose()

    async def on_disconnection(self, client):
        self.conn(client).log.append([6])

    def handle(self, client):
        cn = self.conn(client)
        return self._wrap(cn, self._gen(client, cn))

    @staticmethod
    def _wrap(cn, gen):
        return ProxyAsyncGen(gen) if cn.proxy else gen

    async def _gen(self, client, cn):
        g = cn.counter
        cn.counter += 1
        cn.log.append([1, g])
        thrown = None
        while True:
            a = cn.acts.popleft() if cn.acts else [2]
            if a[0] == 1:
                cn.log.append([4, g])
                return
            if a[0] == 2:
                await client.aclose()
                cn.log.append([4, g])
                return
            if a[0] == 4:
                cn.log.append([4, g])
                if thrown is not None:
                    raise thrown
                raise HandlerError()
            if a[0] == 3:
                await client.aclose()
            t = None if a[1] == [] else a[1][0] * TICK
            try:
                req = yield t
            except GeneratorExit:
                cn.log.append([5, g])
                if cn.exit_mode == 1:
                    return          # a generator may finish on GeneratorExit instead of re-raising it: it is closed all the same
                raise
            except Exception as exc:
                thrown = exc
                cn.log.append([3, g, classify(exc), self.now()])
            else:
                thrown = None
                cn.log.append([2, g, canon(req), self.now()])
                if not client.is_closing():
                    await client.send_packet(req)


async def _main(conn_inputs, loop):
    """conn_inputs: list of single-connection inputs sharing kind/cfg/bufsize/impl (one server, one protocol)"""
    from easynetwork.lowlevel.api_async.backend.utils import new_builtin_backend
    from easynetwork.lowlevel.api_async.servers.stream import AsyncStreamServer
    from easynetwork.lowlevel.socket import new_socket_address
    from easynetwork.servers.async_tcp import _ConnectedClientAPI
    from easynetwork.servers.misc import build_lowlevel_stream_server_handler

    kind, cfg, _dec, _peer, _acts, _oc, bufsize, impl = conn_inputs[0][:8]
    ser = make_serializer(kind, cfg, impl)
    protocol = BufferedStreamProtocol(ser) if kind in (1, 3) else StreamProtocol(ser)
    backend = new_builtin_backend("asyncio")
    transports, conns = [], {}
    for i, ci in enumerate(conn_inputs):
        port = 2222 + i
        transports.append(PeerTransport(ci[3], backend, loop, port, lenient=bool(ci[8]) if len(ci) > 8 else False))
        conns[port] = _Conn(ci[4], ci[5], proxy=bool(ci[9]) if len(ci) > 9 else False,
                            exit_mode=ci[10] if len(ci) > 10 else 0)
    listener = MemListener(backend, transports, loop)
    server = AsyncStreamServer(listener, protocol, max_recv_size=bufsize)
    rh = ScriptedHandler(conns, loop)

    @contextlib.asynccontextmanager
    async def initializer(lowlevel_client):
        async with contextlib.AsyncExitStack() as stack:
            address = new_socket_address(lowlevel_client.extra(INETSocketAttribute.peername),
                                         lowlevel_client.extra(INETSocketAttribute.family))
            client = _ConnectedClientAPI(address, lowlevel_client)
            del lowlevel_client
            stack.push_async_callback(client._on_disconnect)
            yield client

    handler = build_lowlevel_stream_server_handler(initializer, rh)
    serve_task = asyncio.ensure_future(
        server.serve(handler, disconnect_error_filter=lambda exc: isinstance(exc, ConnectionError)))
    await listener.done.wait()
    serve_task.cancel()
    await asyncio.gather(serve_task, return_exceptions=True)
    seplen = len(cfg[0]) if kind in (0, 1) else 0
    outs = []
    for tr in transports:
        wire = [d[: len(d) - seplen] if seplen else d for d in tr.sent]
        exc = listener.outcomes[tr.port]
        outs.append([conns[tr.port].log, wire, [] if exc is None else [classify(exc)], tr.is_closing(), len(tr.script),
                     round(listener.end_times[tr.port] / TICK)])
    return outs


# ---------------------------------------------------------------- end-to-end over the REAL asyncio stream transport

class TimeoutOnlyHandler(AsyncStreamRequestHandler):
    """yields the given timeouts in turn, catches everything thrown, never closes: every request / parse error it sees is logged"""

    def __init__(self, timeouts, loop):
        self.timeouts = list(timeouts)
        self.loop = loop
        self.log = []
        self.waiting = asyncio.Event()
        self.deadline = None
        self.nyield = 0

    async def handle(self, client):
        while True:
            t = self.timeouts[self.nyield % len(self.timeouts)] if self.timeouts else []
            self.nyield += 1
            secs = None if t == [] else t[0] * TICK
            self.deadline = None if secs is None else self.loop.time() + secs
            self.waiting.set()
            try:
                req = yield secs
            except GeneratorExit:
                raise
            except TimeoutError:
                pass
            except StreamProtocolParseError as exc:
                self.log.append([1, sc.ERR_CODES.get(type(exc.error).__name__, 9)])
            except Exception as exc:
                self.log.append([9, type(exc).__name__.encode()])
            else:
                self.log.append([0, canon(req)])
            finally:
                self.waiting.clear()


async def _main_e2e(inp, loop):
    from c03 import KernelTransport
    from easynetwork.lowlevel.api_async.backend._asyncio.stream.socket import (
        AsyncioTransportStreamSocketAdapter, StreamReaderBufferedProtocol)
    from easynetwork.lowlevel.api_async.backend.utils import new_builtin_backend
    from easynetwork.lowlevel.api_async.servers.stream import AsyncStreamServer
    from easynetwork.lowlevel.socket import new_socket_address
    from easynetwork.servers.async_tcp import _ConnectedClientAPI
    from easynetwork.servers.misc import build_lowlevel_stream_server_handler

    _tag, conn, plan, timeouts = inp[:4]
    kind, cfg, _dec, _peer, _acts, _oc, bufsize, impl = conn[:8]
    ser = make_serializer(kind, cfg, impl)
    protocol = BufferedStreamProtocol(ser) if kind in (1, 3) else StreamProtocol(ser)
    backend = new_builtin_backend("asyncio")
    ktr = KernelTransport(loop)
    proto = StreamReaderBufferedProtocol(loop=loop)
    ktr.set_protocol(proto)
    proto.connection_made(ktr)
    adapter = AsyncioTransportStreamSocketAdapter(backend, ktr, proto)
    listener = MemListener(backend, [adapter], loop)
    server = AsyncStreamServer(listener, protocol, max_recv_size=bufsize)
    rh = TimeoutOnlyHandler(timeouts, loop)

    @contextlib.asynccontextmanager
    async def initializer(lowlevel_client):
        async with contextlib.AsyncExitStack() as stack:
            address = new_socket_address(lowlevel_client.extra(INETSocketAttribute.peername),
                                         lowlevel_client.extra(INETSocketAttribute.family))
            client = _ConnectedClientAPI(address, lowlevel_client)
            del lowlevel_client
            stack.push_async_callback(client._on_disconnect)
            yield client

    handler = build_lowlevel_stream_server_handler(initializer, rh)
    serve_task = asyncio.ensure_future(
        server.serve(handler, disconnect_error_filter=lambda exc: isinstance(exc, ConnectionError)))

    async def settle():
        for _ in range(8):
            await asyncio.sleep(0)

    def deliver(chunk):
        ktr.kbuf += chunk
        ktr.read_ready()

    async def wait_handler():
        # the handler is suspended at its yield and the receiver has reached the transport
        for _ in range(200):
            if listener.done.is_set():
                return False
            if rh.waiting.is_set():
                await settle()
                if rh.waiting.is_set():
                    return True
            await asyncio.sleep(0)
        return not listener.done.is_set()

    pre = set()
    for k, (chunk, mode) in enumerate(plan):
        if k in pre:
            # delivered by a timer armed earlier (before the handler's next yield armed its timeout)
            for _ in range(400):
                if not pre_pending[0]:
                    break
                await asyncio.sleep(TICK)
            await settle()
            continue
        if not await wait_handler():
            break
        # arm the NEXT chunk at "now + the timeout the handler will yield next" before this one is read: its timer is
        # pushed BEFORE the timeout's, the other order of the tie
        pre_pending = [False]
        if mode == 0 and k + 1 < len(plan) and plan[k + 1][1] == 4 and timeouts:
            t_next = timeouts[rh.nyield % len(timeouts)]
            if t_next != []:
                pre_pending = [True]

                def fire(ch=plan[k + 1][0], flag=pre_pending):
                    flag[0] = False
                    deliver(ch)
                loop.call_at(loop.time() + t_next[0] * TICK, fire)
                pre.add(k + 1)
        d = rh.deadline
        if mode in (0, 4) or d is None:
            ktr.kbuf += chunk
            loop.call_soon(ktr.read_ready)
            await settle()
        else:
            when = d + (mode - 2) * TICK          # modes 1,2,3: one tick before / exactly at / one tick after the deadline
            if when <= loop.time():
                deliver(chunk)
            else:
                loop.call_at(when, deliver, chunk)
                await asyncio.sleep(when - loop.time())
            await settle()
    await wait_handler()
    ktr.peer_closed = True
    ktr.schedule_read()
    for _ in range(400):
        if listener.done.is_set():
            break
        await asyncio.sleep(TICK)
    serve_task.cancel()
    await asyncio.gather(serve_task, return_exceptions=True)
    return rh.log


def run_impl(inp):
    with warnings.catch_warnings():
        warnings.simplefilter("ignore")
        with detloop.running(max_steps=200000) as loop:
            if inp[0] == 300:
                return loop.run_until_complete(_main_e2e(inp, loop))
            if inp[0] == 100:
                return loop.run_until_complete(_main([inp[1], inp[2]], loop))
            return loop.run_until_complete(_main([inp], loop))[0]


# ---------------------------------------------------------------- cases

FRAMINGS = [
    dict(name="lf", kinds=(0, 1), cfg=[b"\n", 12, 0], impl=[b"autosep-ascii"], dec=1,
         valid=[b"a\n", b"bc\n"], bad=[b"\xff\n"], empty=[b"\n"], partial=[b"d"]),
    dict(name="crlf", kinds=(0, 1), cfg=[b"\r\n", 12, 0], impl=[b"autosep-ascii"], dec=1,
         valid=[b"a\r\n", b"\rb\r\n"], bad=[b"\xfe\r\n"], empty=[b"\r\n"], partial=[b"c\r"]),
    dict(name="lf-falsy", kinds=(0, 1), cfg=[b"\n", 12, 0], impl=[b"autosep-falsy"], dec=1,
         valid=[b"N\n", b"0\n", b"a\n", b"F\n", b"L\n", b"E\n"], bad=[b"\xff\n"], empty=[b"\n"], partial=[b"d"]),
    dict(name="fixed2", kinds=(2, 3), cfg=[2], impl=[b"fixed-ascii"], dec=1,
         valid=[b"ab", b"cd"], bad=[b"\xffz"], empty=[], partial=[b"e"]),
]

TMO = [[], [0], [4], [8]]
ACTS = [[0, t] for t in TMO] + [[1], [2], [4]] + [[3, []], [3, [4]]]


def mk(fr, buffered, peer, acts, oc, bufsize, lenient=0, proxy=0, exit_mode=0):
    kind = fr["kinds"][1 if buffered else 0]
    cfg = list(fr["cfg"])
    if kind in (1, 3):
        cfg = cfg + [bufsize]
    return [kind, cfg, fr["dec"], peer, acts, oc, bufsize, fr["impl"], lenient, proxy, exit_mode]


def build_peer(chunks, rng, end):
    """arrival times: non-decreasing; gaps drawn from {0,1,2,3,5,6,9} so that they fall before / between / after
    the deadlines of timeouts 0, 4, 8 counted from the previous event"""
    t, peer = 0, []
    for ch in chunks:
        t += rng.choice([0, 0, 1, 2, 3, 5, 6, 9])
        peer.append([0, ch, t])
    t += rng.choice([0, 1, 3, 5, 9])
    if end == 0:
        peer.append([1, t])
    elif end == 1:
        peer.append([3, 0, t])
    return peer


def random_acts(rng, n):
    out = []
    for _ in range(n):
        r = rng.random()
        if r < 0.55:
            out.append([0, rng.choice(TMO)])
        elif r < 0.8:
            out.append([1])
        elif r < 0.86:
            out.append([2])
        elif r < 0.93:
            out.append([3, rng.choice(TMO)])
        else:
            out.append([4])
    return out


def _single_cases(tier, rng, escalate):
    thorough = tier == "thorough" or escalate
    max_all = 5 if thorough else 4
    for fr in FRAMINGS:
        pool = fr["valid"] + fr["bad"] + fr["empty"]
        seqs = [[]]
        for n in (1, 2, 3, 4):
            allseq = list(itertools.product(pool, repeat=n))
            rng.shuffle(allseq)
            seqs.extend(list(s) for s in allseq[: ({1: 4, 2: 8, 3: 8, 4: 5} if not thorough else {1: 4, 2: 16, 3: 30, 4: 30})[n]])
        for frames in seqs:
            for partial in (b"", fr["partial"][0]):
                stream = b"".join(frames) + partial
                if len(stream) <= max_all:
                    chunkings = list(sc.all_chunkings(stream))
                    ctag = "all-chunkings"
                else:
                    chunkings = [[stream], [stream[i:i + 1] for i in range(len(stream))]]
                    for _ in range(4 if thorough else 2):
                        cuts = [c for c in range(1, len(stream)) if rng.random() < 0.4]
                        chunkings.append(sc.cuts_to_chunks(stream, cuts))
                    ctag = "sampled-chunkings"
                if not thorough and len(chunkings) > 5:
                    rng.shuffle(chunkings)
                    chunkings = chunkings[:5]
                for chunks in chunkings:
                    strategies = []
                    if len(frames) <= 1 and len(chunks) <= 2:
                        strategies += [list(p) for n in (1, 2) for p in itertools.product(ACTS, repeat=n)
                                       if rng.random() < (1.0 if thorough else 0.25)]
                    for _ in range(6 if thorough else 4):
                        strategies.append(random_acts(rng, rng.randint(1, len(frames) + 4)))
                    # the well-behaved handler: one generator for everything / one generator per request
                    strategies.append([[0, []]] * (len(frames) + 2))
                    strategies.append([[0, []], [1]] * (len(frames) + 2))
                    for acts in strategies:
                        buffered = rng.random() < 0.5
                        oc = rng.choice([0, 0, 1, 1, 2]) if rng.random() < 0.5 else rng.choice([0, 1])
                        bufsize = rng.choice([1, 2, 3, 64])
                        end = rng.choice([0, 0, 0, 1])
                        peer = build_peer(chunks, rng, end)
                        kinds = {a[0] for a in acts}
                        tags = [fr["name"], "buffered" if buffered else "copying", ctag, f"oc{oc}", f"bufsize{bufsize}",
                                "peer-eof" if end == 0 else "peer-reset",
                                "has-bad-frame" if any(f in fr["bad"] for f in frames) else "all-valid",
                                "restarts" if 1 in kinds else "single-gen",
                                "handler-closes" if kinds & {2, 3} else "no-close",
                                "handler-raises" if 4 in kinds else "no-raise",
                                "finite-timeouts" if any(a[0] in (0, 3) and a[1] != [] for a in acts) else "no-timeouts"]
                        lenient = int(rng.random() < 0.4)
                        tags.append("lenient-transport" if lenient else "strict-transport")
                        if acts and acts[0][0] in (2, 3):
                            tags.append("closes-before-first-yield")
                        proxy = int(rng.random() < 0.35)
                        tags.append("class-based-generators" if proxy else "native-generators")
                        exit_mode = int(rng.random() < 0.4)
                        tags.append("returns-on-GeneratorExit" if exit_mode else "reraises-GeneratorExit")
                        yield dict(input=mk(fr, buffered, peer, acts, oc, bufsize, lenient, proxy, exit_mode), tags=tags,
                                   nontrivial=bool(len(frames) >= 1 and (kinds - {0} or any(f in fr["bad"] for f in frames)
                                                                         or "finite-timeouts" in tags)))


def _span(peer):
    times = [it[-1] for it in peer]
    return (min(times), max(times)) if times else (0, 0)


def _e2e_cases(tier, rng, escalate):
    """one connection over the real asyncio stream transport; the handler only yields timeouts; each chunk is read
    immediately (0), one tick before (1) / exactly at (2) / one tick after (3) the expiry of the pending timeout, or exactly at
    the expiry of the NEXT timeout with its timer armed before the timeout's (4)"""
    thorough = tier == "thorough" or escalate
    n = 3000 if thorough else 600
    for fr in FRAMINGS:
        pool = fr["valid"] + fr["bad"] + fr["empty"]
        for _ in range(n // 3):
            frames = [rng.choice(pool) for _ in range(rng.randint(1, 4))]
            stream = b"".join(frames)
            r = rng.random()
            if r < 0.3:
                chunks = list(frames)
            elif r < 0.4:
                chunks = [stream[i:i + 1] for i in range(len(stream))]
            else:
                chunks = sc.cuts_to_chunks(stream, [c for c in range(1, len(stream)) if rng.random() < 0.4])
            plan = [[ch, rng.choice([0, 1, 2, 2, 3, 4, 4])] for ch in chunks]
            for k in range(1, len(plan)):
                if plan[k][1] == 4 and rng.random() < 0.8:
                    plan[k - 1][1] = 0        # the timer-before tie needs the previous chunk read at once
            timeouts = rng.choice([[[4]], [[4], []], [[4], [8]], [[2], [4], [4]]])
            buffered = rng.random() < 0.5
            bufsize = rng.choice([1, 2, 3, 4, 64])
            peer = [[0, ch, 0] for ch, _m in plan] + [[1, 0]]
            conn = mk(fr, buffered, peer, [], 0, bufsize)
            modes = {m for _c, m in plan}
            tags = ["real-asyncio-transport", fr["name"], "buffered" if buffered else "copying", f"bufsize{bufsize}"]
            if 2 in modes:
                tags.append("read-tied-with-timeout-expiry(timer-after)")
            if 4 in modes:
                tags.append("read-tied-with-timeout-expiry(timer-before)")
            yield dict(input=[300, conn, plan, timeouts], tags=tags, nontrivial=bool(modes & {1, 2, 3, 4}))


def _mixed_chunk_cases(tier, rng, escalate):
    """one chunk holding every sequence of <= 4 valid / malformed / empty frames, two well-behaved handlers"""
    for fr in FRAMINGS:
        pool = [fr["valid"][0], fr["bad"][0], fr["valid"][1]] + fr["empty"][:1]
        for n in (2, 3, 4):
            seqs = list(itertools.product(pool, repeat=n))
            if n == 4 and tier != "thorough" and not escalate:
                rng.shuffle(seqs)
                seqs = seqs[:60]
            for frames in seqs:
                stream = b"".join(frames)
                for acts in ([[0, []]] * (n + 2), [[0, []], [1]] * (n + 2)):
                    buffered = rng.random() < 0.5
                    peer = [[0, stream, 0], [1, 1]]
                    yield dict(input=mk(fr, buffered, peer, acts, 0, 64), nontrivial=any(f in fr["bad"] for f in frames),
                               tags=[fr["name"], "buffered" if buffered else "copying", "mixed-frames-one-chunk"])


def cases(tier, rng, escalate):
    yield from _multi_cases(tier, rng, escalate)
    yield from _mixed_chunk_cases(tier, rng, escalate)
    yield from _e2e_cases(tier, rng, escalate)


def _multi_cases(tier, rng, escalate):
    """single connections, then pairs of connections served concurrently by one server (same protocol and
    max_recv_size, independent peers and handler strategies)"""
    thorough = tier == "thorough" or escalate
    buckets = {}
    for c in _single_cases(tier, rng, escalate):
        yield c
        inp = c["input"]
        key = (inp[0], repr(inp[1]), inp[6], repr(inp[7]))
        b = buckets.setdefault(key, [])
        if len(b) < 400 and c["nontrivial"]:
            b.append(c)
    npairs = 6000 if thorough else 700
    keys = sorted(buckets)
    for _ in range(npairs):
        b = buckets[rng.choice(keys)]
        if len(b) < 2:
            continue
        c1, c2 = rng.sample(b, 2)
        i1, i2 = c1["input"], c2["input"]
        if rng.random() < 0.5:       # shift the second peer so that the lifetimes interleave differently
            shift = rng.choice([1, 2, 3, 5])
            i2 = list(i2)
            i2[3] = [it[:-1] + [it[-1] + shift] for it in i2[3]]
        (a1, b1), (a2, b2) = _span(i1[3]), _span(i2[3])
        overlap = a1 <= b2 and a2 <= b1
        tags = ["two-connections", "overlapping-lifetimes" if overlap else "disjoint-lifetimes"] + \
               [t for t in c1["tags"] if t in ("buffered", "copying", "lf", "crlf", "lf-falsy", "fixed2")]
        yield dict(input=[100, i1, i2], tags=tags, nontrivial=True)


# ---------------------------------------------------------------- the property, stated on the implementation

def _oracle_e2e(inp):
    _tag, conn, plan, timeouts = inp[:4]
    kind, cfg, _dec, _peer, _acts, _oc, bufsize, impl = conn[:8]
    stream = b"".join(ch for ch, _m in plan)
    expected, _left = sc.spec_events_py(kind, cfg, spec_impl(impl), stream)
    exp = [[0, e[1]] if e[0] == 0 else [1, 1] for e in expected]
    got = run_impl(inp)
    if got != exp:
        return (f"real asyncio transport: the handler (which only yields timeouts) saw {got}, the peer sent {exp} then "
                f"closed: a request was lost / invented / reordered when a yielded timeout expired")
    return None


def oracle(inp):
    if inp[0] == 300:
        return _oracle_e2e(inp)
    if inp[0] == 100:
        both = run_impl(inp)
        for i, ci in enumerate(inp[1:3]):
            fail = _check(ci, both[i])
            if fail:
                return f"connection {i} (served concurrently): {fail}"
            alone = run_impl(ci)
            if alone != both[i]:
                return (f"connection {i} behaves differently when another connection is served concurrently: "
                        f"{both[i]} vs alone {alone}")
        return None
    return _check(inp, run_impl(inp))


def _check(inp, out):
    kind, cfg, _dec, peer, acts, oc, bufsize, impl = inp[:8]
    stream = b""
    for it in peer:
        if it[0] != 0 or not it[1]:
            break
        stream += it[1]
    expected, _left = sc.spec_events_py(kind, cfg, spec_impl(impl), stream)
    exp = [[0, e[1]] if e[0] == 0 else [1, 1] for e in expected]
    log, wire, outcome, closed, _left_items, _now = out
    got = []
    for ev in log:
        if ev[0] == 2:
            got.append([0, ev[2]])
        elif ev[0] == 3 and ev[2][0] == 1:
            got.append([1, ev[2][1]])
    if got != exp[: len(got)]:
        return f"requests/parse errors seen by the handler {got} are not a prefix of the decoding {exp}"
    # each generator: started once, at most one terminal event, all terminated
    started = [ev[1] for ev in log if ev[0] == 1]
    ended = [ev[1] for ev in log if ev[0] in (4, 5)]
    if sorted(started) != sorted(ended) or len(set(ended)) != len(ended):
        return f"generators started {started} but terminated {ended}"
    if not closed:
        return "transport not closed at the end of the client task"
    if outcome and outcome[0][0] == 9:
        return (f"the client task died with {outcome[0][1].decode()} (not raised by the handler): the handler saw {got} of the "
                f"{len(exp)} requests the peer sent")
    # the peer ended the connection (GeneratorExit delivered although the handler never closes): nothing may be missing
    gen_events = [ev for ev in log if ev[0] in (4, 5)]
    if oc != 2 and not any(a[0] in (2, 3) for a in acts) and gen_events and gen_events[-1][0] == 5 and outcome == [] \
            and got != exp:
        return f"the peer closed after {len(exp)} complete frames but the handler only saw {got}"
    # replay the handler's own actions along the log: which timeout was yielded before each event, when the client was closed
    pending = deque(acts)
    tcur, waiting, handler_closed = 0, None, (oc == 2)
    for ev in log:
        if ev[0] == 1:
            if handler_closed:
                return f"a new generator ({ev[1]}) was started after the handler had closed the client"
        elif ev[0] in (2, 3):
            now = ev[3]
            if handler_closed:
                return (f"generator {ev[1]} was resumed with {'a request' if ev[0] == 2 else 'a thrown ' + str(ev[2])} "
                        f"after the handler had closed the client")
            if ev[0] == 3 and ev[2] == [4]:
                return f"RuntimeError thrown into the handler (generator {ev[1]}) instead of a request"

            if waiting is not None:
                t0, t = waiting
                if t != [] and now > t0 + t[0]:
                    return (f"the handler yielded timeout {t[0]} at time {t0} but was only resumed at time {now} "
                            f"(the wait did not use the timeout it had just yielded)")
                if ev[0] == 3 and ev[2] == [2]:
                    if t == []:
                        return f"TimeoutError at time {now} although the handler had yielded no timeout"
                    if now != t0 + t[0]:
                        return f"TimeoutError at time {now}, but timeout {t[0]} was yielded at time {t0}"
            tcur = now
        else:
            continue
        a = pending.popleft() if pending else [2]
        waiting = None
        if a[0] in (2, 3):
            handler_closed = True
        if a[0] in (0, 3):
            waiting = (tcur, a[1])
    # a TimeoutError needs a finite yielded timeout
    if any(ev[0] == 3 and ev[2] == [2] for ev in log) and not any(a[0] in (0, 3) and a[1] != [] for a in acts):
        return "TimeoutError thrown although no finite timeout was ever yielded"
    return None


def signature(inp, failure):
    return failure.split("[")[0][:60]


def shrink(inp):
    if inp[0] == 300:
        _tag, conn, plan, timeouts = inp[:4]
        for i in range(len(plan) - 1):
            merged = [plan[i][0] + plan[i + 1][0], plan[i + 1][1]]
            peer = [[0, ch, 0] for ch, _m in plan[:i] + [merged] + plan[i + 2:]] + [[1, 0]]
            c2 = list(conn)
            c2[3] = peer
            yield [300, c2, plan[:i] + [merged] + plan[i + 2:], timeouts]
        for i in range(len(plan)):
            if plan[i][1] != 0:
                yield [300, conn, plan[:i] + [[plan[i][0], 0]] + plan[i + 1:], timeouts]
        return
    if inp[0] == 100:
        yield inp[1]
        yield inp[2]
        for cand in shrink(inp[1]):
            yield [100, cand, inp[2]]
        for cand in shrink(inp[2]):
            yield [100, inp[1], cand]
        return
    kind, cfg, dec, peer, acts, oc, bufsize, impl = inp[:8]
    rest = list(inp[8:])
    for i in range(len(acts)):
        yield [kind, cfg, dec, peer, acts[:i] + acts[i + 1:], oc, bufsize, impl] + rest
    for i in range(len(peer) - 1):
        if peer[i][0] == 0 and peer[i + 1][0] == 0:
            merged = [0, peer[i][1] + peer[i + 1][1], peer[i + 1][2]]
            yield [kind, cfg, dec, peer[:i] + [merged] + peer[i + 2:], acts, oc, bufsize, impl] + rest
