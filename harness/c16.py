"""C16 — datagram server: per-client FIFO, one active handler, nothing dropped.

Correspondence of kind (B), trace replay.  The REAL `AsyncDatagramServer.serve` (lowlevel/api_async/servers/datagram.py)
runs over an in-memory `AsyncDatagramListener` on the deterministic loop (common/detloop.py) with the real asyncio
backend; the request handler is the real `build_lowlevel_datagram_server_handler` (servers/misc.py) around the real
`_ClientContext` (servers/async_udp.py) around a *scripted* `AsyncDatagramRequestHandler` (the adversary).

case input = [naddr, labels, progs, actions, mode]
  naddr    number of client addresses (1..3), addresses are 0..naddr-1
  labels   the label sequence of the model (coq/Conc/DgramServer.v) as recorded from the real run of the script
             [0,a,d] Arrive   [1,susp] HStart   [2,a] HResume   [3,a] TaskStart   [4,a] GSuspend   [5,a] GResume
             [6,a,t] GYield (t = [] | [ticks])   [7,a] GReturn   [8,a] GRaise   [9,a] PopWake   [10,a] Timeout
             [11,a,r] GCancel: the generator ended with CancelledError while the server keeps running; r = does the
             task-done hook still restart a task for a non-empty queue (recorded from the implementation per process)
  progs    per address: the adversary's choices, consumed each time the handler generator of that address has
           control (across restarts):  [0] suspend on a gate | [1,t] yield (t=-1: no timeout, else ticks of 1/1024 s)
           | [2] return | [3] raise | [4] end with asyncio.CancelledError ; when exhausted: yield without timeout
  actions  the driver's script: [0,a,d] datagram d arrives from a | [1,a] release a's gate | [2] one loop iteration
           | [3] run until nothing is ready | [4,dt] let dt ticks of virtual time pass (timers fire), then as [3]
           | [5] (reallistener) await serve() now
  mode     [yieldcond, reallistener]: yieldcond 1 = the backend's condition variable yields to the loop once when it is
           acquired from push_datagram (models backends whose lock acquisition is a checkpoint, e.g. trio);
           reallistener 1 = the listener is the REAL asyncio DatagramListenerProtocol + DatagramListenerSocketAdapter on a
           bound UDP socket (datagrams injected with protocol.datagram_received(), what the asyncio transport calls) and
           action [5] = "serve() is awaited now": datagrams arriving before it go through the pre-serve backlog;
           a third element 1 = the loop uses asyncio.eager_task_factory (tasks start synchronously inside start_soon)
The model gets (naddr, labels) and must accept every label and produce the same observables:
  output = [obs, summary, stuck]    stuck = [] (the real server is idle at the end of the script; the model lists the
           scheduler steps still enabled in its final state: a queued datagram whose coroutine waits, a pending task ...)
           obs: [0,a,d] handler task for (a,d) took its first step | [1,a] a new generator for a
           started | [2,a,d] a's generator received request d | [3,a] a's generator received TimeoutError | [9] the
           server crashed ;  summary: per address [generators created, generator active now, requests received]
"""
from __future__ import annotations

import asyncio
import contextlib
import itertools
import logging
import os
import socket

from common import detloop

PROPERTY_ID = "C16"
RUN_MODULE = "Run.C16"
PROPS_FILE = "Props/C16.v"
ALLOWED_AXIOMS = []
ANCHORS = [
    ("src/easynetwork/lowlevel/api_async/servers/datagram.py", "AsyncDatagramServer.serve"),
    ("src/easynetwork/lowlevel/api_async/servers/datagram.py", "AsyncDatagramServer.__client_coroutine"),
    ("src/easynetwork/lowlevel/api_async/servers/datagram.py", "AsyncDatagramServer.__client_coroutine_inner_loop"),
    ("src/easynetwork/lowlevel/api_async/servers/datagram.py", "AsyncDatagramServer.__on_client_coroutine_task_done"),
    ("src/easynetwork/lowlevel/api_async/servers/datagram.py", "AsyncDatagramServer.__parse_datagram"),
    ("src/easynetwork/lowlevel/api_async/servers/datagram.py", "_ClientData"),
    ("src/easynetwork/lowlevel/api_async/servers/datagram.py", "_ClientState"),
    ("src/easynetwork/lowlevel/api_async/backend/_asyncio/datagram/listener.py", "_DatagramListenerServeContext.handle"),
    ("src/easynetwork/lowlevel/api_async/backend/_asyncio/datagram/listener.py", "DatagramListenerProtocol.datagram_received"),
    ("src/easynetwork/lowlevel/api_async/backend/_asyncio/datagram/listener.py", "DatagramListenerProtocol.__init__"),
    ("src/easynetwork/lowlevel/api_async/backend/_asyncio/datagram/listener.py", "DatagramListenerProtocol.connection_lost"),
    ("src/easynetwork/lowlevel/api_async/backend/_asyncio/datagram/listener.py", "DatagramListenerProtocol.serve"),
    ("src/easynetwork/lowlevel/api_async/backend/_asyncio/datagram/listener.py", "DatagramListenerSocketAdapter.serve"),
    ("src/easynetwork/servers/misc.py", "build_lowlevel_datagram_server_handler"),
    ("src/easynetwork/servers/async_udp.py", "_ClientContext.__aexit__"),
    ("src/easynetwork/servers/async_udp.py", "AsyncUDPNetworkServer.__lowlevel_serve"),
    ("src/easynetwork/lowlevel/_asyncgen.py", "SendAction.asend"),
    ("src/easynetwork/lowlevel/_asyncgen.py", "ThrowAction.asend"),
]

TICK = 1.0 / 1024

# label / obs codes
L_ARRIVE, L_HSTART, L_HRESUME, L_TSTART, L_GSUSP, L_GRESUME, L_GYIELD, L_GRETURN, L_GRAISE, L_POP, L_TIMEOUT, L_GCANCEL = range(12)
O_HSTART, O_GENNEW, O_RECV, O_THROW = 0, 1, 2, 3
O_CRASH = 9


class HandlerBoom(Exception):
    pass


def _addr(a):
    return ("127.0.0.1", 1000 + a)


class _Run:
    """One run of the real server on a script; collects the chronological event log."""

    def __init__(self, naddr, progs, actions, mode):
        self.naddr = naddr
        self.progs = [list(p) for p in progs] + [[] for _ in range(naddr - len(progs))]
        self.actions = actions
        self.yieldcond = bool(mode and mode[0])
        self.real_listener = bool(mode and len(mode) > 1 and mode[1])
        self.eager = bool(mode and len(mode) > 2 and mode[2])
        self.log = []            # events, see _convert
        self.gates = {}
        self.stopping = False
        self.push_may_yield = False
        self.measure_depth = False
        self.max_depth = 0

    # -- the scripted request handler (adversary)
    def make_handler(self):
        from easynetwork.exceptions import DatagramProtocolParseError
        from easynetwork.servers.handlers import AsyncDatagramRequestHandler, INETClientAttribute

        run = self

        class Scripted(AsyncDatagramRequestHandler):
            async def handle(self, client):
                a = client.extra(INETClientAttribute.remote_address).port - 1000
                run.push_may_yield = False
                run.log.append(("gennew", a))
                own_cancel = False
                try:
                    while True:
                        prog = run.progs[a]
                        ch = prog.pop(0) if prog else [1, -1]
                        if ch[0] == 0:
                            fut = asyncio.get_running_loop().create_future()
                            run.gates[a] = fut
                            run.log.append(("gsusp", a))
                            try:
                                await fut
                            finally:
                                run.gates.pop(a, None)
                            run.log.append(("gresume", a))
                        elif ch[0] == 1:
                            t = ch[1]
                            run.log.append(("gyield", a, t))
                            try:
                                req = yield (None if t < 0 else t * TICK)
                            except TimeoutError:
                                run.log.append(("gthrow", a))
                                continue
                            except DatagramProtocolParseError as exc:
                                # a malformed datagram (starts with "!") is handed over as an exception
                                run.log.append(("grecv", a, bytes(exc.error.error_info["data"])))
                                continue
                            run.log.append(("grecv", a, bytes(req)))
                        elif ch[0] == 2:
                            run.log.append(("greturn", a))
                            return
                        elif ch[0] == 3:
                            run.log.append(("graise", a))
                            raise HandlerBoom()
                        else:
                            # what a handler awaiting a cancelled future/task does
                            run.log.append(("gcancel", a))
                            own_cancel = True
                            raise asyncio.CancelledError()
                except (asyncio.CancelledError, GeneratorExit):
                    if not run.stopping and not own_cancel:
                        run.log.append(("gcancelled", a))
                    raise

        return Scripted()

    async def main(self):
        from easynetwork.exceptions import DeserializeError
        from easynetwork.lowlevel import _utils
        from easynetwork.lowlevel.api_async.backend._asyncio.backend import AsyncIOBackend
        from easynetwork.lowlevel.api_async.backend.abc import TaskGroup
        from easynetwork.lowlevel.api_async.servers.datagram import AsyncDatagramServer
        from easynetwork.lowlevel.api_async.transports.abc import AsyncDatagramListener
        from easynetwork.lowlevel.socket import INETSocketAttribute
        from easynetwork.protocol import DatagramProtocol
        from easynetwork.serializers.abc import AbstractPacketSerializer
        from easynetwork.servers.async_udp import _ClientContext
        from easynetwork.servers.misc import build_lowlevel_datagram_server_handler
        import weakref

        run = self
        loop = asyncio.get_running_loop()
        if self.eager:
            # asyncio.eager_task_factory: start_soon() runs the new task synchronously until its first suspension
            loop.set_task_factory(asyncio.eager_task_factory)
        real_backend = AsyncIOBackend()

        class YieldingCondition(asyncio.Condition):
            async def __aenter__(self):
                if run.push_may_yield:
                    run.push_may_yield = False
                    a = run.cur_handler_addr
                    run.log.append(("hsusp", a))
                    await asyncio.sleep(0)
                    run.log.append(("hresume", a))
                return await super().__aenter__()

        class Backend:
            """the real asyncio backend, except that (mode yieldcond) acquiring the condition from push_datagram
            yields to the loop once"""

            def __getattr__(self, name):
                return getattr(real_backend, name)

            def create_condition_var(self, lock=None):
                if run.yieldcond:
                    return YieldingCondition()
                return real_backend.create_condition_var(lock)

        backend = Backend()

        class PassThrough(AbstractPacketSerializer):
            def serialize(self, packet):
                return bytes(packet)

            def deserialize(self, data):
                if bytes(data[:1]) == b"!":
                    raise DeserializeError("malformed", error_info={"data": bytes(data)})
                return bytes(data)

        class MemListener(AsyncDatagramListener):
            def __init__(self):
                self.handler = None
                self.task_group = None
                self.closed = loop.create_future()
                self.sent = []

            def is_closing(self):
                return self.closed.done()

            async def aclose(self):
                if not self.closed.done():
                    self.closed.set_result(None)

            def backend(self):
                return backend

            @property
            def extra_attributes(self):
                return {INETSocketAttribute.family: lambda: socket.AF_INET,
                        INETSocketAttribute.sockname: lambda: ("127.0.0.1", 9)}

            async def send_to(self, data, address):
                self.sent.append((bytes(data), address))

            async def serve(self, handler, task_group=None):
                assert task_group is not None
                self.handler, self.task_group = handler, task_group
                await self.closed
                raise asyncio.CancelledError()

            def inject(self, data, a):
                # what DatagramListenerProtocol.datagram_received does: one task per datagram, in arrival order
                self.task_group.start_soon(self.handler, data, _addr(a))

        real_proto = None
        if self.real_listener:
            # the REAL asyncio listener: DatagramListenerProtocol + DatagramListenerSocketAdapter on a bound UDP socket;
            # datagrams are injected with protocol.datagram_received() = what the asyncio transport calls
            from easynetwork.lowlevel.api_async.backend._asyncio.datagram.listener import (
                DatagramListenerProtocol, DatagramListenerSocketAdapter)
            sock = socket.socket(socket.AF_INET, socket.SOCK_DGRAM)
            sock.bind(("127.0.0.1", 0))
            sock.setblocking(False)
            real_tr, real_proto = await loop.create_datagram_endpoint(lambda: DatagramListenerProtocol(loop=loop), sock=sock)
            listener = DatagramListenerSocketAdapter(backend, real_tr, real_proto)

            def inject(data, a):
                real_proto.datagram_received(data, _addr(a))
        else:
            listener = MemListener()
            inject = listener.inject

        class TGWrap(TaskGroup):
            """delegates to the real task group; records the first step of every task it starts"""

            def __init__(self, inner):
                self.inner = inner

            async def __aenter__(self):
                return self

            async def __aexit__(self, *args):
                return None

            def start_soon(self, coro_func, /, *args, name=None):
                coro = self._first_step(coro_func, args)
                try:
                    self.inner.start_soon(lambda: coro, name=name)
                except BaseException:
                    coro.close()        # (teardown only: the real task group is shutting down)
                    raise

            async def start(self, coro_func, /, *args, name=None):
                return await self.inner.start(coro_func, *args, name=name)

            async def _first_step(self, coro_func, args):
                if run.measure_depth:
                    import sys
                    f, d = sys._getframe(), 0
                    while f is not None:
                        f, d = f.f_back, d + 1
                    run.max_depth = max(run.max_depth, d)
                if args and isinstance(args[0], (bytes, bytearray, memoryview)):
                    a = args[1][1] - 1000
                    run.cur_handler_addr = a
                    run.push_may_yield = run.yieldcond
                    run.log.append(("hstart", a, bytes(args[0])))
                else:
                    ctx = args[1]
                    run.log.append(("tstart", ctx.address[1] - 1000))
                try:
                    await coro_func(*args)
                finally:
                    run.push_may_yield = False

        server = AsyncDatagramServer(listener, DatagramProtocol(PassThrough()))
        logger = logging.getLogger("verif.c16")
        logger.propagate = False
        logger.addHandler(logging.NullHandler())
        logger.setLevel(logging.CRITICAL + 1)
        flag = _utils.Flag()
        flag.set()

        def initializer(lowlevel_client, cache):
            return _ClientContext(lowlevel_client, cache, flag, logger)

        cb = build_lowlevel_datagram_server_handler(initializer, self.make_handler(), weakref.WeakValueDictionary())

        async def serve_all():
            async with real_backend.create_task_group() as tg:
                await server.serve(cb, TGWrap(tg))

        srv = None
        deferred_start = self.real_listener and any(act[0] == 5 for act in self.actions)
        if not deferred_start:
            srv = asyncio.ensure_future(serve_all())

        async def quiesce():
            for _ in range(10000):
                await asyncio.sleep(0)
                if not loop._ready:
                    return
            raise detloop.DeadlockError("server does not become idle")

        await quiesce()
        crashed = False
        for act in self.actions:
            if srv is not None and srv.done():
                break
            k = act[0]
            if k == 0:
                self.log.append(("arrive", act[1], bytes(act[2])))
                inject(bytes(act[2]), act[1])
            elif k == 5:
                if srv is None:
                    srv = asyncio.ensure_future(serve_all())
            elif k == 1:
                fut = self.gates.get(act[1])
                if fut is not None and not fut.done():
                    fut.set_result(None)
            elif k == 2:
                await asyncio.sleep(0)
            elif k == 3:
                await quiesce()
            elif k == 4:
                await asyncio.sleep(act[1] * TICK)
                await quiesce()
        if srv is None:
            srv = asyncio.ensure_future(serve_all())
        if not srv.done():
            await quiesce()
        if self.final_hook is not None:
            await self.final_hook(self, quiesce, srv)
        if srv.done():
            crashed = True
            with contextlib.suppress(BaseException):
                srv.result()
            self.log.append(("crash",))
        self.stopping = True
        srv.cancel()
        with contextlib.suppress(BaseException):
            await srv
        if self.real_listener:
            with contextlib.suppress(BaseException):
                await listener.aclose()
        return crashed

    final_hook = None


def run_script(naddr, progs, actions, mode, final_hook=None, recursion_limit=None, stats=None):
    import sys
    r = _Run(naddr, progs, actions, mode)
    r.final_hook = final_hook
    r.measure_depth = stats is not None
    old = sys.getrecursionlimit()
    if recursion_limit:
        sys.setrecursionlimit(recursion_limit)
    try:
        detloop.run(r.main(), max_steps=100000)
    except detloop.DeadlockError:
        # the real server (or its tear-down) waits for something that can never happen any more
        r.log.append(("hang",))
    except RecursionError:
        r.log.append(("hang",))
    finally:
        sys.setrecursionlimit(old)
    if stats is not None:
        stats["max_stack_depth"] = r.max_depth
    return r.log


def convert(naddr, log):
    """event log of the real run -> (labels for the model, observables)"""
    labels, obs = [], []
    gens = [0] * naddr
    active = [0] * naddr
    maxactive = [0] * naddr
    recvd = [[] for _ in range(naddr)]
    first_recv_pending = [False] * naddr     # the generator has not yet received its first request
    for ev in log:
        k = ev[0]
        if k == "arrive":
            labels.append([L_ARRIVE, ev[1], ev[2]])
        elif k == "hstart":
            labels.append([L_HSTART, 0])
            obs.append([O_HSTART, ev[1], ev[2]])
        elif k == "hsusp":
            # the handler whose first step was just recorded suspended in push_datagram
            for lab in reversed(labels):
                if lab[0] == L_HSTART:
                    lab[1] = 1
                    break
        elif k == "hresume":
            labels.append([L_HRESUME, ev[1]])
        elif k == "tstart":
            labels.append([L_TSTART, ev[1]])
        elif k == "gennew":
            a = ev[1]
            gens[a] += 1
            active[a] += 1
            maxactive[a] = max(maxactive[a], active[a])
            first_recv_pending[a] = True
            obs.append([O_GENNEW, a])
        elif k == "gsusp":
            labels.append([L_GSUSP, ev[1]])
        elif k == "gresume":
            labels.append([L_GRESUME, ev[1]])
        elif k == "gyield":
            labels.append([L_GYIELD, ev[1], [] if ev[2] < 0 else [ev[2]]])
        elif k == "grecv":
            a = ev[1]
            if first_recv_pending[a]:
                first_recv_pending[a] = False     # handed over in the same step as the first yield
            else:
                labels.append([L_POP, a])
            recvd[a].append(ev[2])
            obs.append([O_RECV, a, ev[2]])
        elif k == "gthrow":
            labels.append([L_TIMEOUT, ev[1]])
            obs.append([O_THROW, ev[1]])
        elif k in ("greturn", "graise"):
            a = ev[1]
            active[a] -= 1
            labels.append([L_GRETURN if k == "greturn" else L_GRAISE, a])
        elif k == "gcancel":
            a = ev[1]
            active[a] -= 1
            labels.append([L_GCANCEL, a, int(hook_restarts_after_generator_cancel())])
        elif k == "crash":
            obs.append([O_CRASH])
        elif k == "hang":
            obs.append([8, 1])      # never produced by the model
        else:
            obs.append([8, 0])      # gcancelled: never expected, always a disagreement
    summary = [[gens[a], active[a], recvd[a]] for a in range(naddr)]
    return labels, obs, summary, maxactive


_RESTARTS = None


def hook_restarts_after_generator_cancel() -> bool:
    """recorded once per process from the real server: a generator ends with CancelledError while a datagram of its
    address is queued and the server keeps running -- is a fresh generator started for the queued datagram?"""
    global _RESTARTS
    if _RESTARTS is None:
        _RESTARTS = True        # (value used by convert() for the probe's own log; irrelevant for the answer)
        log = run_script(1, [[[1, -1], [0], [4]]], [[0, 0, b"a"], [3], [0, 0, b"b"], [3], [1, 0], [3]], [0])
        _RESTARTS = any(ev[0] == "grecv" and ev[2] == b"b" for ev in log)
    return _RESTARTS


# ------------------------------------------------------------------------------------------------ listener restarts
def run_listener(labels):
    """the REAL DatagramListenerProtocol + DatagramListenerSocketAdapter across serve() restarts: [0,a,d] the transport
    delivers a datagram (protocol.datagram_received) | [1] serve() is awaited | [2] the running serve() is cancelled.
    Observed: every handler task the listener starts (task_group.start_soon), in order."""
    dispatched = []

    async def main():
        from easynetwork.lowlevel.api_async.backend._asyncio.backend import AsyncIOBackend
        from easynetwork.lowlevel.api_async.backend._asyncio.datagram.listener import (
            DatagramListenerProtocol, DatagramListenerSocketAdapter)
        from easynetwork.lowlevel.api_async.backend.abc import TaskGroup
        loop = asyncio.get_running_loop()
        backend = AsyncIOBackend()
        sock = socket.socket(socket.AF_INET, socket.SOCK_DGRAM)
        sock.bind(("127.0.0.1", 0))
        sock.setblocking(False)
        tr, proto = await loop.create_datagram_endpoint(lambda: DatagramListenerProtocol(loop=loop), sock=sock)
        listener = DatagramListenerSocketAdapter(backend, tr, proto)

        class RecordingTaskGroup(TaskGroup):
            async def __aenter__(self):
                return self

            async def __aexit__(self, *args):
                return None

            def start_soon(self, coro_func, /, *args, name=None):
                dispatched.append([args[1][1] - 1000, bytes(args[0])])

            async def start(self, coro_func, /, *args, name=None):
                raise NotImplementedError

        async def handler(data, addr):
            return None

        srv = None
        try:
            for lab in labels:
                if lab[0] == 0:
                    proto.datagram_received(bytes(lab[2]), _addr(lab[1]))
                elif lab[0] == 1:
                    srv = asyncio.ensure_future(listener.serve(handler, RecordingTaskGroup()))
                else:
                    if srv is not None:
                        srv.cancel()
                        with contextlib.suppress(BaseException):
                            await srv
                        srv = None
                for _ in range(3):
                    await asyncio.sleep(0)
                if srv is not None and srv.done():
                    exc = srv.exception() if not srv.cancelled() else asyncio.CancelledError()
                    dispatched.append([-1, b"serve() ended: " + type(exc).__name__.encode()])
                    srv = None
        finally:
            if srv is not None:
                srv.cancel()
                with contextlib.suppress(BaseException):
                    await srv
            with contextlib.suppress(BaseException):
                await listener.aclose()

    detloop.run(main(), max_steps=100000)
    return [dispatched, -1]


def _listener_cases(thorough):
    """every enabled history of {arrive, serve, cancel} up to length 6 (8 thorough) on the real listener protocol, closed
    by a final serve(): serve -> cancel -> serve with and without a backlog"""
    maxlen = 8 if thorough else 6

    def rec(prefix, serving, k):
        if prefix:
            labels = list(prefix) + ([] if serving else [[1]])
            kinds = [lab[0] for lab in labels]
            restart = any(kinds[i] == 2 and 1 in kinds[i + 1:] for i in range(len(kinds)))
            yield dict(input=[-1, labels], tags=["listener-restart" if restart else "listener", f"labels<={10 * (len(labels) // 10 + 1)}"],
                       nontrivial=bool(restart and k > 0))
        if len(prefix) >= maxlen:
            return
        yield from rec(prefix + [[0, k % 2, b"d%d" % k]], serving, k + 1)
        if serving:
            yield from rec(prefix + [[2]], False, k)
        else:
            yield from rec(prefix + [[1]], True, k)

    yield from rec([], False, 0)


KNOWN_EAGER = "eager-task-factory-nested-restart-starves-queue"


def eager_burst_probe(limit, burst, control):
    """witness of the known finding F-C16-1, independent of the machine's defaults: asyncio.eager_task_factory, the
    recursion limit set explicitly to `limit`, one client, a first invocation that suspends once, then `burst` datagrams
    handled by one-shot invocations that never suspend (every restart by the task-done hook then runs synchronously inside
    the previous one, 6 frames each).  Returns None when everything is handled and the server stops cleanly (the defect
    is absent: not an alarm), the known signature for exactly this history class (eager, nesting deeper than half the
    limit, starvation beyond the control size), and a plain `starved` failure for anything else."""
    def scenario(b):
        progs = [[[1, -1], [0]] + [[2], [1, -1]] * b]
        actions = [[0, 0, b"first"], [3]] + [[0, 0, b"D%d" % k] for k in range(b)] + [[3], [1, 0], [3]]
        stats = {}
        log = run_script(1, progs, actions, [0, 0, 1], recursion_limit=limit, stats=stats)
        got = [ev[2] for ev in log if ev[0] == "grecv"]
        want = [b"first"] + [b"D%d" % k for k in range(b)]
        bad = [ev[0] for ev in log if ev[0] in ("hang", "crash", "gcancelled")]
        return got, want, bad, stats.get("max_stack_depth", 0)

    import gc
    import sys
    old_hook, alog = sys.unraisablehook, logging.getLogger("asyncio")
    old_level = alog.level
    sys.unraisablehook = lambda *a: None        # the wreck of a server killed by RecursionError is collected noisily
    alog.setLevel(logging.CRITICAL + 1)
    try:
        return _eager_burst_verdict(scenario, limit, burst, control)
    finally:
        gc.collect()
        sys.unraisablehook = old_hook
        alog.setLevel(old_level)


def _eager_burst_verdict(scenario, limit, burst, control):
    got, want, bad, _ = scenario(control)
    if got != want or bad:
        return (f"starved: eager tasks, a burst of only {control} datagrams (recursion limit {limit}): handlers saw "
                f"{len(got)} of {len(want)} requests, {bad}")
    got, want, bad, depth = scenario(burst)
    if got == want and not bad:
        return None
    if got != want[:len(got)]:
        return f"fifo: eager burst: handlers saw {got[:5]!r}... which is not a prefix of the arrivals"
    if len(got) > control and depth > limit // 2:
        return (f"{KNOWN_EAGER}: recursion limit {limit}, burst of {burst}: handlers saw {len(got) - 1} of {burst} queued "
                f"datagrams, stack depth reached {depth}, then {bad or ['no progress']}")
    return f"starved: eager burst of {burst}: handlers saw {len(got)} of {len(want)} requests at stack depth {depth}, {bad}"


def run_impl(inp):
    if inp[0] == -2:
        return [0]
    if inp[0] == -1:
        return run_listener(inp[1])
    naddr, labels, progs, actions, mode = inp[:5]
    log = run_script(naddr, progs, actions, mode)
    labels2, obs, summary, _ = convert(naddr, log)
    from common import sx
    if sx.norm(labels2) != sx.norm(labels):
        return [[[7, 7]], [], []]       # the recorded run is not reproducible
    # third component: internal steps still enabled -- none, the real server is idle when the script has been executed
    return [obs, summary, []]


# ------------------------------------------------------------------------------------------------ case generation
RULE = ("a case is a driver script for the real server (datagram arrivals from 1-3 addresses, gate releases, single loop "
        "iterations, run-until-idle, virtual time advances) plus one adversary program per address (suspend / yield "
        "with or without timeout / return / raise / end with CancelledError, consumed across generator restarts); the label sequence of the "
        "model is recorded from the real run. Exhaustive: every action sequence up to length 4 (5 thorough) over "
        "{arrive, release, idle, advance} x every program up to length 2 (thorough: also length 4 x programs up to 3) for one address (also with the "
        "yielding condition variable), every action sequence up to length 4 (5) over {arrive from 0, arrive from 1, "
        "release 0, idle} x small programs for two addresses; random: 1-3 "
        "addresses, up to 6 datagrams, programs up to 6 choices, with and without a yielding condition variable, over the "
        "in-memory listener or the REAL asyncio DatagramListenerProtocol; real listener with a pre-serve backlog of "
        "0/1/2/31..34/40/64/65 datagrams followed by every sequence of up to 3 {loop iteration, late arrival} steps, and "
        "backlogs of 127/128/129/257/1000 (thorough: 3000, 5000) datagrams; handlers yielding float timeouts 0 / 1 tick / "
        "none with datagrams already queued, every action sequence up to length 3 (4) over {arrive, idle, advance 1 tick}. The "
        "asyncio.eager_task_factory as a dimension (exhaustive 1-address family on both listeners, random cases); "
        "the listener alone across serve() restarts: every enabled history of {arrive, serve, cancel} up to length 6 (8). The "
        "model must also have no scheduler step left enabled when the real server is idle at the end of the script. "
        "Cases whose label sequence was already produced are skipped. Non-trivial = a datagram arrived while its "
        "address had a live generator, a suspended handler or a pending task, or a restart/timeout/discard happened.")
TRUSTED = ["model of AsyncDatagramServer.serve/_ClientData hand-written in coq/Conc/DgramServer.v, validated by trace replay",
           "the harness's mapping of observed events to model labels (harness/c16.py: convert)",
           "asyncio task semantics on CPython 3.12 (a task step is atomic between awaits; first steps of tasks run in creation order)"]
ASSUMPTIONS = ["handler tasks take their first step in the order in which the listener started them "
               "(AsyncDatagramListener.serve contract; holds for asyncio's FIFO ready queue)",
               "exceptions raised by the request handler are swallowed by the high-level wrapper (_ClientContext); "
               "at the bare low level an exception in the generator terminates serve() (out of scope here, see C17)",
               "server shutdown/cancellation is not part of the label alphabet (C18)"]

CHOICES = ([0], [1, -1], [1, 3], [2], [3], [4])


def make_input(naddr, progs, actions, mode):
    log = run_script(naddr, progs, actions, mode)
    labels, _obs, _summary, _mx = convert(naddr, log)
    return [naddr, labels, progs, actions, mode]


def _features(naddr, labels):
    """tags + nontrivial from the label sequence alone"""
    busy = [0] * naddr          # 0 idle, 1 generator live / task pending
    spawned = []
    tags = set()
    queued = False
    for lab in labels:
        k = lab[0]
        if k == L_ARRIVE:
            spawned.append(lab[1])
        elif k == L_HSTART:
            a = spawned.pop(0)
            if busy[a]:
                queued = True
            else:
                busy[a] = 1
            if lab[1]:
                tags.add("handler-suspended")
        elif k == L_TSTART:
            tags.add("restart-by-hook")
        elif k == L_TIMEOUT:
            tags.add("timeout")
        elif k in (L_GRETURN, L_GRAISE):
            tags.add("gen-return" if k == L_GRETURN else "gen-raise")
        elif k == L_GCANCEL:
            tags.add("gen-cancel")
        elif k == L_GSUSP:
            tags.add("gen-suspend")
    # a finish leaves busy only if followed by TaskStart; recompute restarts-after-finish roughly from labels
    if queued:
        tags.add("queued-while-active")
    nontrivial = queued or bool(tags & {"restart-by-hook", "timeout", "handler-suspended"})
    return sorted(tags), nontrivial


def _case(naddr, progs, actions, mode, seen, extra_tags):
    inp = make_input(naddr, progs, actions, mode)
    key = repr((naddr, inp[1]))
    if key in seen:
        return None
    seen.add(key)
    tags, nontrivial = _features(naddr, inp[1])
    ndg = sum(1 for a in actions if a[0] == 0)
    return dict(input=inp, tags=tags + extra_tags + [f"naddr{naddr}", f"datagrams{ndg}", f"labels<={10 * (len(inp[1]) // 10 + 1)}"],
                nontrivial=nontrivial)


def _exhaustive(maxact, maxprog, mode, seen):
    alphabet = ("A", "R", "Q", "V")
    progs_all = [list(p) for n in range(maxprog + 1) for p in itertools.product(CHOICES, repeat=n)]
    for n in range(1, maxact + 1):
        for seq in itertools.product(alphabet, repeat=n):
            if "A" not in seq:
                continue
            actions, k = [], 0
            for x in seq:
                if x == "A":
                    actions.append([0, 0, bytes([97 + k]) if k != 1 else b"!b"])
                    k += 1
                elif x == "R":
                    actions.append([1, 0])
                elif x == "Q":
                    actions.append([3])
                else:
                    actions.append([4, 4])
            for prog in progs_all:
                c = _case(1, [[list(ch) for ch in prog]], actions, mode, seen, ["exhaustive"])
                if c:
                    yield c


def _exhaustive2(maxact, mode, seen):
    """two addresses: every action sequence over {arrive from 0, arrive from 1, release 0, idle} x small programs"""
    alphabet = ("A0", "A1", "R0", "Q")
    small = ([0], [1, -1], [2])
    progs0 = [list(p) for n in range(3) for p in itertools.product(small, repeat=n)]
    progs1 = [[], [[0]], [[2]]]
    for n in range(1, maxact + 1):
        for seq in itertools.product(alphabet, repeat=n):
            if "A0" not in seq:
                continue
            actions, k = [], 0
            for x in seq:
                if x[0] == "A":
                    actions.append([0, int(x[1]), bytes([97 + k])])
                    k += 1
                elif x == "R0":
                    actions.append([1, 0])
                else:
                    actions.append([3])
            for p0 in progs0:
                for p1 in progs1:
                    c = _case(2, [[list(ch) for ch in p0], [list(ch) for ch in p1]], actions, mode, seen, ["exhaustive2"])
                    if c:
                        yield c


def _timeout_cases(seen, thorough):
    """handlers yielding float timeouts (0.0, one tick, none) while datagrams are already queued or arrive later: the
    timeout may fire at any suspension point of the take; nothing taken from the queue may be lost"""
    choices = ([1, 0], [1, 1], [1, -1], [2])
    progs_all = [list(p) for n in range(1, 4) for p in itertools.product(choices, repeat=n)]
    for n in range(1, (4 if thorough else 3) + 1):
        for seq in itertools.product("AQV", repeat=n):
            if "A" not in seq:
                continue
            actions, k = [], 0
            for x in seq:
                if x == "A":
                    actions.append([0, 0, bytes([97 + k])])
                    k += 1
                else:
                    actions.append([3] if x == "Q" else [4, 1])
            actions.append([4, 3])
            for prog in progs_all:
                for mode in ([0, 0], [1, 0]):
                    c = _case(1, [[list(ch) for ch in prog]], actions, mode, seen, ["timeouts"])
                    if c:
                        yield c


def _backlog_cases(seen, thorough):
    """real asyncio listener: B datagrams received before serve() is awaited (pre-serve backlog), then every sequence
    of up to 3 {one loop iteration, late arrival} steps right after serve() starts; the model is plain FIFO"""
    sizes = (0, 1, 2, 31, 32, 33, 34, 40, 64, 65) + ((63, 96, 97, 130) if thorough else ())
    # backlogs well beyond any plausible bound: nothing may be evicted, whatever the number (one script each)
    for naddr, b in ((1, 127), (1, 128), (1, 129), (2, 257), (1, 1000)) + (((2, 3000), (3, 5000)) if thorough else ()):
        actions = [[0, k % naddr, b"D%d" % k] for k in range(b)] + [[5], [0, 0, b"late"], [3]]
        c = _case(naddr, [[] for _ in range(naddr)], actions, [0, 1], seen, ["real-listener", "backlog>=127"])
        if c:
            yield c
    for naddr in (1, 2):
        for b in sizes:
            for n in range(0, 4):
                for seq in itertools.product("TA", repeat=n):
                    actions, k = [], 0
                    for _ in range(b):
                        actions.append([0, k % naddr, b"D%d" % k])
                        k += 1
                    actions.append([5])
                    for x in seq:
                        if x == "T":
                            actions.append([2])
                        else:
                            actions.append([0, k % naddr, b"L%d" % k])
                            k += 1
                    actions.append([3])
                    c = _case(naddr, [[] for _ in range(naddr)], actions, [0, 1], seen, ["real-listener", f"backlog{b}"])
                    if c:
                        yield c


def _eager_cases(seen, thorough):
    """asyncio.eager_task_factory: every action sequence up to length 3 (4 thorough) over {arrive, release, idle} x programs up to
    length 2 over {suspend, yield, return, raise} for one address (in-memory and real listener); with
    VERIF_C16_EAGER_BURST=1 also bursts of hundreds of datagrams for one client whose one-shot handlers never suspend
    (every restart by the task-done hook then happens synchronously inside the previous one)"""
    choices = ([0], [1, -1], [2], [3])
    progs_all = [list(p) for n in range(3) for p in itertools.product(choices, repeat=n)]
    for n in range(1, (5 if thorough else 4)):
        for seq in itertools.product("ARQ", repeat=n):
            if "A" not in seq:
                continue
            actions, k = [], 0
            for x in seq:
                if x == "A":
                    actions.append([0, 0, bytes([97 + k])])
                    k += 1
                else:
                    actions.append([1, 0] if x == "R" else [3])
            for prog in progs_all:
                for mode in ([0, 0, 1], [0, 1, 1]):
                    c = _case(1, [[list(ch) for ch in prog]], actions, mode, seen, ["eager-tasks"])
                    if c:
                        yield c
    if os.environ.get("VERIF_C16_EAGER_BURST", EAGER_BURST_DEFAULT) == "1":
        for b in (170, 400) + ((1000,) if thorough else ()):
            # the first invocation suspends once (the burst is queued behind it), every later one returns after one request
            progs = [[[1, -1], [0]] + [[2], [1, -1]] * b]
            actions = [[0, 0, b"first"], [3]] + [[0, 0, b"D%d" % k] for k in range(b)] + [[3], [1, 0], [3]]
            c = _case(1, progs, actions, [0, 0, 1], seen, ["eager-tasks", "eager-burst"])
            if c:
                yield c


# "1" once the restart no longer nests under asyncio.eager_task_factory (meta/fixes/C16_eager_restart_recursion.diff)
EAGER_BURST_DEFAULT = "0"


def _random_case(rng, seen, thorough):
    naddr = rng.choice([1, 2, 2, 3, 3])
    ndg = rng.randint(1, 6)
    mode = [rng.choice([0, 0, 1]), rng.choice([0, 0, 1]), rng.choice([0, 0, 1])]
    progs = []
    for _ in range(naddr):
        n = rng.randint(0, 6 if not thorough else 9)
        progs.append([list(rng.choice(CHOICES + ([1, rng.choice([0, 1, 2, 5])],))) for _ in range(n)])
    actions, k = [], 0
    while k < ndg:
        r = rng.random()
        if r < 0.5:
            actions.append([0, rng.randrange(naddr), (b"!" if rng.random() < 0.2 else b"") + bytes([97 + k])])
            k += 1
        elif r < 0.7:
            actions.append([1, rng.randrange(naddr)])
        elif r < 0.8:
            actions.append([2])
        elif r < 0.92:
            actions.append([3])
        else:
            actions.append([4, rng.choice([1, 2, 3, 5, 8])])
    for _ in range(rng.randint(0, 4)):
        actions.append(rng.choice([[1, rng.randrange(naddr)], [3], [2], [4, rng.choice([1, 3, 6])]]))
    if mode[1] and rng.random() < 0.5:
        actions.insert(rng.randrange(len(actions) + 1), [5])
    return _case(naddr, progs, actions, mode, seen, ["random", "yieldcond" if mode[0] else "plaincond"] +
                 (["real-listener"] if mode[1] else []) + (["eager-tasks"] if mode[2] else []))


def cases(tier, rng, escalate):
    thorough = tier == "thorough" or escalate
    seen = set()
    yield from _exhaustive(5 if thorough else 4, 2, [0], seen)
    if thorough:
        yield from _exhaustive(4, 3, [0], seen)
    yield from _exhaustive(4, 2, [1], seen)
    yield from _exhaustive2(5 if thorough else 4, [0], seen)
    if thorough:
        yield from _exhaustive2(4, [1], seen)
    yield from _backlog_cases(seen, thorough)
    yield from _timeout_cases(seen, thorough)
    yield from _listener_cases(thorough)
    yield from _eager_cases(seen, thorough)
    n = 12000 if thorough else 2500
    for _ in range(n):
        c = _random_case(rng, seen, thorough)
        if c:
            yield c


# ------------------------------------------------------------------------------------------------ property oracle
def _analyse(naddr, log, where):
    """the property, on an event log of the real server"""
    arrived = [[] for _ in range(naddr)]
    consumed = [0] * naddr           # datagrams taken over by generators so far (requests + documented discards)
    active = [0] * naddr
    yielded = [False] * naddr
    for ev in log:
        k = ev[0]
        if k == "hang":
            return f"hang: the server (or its tear-down) waits for something that can never happen ({where})"
        if k == "crash":
            return f"crash: serve() terminated ({where})"
        if k == "gcancelled":
            return f"unexpected: generator got {k} ({where})"
        if k == "arrive":
            arrived[ev[1]].append(ev[2])
        elif k == "gennew":
            a = ev[1]
            active[a] += 1
            if active[a] > 1:
                return f"two-generators: address {a} has {active[a]} active generators ({where})"
            yielded[a] = False
        elif k == "gyield":
            yielded[ev[1]] = True
        elif k == "grecv":
            a = ev[1]
            if consumed[a] >= len(arrived[a]) or arrived[a][consumed[a]] != ev[2]:
                exp = arrived[a][consumed[a]] if consumed[a] < len(arrived[a]) else None
                return f"fifo: address {a} handler received {ev[2]!r}, expected {exp!r} ({where})"
            consumed[a] += 1
        elif k in ("greturn", "graise", "gcancel"):
            a = ev[1]
            active[a] -= 1
            if not yielded[a]:
                consumed[a] += 1          # documented discard: returned before the first yield
    return arrived, consumed, active


def oracle(inp):
    if inp[0] == -2:
        return eager_burst_probe(inp[1], inp[2], inp[3])
    if inp[0] == -1:
        got, _ = run_listener(inp[1])
        want = [[lab[1], bytes(lab[2])] for lab in inp[1] if lab[0] == 0]
        kinds = [lab[0] for lab in inp[1]]
        serving_at_end = bool(kinds) and (1 in kinds) and (2 not in kinds[len(kinds) - 1 - kinds[::-1].index(1):])
        for g in got:
            if g[0] == -1:
                return f"listener-serve-ended: {g[1].decode()} although nobody cancelled it"
        if serving_at_end and got != want:
            return f"listener-conservation: the transport delivered {want!r}, the listener started handler tasks for {got!r}"
        return None
    naddr, _labels, progs, actions, mode = inp[:5]
    state = {}

    async def final(run, quiesce, srv):
        state["mid"] = (list(run.log), set(run.gates))
        for _ in range(400):
            if srv.done():
                break
            gates = [f for f in run.gates.values() if not f.done()]
            if not gates:
                break
            for f in gates:
                f.set_result(None)
            await quiesce()

    log = run_script(naddr, progs, actions, mode, final_hook=final)
    mid_log, mid_gates = state.get("mid", (log, set()))
    r = _analyse(naddr, mid_log, "when idle")
    if isinstance(r, str):
        return r
    arrived, consumed, _active = r
    for a in range(naddr):
        if consumed[a] < len(arrived[a]) and a not in mid_gates:
            return (f"starved: address {a} has {len(arrived[a]) - consumed[a]} unhandled datagram(s) although the server "
                    f"is idle and its handler is not suspended in user code")
    r = _analyse(naddr, log, "after releasing every handler")
    if isinstance(r, str):
        return r
    arrived, consumed, _active = r
    for a in range(naddr):
        if consumed[a] != len(arrived[a]):
            return f"dropped: address {a}: {len(arrived[a])} datagrams arrived, {consumed[a]} handled after every handler was released"
    return None


def signature(inp, failure):
    return failure.split(":")[0]


def shrink(inp):
    if inp[0] in (-1, -2):
        return
    naddr, _labels, progs, actions, mode = inp[:5]
    for i in range(len(actions)):
        yield make_input(naddr, progs, actions[:i] + actions[i + 1:], mode)
    for a in range(len(progs)):
        for i in range(len(progs[a])):
            p2 = [list(p) for p in progs]
            del p2[a][i]
            yield make_input(naddr, p2, actions, mode)
    if mode and mode[0]:
        yield make_input(naddr, progs, actions, [0] + list(mode[1:]))


def extra(ctx):
    """the theorems cover label sequences without `GCancel _ false`; if the implementation produces that label (the hook
    does not restart after a generator that ended with the cancelled exception) the property is not shown to hold"""
    restarts = hook_restarts_after_generator_cancel()
    if not restarts:
        ctx.problems.append(dict(
            kind="proof",
            detail="implementation takes the transition GCancel _ false (no restart after a generator ended with the "
                   "cancelled exception while the server keeps running): outside `Forall ok_label`, refuted by "
                   "state_none_implies_queue_empty_refuted_without_restart"))
    probe = push_appends_before_first_suspension()
    if probe is False:
        ctx.problems.append(dict(
            kind="proof",
            detail="model hypothesis refuted: _ClientData.push_datagram() does not append to the queue before its first "
                   "suspension point when the condition variable's acquire yields (trio semantics); HStart appends first"))
    return dict(hook_restarts_after_generator_cancel=restarts, push_appends_before_first_suspension=probe)


def push_appends_before_first_suspension():
    """behavioural check of the hypothesis behind HStart ("append BEFORE any await"): the real push_datagram of a client
    that already has a task, with a condition variable whose acquire yields first (what trio's does); the queue is
    inspected at the coroutine's first suspension.  None = the private API has another shape (the yieldcond traces of
    the correspondence still decide it)."""
    try:
        from easynetwork.lowlevel.api_async.servers.datagram import _ClientData

        class YieldFirst:
            async def __aenter__(self):
                await asyncio.sleep(0)
                return self

            async def __aexit__(self, *args):
                return None

            def notify(self, n=1):
                return None

        class B:
            def create_condition_var(self, lock=None):
                return YieldFirst()

        async def main():
            cd = _ClientData(B())
            cd.mark_pending()
            coro = cd.push_datagram(b"x")
            try:
                coro.send(None)         # run to the first suspension point
            except StopIteration:
                return None             # never suspended: nothing to check
            ok = (not cd.queue_is_empty())
            coro.close()
            return ok

        return detloop.run(main(), max_steps=1000)
    except (ImportError, AttributeError, TypeError):
        return None


if __name__ == "__main__":
    # re-record the label trace of a replay file on the current tree (the labels in a replay file are those of the
    # tree that produced it):  python3 -m c16 rerecord replays/C16/failing_input.json  -> writes <file>.rerecorded.json
    import json
    import sys

    from common import sx as _sx
    if len(sys.argv) == 3 and sys.argv[1] == "rerecord":
        j = json.load(open(sys.argv[2]))
        i = _sx.from_text(j["input_sx"])
        fresh = make_input(i[0], i[2], i[3], i[4])
        out = sys.argv[2][:-5] + ".rerecorded.json"
        json.dump(dict(property="C16", input_sx=_sx.to_text(fresh), note="labels re-recorded"), open(out, "w"), indent=1)
        print(out)
