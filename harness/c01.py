"""C01 — stream round-trip: packets survive any chunking of the byte stream."""
from __future__ import annotations

import itertools
import struct as _struct

from common import streamcase as sc
from common import streamcase2 as sc2
from easynetwork.protocol import StreamProtocol

PROPERTY_ID = "C01"
RUN_MODULE = "Run.C01"
PARAMS_FROM = ["c06"]       # Run.C01 dispatches kinds 4-8 to Run.C06, which reads Gen/ParamsC06.v
PROPS_FILE = "Props/C01.v"
ALLOWED_AXIOMS = []
ANCHORS = [
    ("src/easynetwork/serializers/tools.py", "GeneratorStreamReader.read_until"),
    ("src/easynetwork/serializers/tools.py", "GeneratorStreamReader.read_exactly"),
    ("src/easynetwork/serializers/base_stream.py", "_buffered_readuntil"),
    ("src/easynetwork/serializers/base_stream.py", "AutoSeparatedPacketSerializer.incremental_serialize"),
    ("src/easynetwork/serializers/base_stream.py", "AutoSeparatedPacketSerializer.incremental_deserialize"),
    ("src/easynetwork/serializers/base_stream.py", "AutoSeparatedPacketSerializer.buffered_incremental_deserialize"),
    ("src/easynetwork/serializers/base_stream.py", "FixedSizePacketSerializer.incremental_deserialize"),
    ("src/easynetwork/serializers/base_stream.py", "FixedSizePacketSerializer.buffered_incremental_deserialize"),
    ("src/easynetwork/serializers/base_stream.py", "FixedSizePacketSerializer.create_deserializer_buffer"),
    ("src/easynetwork/serializers/line.py", "StringLineSerializer.incremental_serialize"),
    ("src/easynetwork/serializers/base_stream.py", "FixedSizePacketSerializer.incremental_serialize"),
    ("src/easynetwork/serializers/line.py", "StringLineSerializer.incremental_deserialize"),
    ("src/easynetwork/serializers/line.py", "StringLineSerializer.buffered_incremental_deserialize"),
    ("src/easynetwork/serializers/wrapper/base64.py", "Base64EncoderSerializer.serialize"),
    ("src/easynetwork/serializers/wrapper/base64.py", "Base64EncoderSerializer.deserialize"),
    ("src/easynetwork/protocol.py", "StreamProtocol.build_packet_from_chunks"),
    ("src/easynetwork/protocol.py", "StreamProtocol.generate_chunks"),
    ("src/easynetwork/protocol.py", "BufferedStreamProtocol.build_packet_from_buffer"),
    ("src/easynetwork/lowlevel/_stream.py", "StreamDataConsumer.next"),
    ("src/easynetwork/lowlevel/_stream.py", "BufferedStreamDataConsumer.next"),
    ("src/easynetwork/lowlevel/_stream.py", "BufferedStreamDataConsumer.get_write_buffer"),
    ("src/easynetwork/lowlevel/_stream.py", "BufferedStreamDataConsumer.__save_remainder_in_buffer"),
    ("src/easynetwork/serializers/json.py", "_JSONParser.raw_parse"),
    ("src/easynetwork/serializers/json.py", "_JSONParser._split_partial_document"),
    ("src/easynetwork/serializers/json.py", "_JSONParser._escaped"),
    ("src/easynetwork/serializers/json.py", "JSONSerializer.incremental_serialize"),
    ("src/easynetwork/serializers/json.py", "JSONSerializer.incremental_deserialize"),
    ("src/easynetwork/serializers/base_stream.py", "FileBasedPacketSerializer.__generic_incremental_deserialize"),
    ("src/easynetwork/serializers/base_stream.py", "_wrap_generic_incremental_deserialize"),
    ("src/easynetwork/serializers/base_stream.py", "_wrap_generic_buffered_incremental_deserialize"),
    ("src/easynetwork/serializers/wrapper/compressor.py", "AbstractCompressorSerializer.incremental_serialize"),
    ("src/easynetwork/serializers/wrapper/compressor.py", "AbstractCompressorSerializer.__generic_incremental_deserialize"),
]
RULE = ("packet lists of length 0-4 for: StringLineSerializer (LF/CR/CRLF x keep_end x ascii/latin-1), AutoSeparated test "
        "subclass (separators of 1-3 bytes incl. self-overlapping), Base64EncoderSerializer (standard/urlsafe x checksum, "
        "separators 1-2 bytes), StructSerializer and a FixedSize test subclass, JSONSerializer line mode; byte stream "
        "produced by the real StreamProtocol.generate_chunks; every chunking of streams <= 10 bytes, all single cuts, "
        "byte-by-byte and random k-cuts beyond; buffer-filling consumer with size hints 1..64. Non-trivial = >= 2 "
        "packets and a cut strictly inside a frame's separator/fixed-size record, or a chunk spanning two frames.")
TRUSTED = ["models coq/Frame/{ReadUntil,BufReadUntil}.v, coq/Stream/Consumer.v hand-written from the source",
           "inner one-shot codecs (str codecs, base64, struct, json) enter the model as a decode table computed by "
           "calling the real deserialize() on every payload the framing can extract"]
ASSUMPTIONS = ["theorem hypothesis valid_pkt: dec(enc p)=p, the separator first occurs in enc p ++ sep at its end, "
               "payload within the limit (buffer-filling path: payload + separator < limit)"]


def gen_packet(impl, sep, rng, maxlen, conv=False):
    name = impl[0]
    n = rng.choice([1, 1, 2, 3, maxlen])
    if conv:
        return "".join(rng.choice("0123456789" if rng.random() < 0.85 else "a ") for _ in range(n))
    if name in (b"autosep", b"b64"):
        alphabet = bytes(set(sep or b"")) + b"xyz\x00\xff"
        return bytes(rng.choice(alphabet) for _ in range(n))
    if name == b"line":
        alphabet = "ab\r\n \xe9" if impl[1] == b"latin-1" else "ab\r\n c"
        return "".join(rng.choice(alphabet) for _ in range(n))
    if name == b"fixed":
        return bytes(rng.randrange(256) for _ in range(maxlen))
    if name == b"struct":
        return (rng.randrange(-128, 128), rng.randrange(0, 65536))
    if name == b"jsonl":
        return rng.choice([1, "a", [1, 2], {"k": "v\n"}, None, True, [], {}, "é", 1.5, [[1]], "\\", '"'])
    raise ValueError(name)


def configs(thorough):
    out = []
    for nl, sep in (("LF", b"\n"), ("CR", b"\r"), ("CRLF", b"\r\n")):
        for keep_end in (False, True):
            for enc in (b"ascii", b"latin-1"):
                out.append(dict(kinds=(0, 1), sep=sep, keep_end=keep_end, impl=[b"line", enc]))
    for sep in (b"\n", b"\r\n", b"aa", b"aba", b"abc"):
        out.append(dict(kinds=(0, 1), sep=sep, keep_end=False, impl=[b"autosep"]))
    for alphabet in (b"standard", b"urlsafe"):
        for checksum in (0, 1):
            for sep in (b"\r\n", b"\n"):
                out.append(dict(kinds=(0, 1), sep=sep, keep_end=False, impl=[b"b64", alphabet, checksum]))
    for sep in (b"\n", b"\r\n"):
        out.append(dict(kinds=(11, 12), sep=sep, keep_end=False, impl=[b"line", b"ascii"], conv=True))
    out.append(dict(kinds=(2, 3), size=3, impl=[b"fixed"]))
    out.append(dict(kinds=(2, 3), size=_struct.calcsize("!bH"), impl=[b"struct", b"!bH"]))
    out.append(dict(kinds=(0,), sep=b"\n", keep_end=True, impl=[b"jsonl"]))
    return out


def base_kind(kind):
    return kind - 11 if kind in (11, 12) else kind


def build(cfgd, kind, pkts, limit, hint):
    if base_kind(kind) in (0, 1):
        cfg = [cfgd["sep"], limit, int(cfgd["keep_end"])] + ([hint] if base_kind(kind) == 1 else [])
    else:
        cfg = [cfgd["size"]] + ([hint] if kind == 3 else [])
    ser = sc.make_serializer(base_kind(kind), cfg, cfgd["impl"])
    proto = StreamProtocol(ser)
    stream, sent = b"", []
    for p in pkts:
        try:
            data = b"".join(proto.generate_chunks(p))
        except Exception:
            return None
        stream += data
        sent.append(sc.canon_packet(p))
    name = cfgd["impl"][0]
    if name == b"line":
        dec = 1 if cfgd["impl"][1] == b"ascii" else 0
    elif name in (b"autosep", b"fixed"):
        dec = 0
    else:
        dec = None      # table computed once validity is known
    return kind, cfg, dec, stream, sent


def validity(cfgd, kind, cfg, stream, sent, pkts):
    """valid_pkt of the theorem, checked on the real serializer: every frame's separator first occurs at its end,
    payload non-empty (an empty payload is not transmitted at all), within the band."""
    if kind in (2, 3):
        return True
    if cfgd.get("conv") and not all(p and all("0" <= ch <= "9" for ch in p) for p in pkts):
        return False
    sep, limit = cfg[0], cfg[1]
    ser = sc.make_serializer(base_kind(kind), cfg, cfgd["impl"])
    proto = StreamProtocol(ser)
    for p in pkts:
        data = b"".join(proto.generate_chunks(p))
        if not data or not data.endswith(sep):
            return False
        payload = data[: -len(sep)]
        if data.find(sep) != len(payload):
            return False
        if cfgd["impl"][0] == b"line" and not cfgd["keep_end"]:
            pass
        if len(payload) + len(sep) + 1 > limit:
            return False
        try:
            back = ser.deserialize(data if cfgd["keep_end"] else payload)
        except Exception:
            return False
        if back != p:
            return False
    return True


def ser_cases(tier, rng, escalate):
    """the sending side (kind 10 of Run/Stream.v): incremental_serialize of line / AutoSeparated / FixedSize"""
    thorough = tier == "thorough" or escalate
    n = 400 if thorough else 60
    seps = [b"\n", b"\r", b"\r\n", b"aa", b"aba", b"abc"]
    for _ in range(n):
        sep = rng.choice(seps)
        alphabet = bytes(set(sep)) + b"xy \r\n"
        ln = rng.choice([0, 1, 2, 3, 5, 8])
        data = bytes(rng.choice(alphabet) for _ in range(ln))
        if rng.random() < 0.3:
            data += sep[: rng.randrange(1, len(sep) + 1)]          # ends with a (partial) separator
        if sep in sc.NEWLINES:
            yield dict(input=[10, 0, [sep], data, [b"line", rng.choice([b"ascii", b"latin-1"])]],
                       tags=["kind10", "ser-line", "ends-with-sep-byte" if data[-1:] and data[-1] in sep else "plain"],
                       nontrivial=bool(data) and data[-1] in sep)
        check = rng.choice([0, 1])
        yield dict(input=[10, 1, [sep, check], data, [b"autosep"]],
                   tags=["kind10", "ser-autosep", f"check{check}", "contains-sep" if sep in data else "no-sep"],
                   nontrivial=bool(data) and (sep in data or data[-1] in sep))
        size = rng.choice([1, 3, 4])
        yield dict(input=[10, 2, [size], data, [b"fixed"]], tags=["kind10", "ser-fixed"], nontrivial=len(data) == size)


JSON_DOCS = [[1], {"a": "b"}, 'x"y', "\\", 12, None, True, [[]], {"k": [1, {"z": "}"}]}, "[", 1.5, "a]b", [], {}, "\\\""]


def generic_cases(tier, rng, escalate):
    """raw JSON (kind 4), file based (5/6) and zlib/bz2 compressors (7/8): streams of valid packets produced by the real
    serializers, every chunking of short streams / cuts everywhere; model = Run/C06.v with library oracles tabulated by
    calling the libraries"""
    thorough = tier == "thorough" or escalate
    reps = 12 if thorough else 3
    import zlib
    from common import excodes
    zexp, bexp = excodes.caught_by([zlib.error]), excodes.caught_by([OSError])
    confs = [(4, [200], [b"jsonraw"]), (5, [200, sc2.FB_EXPECTED], [b"fb", b"eager"]),
             (6, [200, sc2.FB_EXPECTED, 7], [b"fb", b"eager"]),
             (7, [zexp], [b"zlib", b"bytes"]), (8, [zexp, 16], [b"zlib", b"bytes"]),
             (7, [bexp], [b"bz2", b"bytes"])]
    for kind, cfg, impl in confs:
        for _ in range(reps):
            npk = rng.choice([1, 2, 2, 3])
            if kind == 4:
                pkts = [rng.choice(JSON_DOCS) for _ in range(npk)]
            else:
                pkts = [bytes(rng.choice(b"ab\x00\xff") for _ in range(rng.choice([1, 2, 4]))) for _ in range(npk)]
            family, fcfg, hint = sc2.simple_family(kind, _fix_cfg(kind, cfg), impl)
            ser = sc2.make_serializer(family, fcfg, impl)
            proto = StreamProtocol(ser)
            stream = b"".join(b"".join(proto.generate_chunks(p)) for p in pkts)
            sent = [sc2.canon_packet(p) for p in pkts]
            if len(stream) <= (9 if thorough else 7):
                chunkings = list(sc.all_chunkings(stream))
                tag = "all-chunkings"
            else:
                tag = "cuts"
                chunkings = [[stream], [stream[i:i + 1] for i in range(len(stream))]]
                cuts = list(range(1, len(stream)))
                for c in (cuts if thorough or len(cuts) <= 24 else rng.sample(cuts, 24)):
                    chunkings.append(sc.cuts_to_chunks(stream, [c]))
                for _k in range(6 if thorough else 2):
                    chunkings.append(sc.cuts_to_chunks(stream, [rng.randrange(1, len(stream)) for _ in range(rng.randrange(2, 5))]))
            for chunks in chunkings:
                case = sc2.make_simple_case(kind, _fix_cfg(kind, cfg), impl, chunks)
                yield dict(input=case + [sent, 1], tags=[f"kind{kind}", impl[0].decode(), tag, f"npk{npk}", "valid"],
                           nontrivial=bool(npk >= 2 and len(chunks) >= 2))


def _fix_cfg(kind, cfg):
    return cfg


def cases(tier, rng, escalate):
    yield from ser_cases(tier, rng, escalate)
    yield from recv_cases(tier, rng, escalate)
    yield from generic_cases(tier, rng, escalate)


def recv_cases(tier, rng, escalate):
    thorough = tier == "thorough" or escalate
    reps = 14 if thorough else 3
    for cfgd in configs(thorough):
        for kind in cfgd["kinds"]:
            for _ in range(reps):
                npk = rng.choice([0, 1, 2, 2, 3, 4])
                limit = rng.choice([8, 16, 40, 120, 120])
                hint = rng.choice([1, 2, 3, 5, 8, 64])
                maxlen = cfgd.get("size", 3)
                pkts = [gen_packet(cfgd["impl"], cfgd.get("sep"), rng, maxlen, cfgd.get("conv", False)) for _ in range(npk)]
                b = build(cfgd, kind, pkts, limit, hint)
                if b is None:
                    continue
                kind_, cfg, dec, stream, sent = b
                if not stream:
                    continue
                valid = validity(cfgd, kind, cfg, stream, sent, pkts)
                if dec is None:
                    if not valid and len(stream) > 48:
                        continue    # overruns restart mid-frame: the decode table would have to cover every position
                    dec = sc.decode_table(base_kind(kind), cfg, cfgd["impl"], stream, "frames" if valid else "all")
                chunkings = []
                if len(stream) <= (10 if thorough else 8):
                    chunkings = list(sc.all_chunkings(stream))
                    tag = "all-chunkings"
                else:
                    tag = "cuts"
                    chunkings.append([stream])
                    chunkings.append([stream[i:i + 1] for i in range(len(stream))])
                    for c in range(1, len(stream)):
                        chunkings.append(sc.cuts_to_chunks(stream, [c]))
                    for _k in range(8 if thorough else 3):
                        k = rng.randrange(2, 5)
                        chunkings.append(sc.cuts_to_chunks(stream, [rng.randrange(1, len(stream)) for _ in range(k)]))
                for chunks in chunkings:
                    yield dict(input=[kind, cfg, dec, chunks, cfgd["impl"], sent, int(valid)],
                               tags=[f"kind{kind}", cfgd["impl"][0].decode(), tag, f"npk{min(npk, 3)}",
                                     "valid" if valid else "excluded-input"],
                               nontrivial=bool(npk >= 2 and len(chunks) >= 2))


def _ser_setup(inp):
    _k, variant, cfg, data, impl = inp[:5]
    if variant == 0:
        from easynetwork.serializers.line import StringLineSerializer
        ser = StringLineSerializer(sc.NEWLINES[cfg[0]], encoding=impl[1].decode(), limit=1000)
        return ser, data.decode("latin-1")
    if variant == 1:
        return sc.IdAutoSep(cfg[0], 1000, incremental_serialize_check_separator=bool(cfg[1])), data
    return sc.IdFixed(cfg[0]), data


def run_impl(inp):
    if 4 <= inp[0] <= 8:
        return sc2.run_impl(inp)
    if inp[0] != 10:
        return sc.run_impl(inp)
    ser, packet = _ser_setup(inp)
    if inp[1] == 0 and inp[4][1] == b"ascii" and any(b >= 128 for b in inp[3]):
        return [2]
    try:
        return [0, [bytes(c) for c in ser.incremental_serialize(packet)]]
    except ValueError:
        return [1]


def ser_oracle(inp):
    """a transmittable packet must come out of the receiving side unchanged"""
    _k, variant, cfg, data, impl = inp[:5]
    out = run_impl(inp)
    if out[0] != 0:
        return None
    stream = b"".join(out[1])
    ser, packet = _ser_setup(inp)
    if variant == 2:
        return None if stream == data else f"fixed-size frame differs from serialize(): {stream!r}"
    sep = cfg[0]
    if not data or (data + sep).find(sep) != len(data):
        return None        # documented as not transmittable (empty, or contains / ends into the separator)
    from easynetwork.lowlevel._stream import StreamDataConsumer
    from easynetwork.protocol import StreamProtocol
    consumer = StreamDataConsumer(StreamProtocol(ser))
    try:
        got = consumer.next(stream)
    except StopIteration:
        return f"packet {packet!r} serialized to {stream!r} is not received back (incomplete frame)"
    except Exception as exc:
        return f"packet {packet!r} serialized to {stream!r} raises {type(exc).__name__} on receipt"
    if got != packet or bytes(consumer.get_buffer()):
        return f"packet {packet!r} serialized to {stream!r} is received as {got!r}"
    return None


def oracle(inp):
    if inp[0] == 10:
        return ser_oracle(inp)
    kind, cfg, _dec, chunks, impl, sent, valid = inp[:7]
    if not valid:
        return None
    rounds = run_impl(inp)
    events = [e for r in rounds for e in r[1]]
    got = [e[1] for e in events if e[0] == 0]
    bad = [e for e in events if e[0] != 0]
    if bad:
        return f"error reported on a stream of valid packets: {bad[0][:2]}"
    if got != list(sent):
        return f"received packets differ from sent: sent={sent!r} got={got!r}"
    if kind in (0, 2, 11, 4, 5, 7):      # copying consumer: get_buffer() is the unconsumed remainder
        held = rounds[-1][2] if rounds else b""
        if held:
            return f"leftover after the last packet: {held!r}"
    return None


def signature(inp, failure):
    return failure.split(":")[0]


def shrink(inp):
    if inp[0] == 10:
        data = inp[3]
        for i in range(len(data)):
            yield [10, inp[1], inp[2], data[:i] + data[i + 1:], inp[4]]
        return
    kind, cfg, dec, chunks = inp[:4]
    for i in range(len(chunks) - 1):
        yield [kind, cfg, dec, chunks[:i] + [chunks[i] + chunks[i + 1]] + chunks[i + 2:]] + list(inp[4:])
