"""C01 — stream round-trip: packets survive any chunking of the byte stream."""
from __future__ import annotations

import itertools
import struct as _struct

from common import streamcase as sc
from common import streamcase2 as sc2
from easynetwork.protocol import StreamProtocol

PROPERTY_ID = "C01"
RUN_MODULE = "Run.C01"
PARAMS_FROM = ["c06"]       # Run.C01 dispatches kinds 4-8 to Run.C06, which reads Gen/ParamsC06.v
PROPS_FILE = "Props/C01.v"
ALLOWED_AXIOMS = []
ANCHORS = [
    ("src/easynetwork/serializers/tools.py", "GeneratorStreamReader.read_until"),
    ("src/easynetwork/serializers/tools.py", "GeneratorStreamReader.read_exactly"),
    ("src/easynetwork/serializers/base_stream.py", "_buffered_readuntil"),
    ("src/easynetwork/serializers/base_stream.py", "AutoSeparatedPacketSerializer.incremental_serialize"),
    ("src/easynetwork/serializers/base_stream.py", "AutoSeparatedPacketSerializer.incremental_deserialize"),
    ("src/easynetwork/serializers/base_stream.py", "AutoSeparatedPacketSerializer.buffered_incremental_deserialize"),
    ("src/easynetwork/serializers/base_stream.py", "FixedSizePacketSerializer.incremental_deserialize"),
    ("src/easynetwork/serializers/base_stream.py", "FixedSizePacketSerializer.buffered_incremental_deserialize"),
    ("src/easynetwork/serializers/base_stream.py", "FixedSizePacketSerializer.create_deserializer_buffer"),
    ("src/easynetwork/serializers/base_stream.py", "AutoSeparatedPacketSerializer.create_deserializer_buffer"),
    ("src/easynetwork/serializers/line.py", "StringLineSerializer.create_deserializer_buffer"),
    ("src/easynetwork/serializers/line.py", "StringLineSerializer.incremental_serialize"),
    ("src/easynetwork/serializers/base_stream.py", "FixedSizePacketSerializer.incremental_serialize"),
    ("src/easynetwork/serializers/line.py", "StringLineSerializer.incremental_deserialize"),
    ("src/easynetwork/serializers/line.py", "StringLineSerializer.buffered_incremental_deserialize"),
    ("src/easynetwork/serializers/struct.py", "NamedTupleStructSerializer.iter_values"),
    ("src/easynetwork/serializers/struct.py", "NamedTupleStructSerializer.from_tuple"),
    ("src/easynetwork/serializers/wrapper/base64.py", "Base64EncoderSerializer.serialize"),
    ("src/easynetwork/serializers/wrapper/base64.py", "Base64EncoderSerializer.deserialize"),
    ("src/easynetwork/protocol.py", "StreamProtocol.build_packet_from_chunks"),
    ("src/easynetwork/protocol.py", "StreamProtocol.generate_chunks"),
    ("src/easynetwork/protocol.py", "BufferedStreamProtocol.build_packet_from_buffer"),
    ("src/easynetwork/lowlevel/_stream.py", "StreamDataConsumer.next"),
    ("src/easynetwork/lowlevel/_stream.py", "BufferedStreamDataConsumer.next"),
    ("src/easynetwork/lowlevel/_stream.py", "BufferedStreamDataConsumer.get_write_buffer"),
    ("src/easynetwork/lowlevel/_stream.py", "BufferedStreamDataConsumer.__save_remainder_in_buffer"),
    ("src/easynetwork/serializers/json.py", "_JSONParser.raw_parse"),
    ("src/easynetwork/serializers/json.py", "_JSONParser._split_partial_document"),
    ("src/easynetwork/serializers/json.py", "_JSONParser._escaped"),
    ("src/easynetwork/serializers/json.py", "JSONSerializer.incremental_serialize"),
    ("src/easynetwork/serializers/json.py", "JSONSerializer.incremental_deserialize"),
    ("src/easynetwork/serializers/base_stream.py", "FileBasedPacketSerializer.__generic_incremental_deserialize"),
    ("src/easynetwork/serializers/base_stream.py", "_wrap_generic_incremental_deserialize"),
    ("src/easynetwork/serializers/base_stream.py", "_wrap_generic_buffered_incremental_deserialize"),
    ("src/easynetwork/serializers/composite.py", "StapledPacketSerializer.__new__"),
    ("src/easynetwork/serializers/composite.py", "StapledIncrementalPacketSerializer.incremental_deserialize"),
    ("src/easynetwork/serializers/composite.py", "StapledBufferedIncrementalPacketSerializer.buffered_incremental_deserialize"),
    ("src/easynetwork/serializers/composite.py", "StapledBufferedIncrementalPacketSerializer.create_deserializer_buffer"),
    ("src/easynetwork/serializers/wrapper/compressor.py", "AbstractCompressorSerializer.incremental_serialize"),
    ("src/easynetwork/serializers/wrapper/compressor.py", "AbstractCompressorSerializer.__generic_incremental_deserialize"),
]
RULE = ("packet lists of length 0-4 for: StringLineSerializer (LF/CR/CRLF x keep_end x ascii/latin-1), AutoSeparated test "
        "subclass (separators of 1-3 bytes incl. self-overlapping), Base64EncoderSerializer (standard/urlsafe x checksum, "
        "separators 1-2 bytes), StructSerializer and a FixedSize test subclass, JSONSerializer line mode; byte stream "
        "produced by the real StreamProtocol.generate_chunks; every chunking of streams <= 10 bytes, all single cuts, "
        "byte-by-byte and random k-cuts beyond; buffer-filling consumer with size hints 1..64; raw JSON, file-based and "
        "compressor framers; every shipped serializer end to end (kind 20); StapledPacketSerializer for every constructor "
        "and capability pair (kind 30); the base64 codec for every payload length 0..19/49 (kind 31). Non-trivial = >= 2 "
        "packets and a cut strictly inside a frame's separator/fixed-size record, or a chunk spanning two frames.")
TRUSTED = ["models coq/Frame/{ReadUntil,BufReadUntil}.v, coq/Stream/Consumer.v hand-written from the source",
           "inner one-shot codecs (str codecs, base64, struct, json) enter the model as a decode table computed by "
           "calling the real deserialize() on every payload the framing can extract"]
ASSUMPTIONS = ["theorem hypothesis valid_pkt: dec(enc p)=p, the separator first occurs in enc p ++ sep at its end, "
               "payload within the limit (buffer-filling path: payload + separator < limit)"]


# ------------------------------------------------------------------ StapledPacketSerializer.__new__ -> Gen/ParamsC01.v

def stapled_rank(obj):
    from easynetwork.serializers import composite
    return (2 if isinstance(obj, composite.StapledBufferedIncrementalPacketSerializer)
            else 1 if isinstance(obj, composite.StapledIncrementalPacketSerializer) else 0)


def params():
    """Which stapled class a pair of serializers becomes, as the Coq function stapled_class cls sent_capability
    received_capability (classes / capabilities / ranks: 0 one-shot, 1 incremental, 2 buffer-filling).  The domain is
    finite (3 x 3 x 3): the function is tabulated COMPLETELY by calling the real constructors on halves of every
    capability, so the table is the dispatch of StapledPacketSerializer.__new__ itself, whatever its source looks like."""
    from common.runner import TranslateError
    rows = []
    for cls in range(3):
        for s_cap in range(3):
            for r_cap in range(3):
                try:
                    obj = _stapled_build(cls, s_cap, r_cap, sc.IdAutoSep(b"\n", 100))
                except Exception as exc:
                    raise TranslateError(f"StapledPacketSerializer: constructor {cls} on capabilities ({s_cap}, {r_cap}) "
                                         f"raised {type(exc).__name__}: {exc}")
                rows.append((cls, s_cap, r_cap, stapled_rank(obj)))
    out = ["From Coq Require Import ZArith Bool.", "Local Open Scope Z_scope.",
           "(* serializers/composite.py: class of the object built by calling constructor cls (0 StapledPacketSerializer,",
           "   1 StapledIncrementalPacketSerializer, 2 StapledBufferedIncrementalPacketSerializer) on halves of capabilities",
           "   s (sent) and r (received) (0 one-shot, 1 incremental, 2 buffered incremental): complete table obtained by",
           "   calling the real constructors *)",
           "Definition stapled_class (cls s r : Z) : Z :="]
    for cls, s_cap, r_cap, rank in rows:
        out.append(f"  if (cls =? {cls}) && (s =? {s_cap}) && (r =? {r_cap}) then {rank} else")
    out.append("  cls.")
    return "\n".join(out) + "\n"


def gen_packet(impl, sep, rng, maxlen, conv=False):
    name = impl[0]
    n = rng.choice([1, 1, 2, 3, maxlen])
    if conv:
        return "".join(rng.choice("0123456789" if rng.random() < 0.85 else "a ") for _ in range(n))
    if name in (b"autosep", b"b64"):
        alphabet = bytes(set(sep or b"")) + b"xyz\x00\xff"
        return bytes(rng.choice(alphabet) for _ in range(n))
    if name == b"line" and len(impl) > 2:
        # unicode_errors="surrogateescape": any byte string is a valid line (undecodable bytes become lone surrogates)
        raw = bytes(rng.choice(b"ab \xe9\xff\x80") for _ in range(n))
        return raw.decode(impl[1].decode(), impl[2].decode())
    if name == b"line":
        if rng.random() < 0.12:
            return sep.decode("ascii")          # a blank line: a packet of its own when keep_end=True
        alphabet = "ab\r\n \xe9" if impl[1] == b"latin-1" else "ab\r\n c"
        return "".join(rng.choice(alphabet) for _ in range(n))
    if name == b"fixed":
        return bytes(rng.randrange(256) for _ in range(maxlen))
    if name == b"struct":
        return (rng.randrange(-128, 128), rng.randrange(0, 65536))
    if name == b"jsonl":
        return rng.choice([1, "a", [1, 2], {"k": "v\n"}, None, True, [], {}, "é", 1.5, [[1]], "\\", '"'])
    raise ValueError(name)


def configs(thorough):
    out = []
    for nl, sep in (("LF", b"\n"), ("CR", b"\r"), ("CRLF", b"\r\n")):
        for keep_end in (False, True):
            for enc in (b"ascii", b"latin-1"):
                out.append(dict(kinds=(0, 1), sep=sep, keep_end=keep_end, impl=[b"line", enc]))
    for nl, sep in (("LF", b"\n"), ("CRLF", b"\r\n")):
        out.append(dict(kinds=(0, 1), sep=sep, keep_end=False, impl=[b"line", b"ascii", b"surrogateescape"]))
    for sep in (b"\n", b"\r\n", b"aa", b"aba", b"abc"):
        out.append(dict(kinds=(0, 1), sep=sep, keep_end=False, impl=[b"autosep"]))
    for alphabet in (b"standard", b"urlsafe"):
        for checksum in (0, 1):
            for sep in (b"\r\n", b"\n"):
                out.append(dict(kinds=(0, 1), sep=sep, keep_end=False, impl=[b"b64", alphabet, checksum]))
    for sep in (b"\n", b"\r\n"):
        out.append(dict(kinds=(11, 12), sep=sep, keep_end=False, impl=[b"line", b"ascii"], conv=True))
    out.append(dict(kinds=(2, 3), size=3, impl=[b"fixed"]))
    out.append(dict(kinds=(2, 3), size=_struct.calcsize("!bH"), impl=[b"struct", b"!bH"]))
    out.append(dict(kinds=(0,), sep=b"\n", keep_end=True, impl=[b"jsonl"]))
    return out


def base_kind(kind):
    return kind - 11 if kind in (11, 12) else kind


def build(cfgd, kind, pkts, limit, hint):
    if base_kind(kind) in (0, 1):
        cfg = [cfgd["sep"], limit, int(cfgd["keep_end"])] + ([hint] if base_kind(kind) == 1 else [])
    else:
        cfg = [cfgd["size"]] + ([hint] if kind == 3 else [])
    ser = sc.make_serializer(base_kind(kind), cfg, cfgd["impl"])
    proto = StreamProtocol(ser)
    stream, sent = b"", []
    for p in pkts:
        try:
            data = b"".join(proto.generate_chunks(p))
        except Exception:
            return None
        stream += data
        sent.append(sc.canon_packet(p))
    name = cfgd["impl"][0]
    if name == b"line":
        dec = 1 if cfgd["impl"][1] == b"ascii" and len(cfgd["impl"]) == 2 else 0      # surrogateescape: every byte string decodes
    elif name in (b"autosep", b"fixed"):
        dec = 0
    else:
        dec = None      # table computed once validity is known
    return kind, cfg, dec, stream, sent


def spec_wire(cfgd, p):
    """what the documented sending side puts on the wire for packet p (None: not transmittable), stated without calling
    the serializer under test: line / AutoSeparated test subclass / base64 wrapper"""
    name, sep = cfgd["impl"][0], cfgd.get("sep")
    if name == b"line":
        try:
            data = p.encode(cfgd["impl"][1].decode(), cfgd["impl"][2].decode() if len(cfgd["impl"]) > 2 else "strict")
        except UnicodeError:
            return None
        if not data:
            return None
        return data if data.endswith(sep) else data + sep
    if name == b"autosep":
        data = bytes(p)
        if not data or sep in data:
            return None
        return data + sep
    if name == b"b64":
        import base64
        import hashlib
        data = bytes(p)
        if cfgd["impl"][2]:
            data += hashlib.sha256(data).digest()
        tok = (base64.standard_b64encode if cfgd["impl"][1] == b"standard" else base64.urlsafe_b64encode)(data)
        if not tok or sep in tok:
            return None
        return tok + sep
    return NotImplemented


def validity(cfgd, kind, cfg, stream, sent, pkts):
    """valid_pkt of the theorem: every frame's separator first occurs at its end, the payload is non-empty (an empty
    payload is not transmitted at all), within the band, and decoding the frame gives the packet back.  For the line
    serializer, the AutoSeparated test subclass and the base64 wrapper this is decided from the DOCUMENTED wire format,
    not by calling the serializer under test (a sending side that deviates then shows up as sent != received)."""
    if kind in (2, 3):
        return True
    if cfgd.get("conv") and not all(p and all("0" <= ch <= "9" for ch in p) for p in pkts):
        return False
    sep, limit = cfg[0], cfg[1]
    ser = sc.make_serializer(base_kind(kind), cfg, cfgd["impl"])
    proto = StreamProtocol(ser)
    for p in pkts:
        data = spec_wire(cfgd, p)
        if data is NotImplemented:
            data = b"".join(proto.generate_chunks(p))
        if not data or not data.endswith(sep):
            return False
        payload = data[: -len(sep)]
        if data.find(sep) != len(payload):
            return False
        if len(payload) + len(sep) + 1 > limit:
            return False
        if cfgd["impl"][0] == b"line":
            back = (data if cfgd["keep_end"] else payload).decode(cfgd["impl"][1].decode(),
                                                                  cfgd["impl"][2].decode() if len(cfgd["impl"]) > 2 else "strict")
        elif cfgd["impl"][0] in (b"autosep", b"b64"):
            back = bytes(p)
        else:
            try:
                back = ser.deserialize(data if cfgd["keep_end"] else payload)
            except Exception:
                return False
        if back != p:
            return False
    return True


def ser_cases(tier, rng, escalate):
    """the sending side (kind 10 of Run/Stream.v): incremental_serialize of line / AutoSeparated / FixedSize"""
    thorough = tier == "thorough" or escalate
    n = 400 if thorough else 60
    seps = [b"\n", b"\r", b"\r\n", b"aa", b"aba", b"abc"]
    for _ in range(n):
        sep = rng.choice(seps)
        alphabet = bytes(set(sep)) + b"xy \r\n"
        ln = rng.choice([0, 1, 2, 3, 5, 8])
        data = bytes(rng.choice(alphabet) for _ in range(ln))
        if rng.random() < 0.3:
            data += sep[: rng.randrange(1, len(sep) + 1)]          # ends with a (partial) separator
        if sep in sc.NEWLINES:
            yield dict(input=[10, 0, [sep], data, [b"line", rng.choice([b"ascii", b"latin-1"])]],
                       tags=["kind10", "ser-line", "ends-with-sep-byte" if data[-1:] and data[-1] in sep else "plain"],
                       nontrivial=bool(data) and data[-1] in sep)
        check = rng.choice([0, 1])
        yield dict(input=[10, 1, [sep, check], data, [b"autosep"]],
                   tags=["kind10", "ser-autosep", f"check{check}", "contains-sep" if sep in data else "no-sep"],
                   nontrivial=bool(data) and (sep in data or data[-1] in sep))
        size = rng.choice([1, 3, 4])
        yield dict(input=[10, 2, [size], data, [b"fixed"]], tags=["kind10", "ser-fixed"], nontrivial=len(data) == size)


JSON_DOCS = [[1], {"a": "b"}, 'x"y', "\\", 12, None, True, [[]], {"k": [1, {"z": "}"}]}, "[", 1.5, "a]b", [], {}, "\\\"",
             1e+16, 2.5e+30, -1e-07, -0.0, 123456789012345678901234567890, False, [1e+22, -3e-5]]


def generic_cases(tier, rng, escalate):
    """raw JSON (kind 4), file based (5/6) and zlib/bz2 compressors (7/8): streams of valid packets produced by the real
    serializers, every chunking of short streams / cuts everywhere; model = Run/C06.v with library oracles tabulated by
    calling the libraries"""
    thorough = tier == "thorough" or escalate
    reps = 12 if thorough else 3
    import zlib
    from common import excodes
    zexp, bexp = excodes.caught_by([zlib.error]), excodes.caught_by([OSError])
    confs = [(4, [200], [b"jsonraw"]), (5, [200, sc2.FB_EXPECTED], [b"fb", b"eager"]),
             (6, [200, sc2.FB_EXPECTED, 7], [b"fb", b"eager"]),
             (7, [zexp], [b"zlib", b"bytes"]), (8, [zexp, 16], [b"zlib", b"bytes"]),
             (7, [bexp], [b"bz2", b"bytes"])]
    for kind, cfg, impl in confs:
        for _ in range(reps):
            npk = rng.choice([1, 2, 2, 3])
            if kind == 4:
                pkts = [rng.choice(JSON_DOCS) for _ in range(npk)]
            else:
                pkts = [bytes(rng.choice(b"ab\x00\xff") for _ in range(rng.choice([1, 2, 4]))) for _ in range(npk)]
            family, fcfg, hint = sc2.simple_family(kind, _fix_cfg(kind, cfg), impl)
            ser = sc2.make_serializer(family, fcfg, impl)
            proto = StreamProtocol(ser)
            if kind == 4 and rng.random() < 0.5:
                # a line-mode sender talking to a raw-mode receiver (e.g. stapled): every document is followed by a newline
                from easynetwork.serializers.json import JSONSerializer
                proto = StreamProtocol(JSONSerializer(use_lines=True))
            stream = b"".join(b"".join(proto.generate_chunks(p)) for p in pkts)
            sent = [sc2.canon_packet(p) for p in pkts]
            if len(stream) <= (9 if thorough else 7):
                chunkings = list(sc.all_chunkings(stream))
                tag = "all-chunkings"
            else:
                tag = "cuts"
                chunkings = [[stream], [stream[i:i + 1] for i in range(len(stream))]]
                cuts = list(range(1, len(stream)))
                for c in (cuts if thorough or len(cuts) <= 24 else rng.sample(cuts, 24)):
                    chunkings.append(sc.cuts_to_chunks(stream, [c]))
                for _k in range(6 if thorough else 2):
                    chunkings.append(sc.cuts_to_chunks(stream, [rng.randrange(1, len(stream)) for _ in range(rng.randrange(2, 5))]))
            for chunks in chunkings:
                case = sc2.make_simple_case(kind, _fix_cfg(kind, cfg), impl, chunks)
                yield dict(input=case + [sent, 1], tags=[f"kind{kind}", impl[0].decode(), tag, f"npk{npk}", "valid"],
                           nontrivial=bool(npk >= 2 and len(chunks) >= 2))


def _fix_cfg(kind, cfg):
    return cfg


# ------------------------------------------------------------------ Base64EncoderSerializer codec (kind 31)

def _b64_ser(url, ck):
    from easynetwork.serializers.wrapper.base64 import Base64EncoderSerializer
    return Base64EncoderSerializer(sc.BytesPassThrough(), alphabet="urlsafe" if url else "standard", checksum=bool(ck),
                                   separator=b"\r\n", limit=100000)


def b64_cases(tier, rng, escalate):
    """the real Base64EncoderSerializer.serialize / deserialize against Frame/Base64.v: every length 0..50 (all padding
    shapes), both alphabets, checksum on/off; tokens deserialized: the produced one and tampered ones (one character
    replaced inside the alphabet: still a well-formed token, wrong checksum or different payload)"""
    import base64
    import hashlib
    thorough = tier == "thorough" or escalate
    std = b"ABCDEFGHIJKLMNOPQRSTUVWXYZabcdefghijklmnopqrstuvwxyz0123456789+/"
    for url in (0, 1):
        alpha = std[:62] + (b"-_" if url else b"+/")
        decode = base64.urlsafe_b64decode if url else base64.standard_b64decode
        for ck in (0, 1):
            ser = _b64_ser(url, ck)
            for n in list(range(0, 50 if thorough else 20)) + [rng.randrange(50, 300) for _ in range(6 if thorough else 2)]:
                for _rep in range(3 if thorough else 1):
                    mode = rng.random()
                    data = (bytes(rng.randrange(256) for _ in range(n)) if mode < 0.6
                            else bytes(rng.choice([0, 255, 0xfb, 0xef, 0x3e, 0x3f]) for _ in range(n)))
                    token = ser.serialize(data)
                    tokens = []
                    for _t in range(3):
                        body_len = len(token.rstrip(b"="))
                        if body_len == 0:
                            break
                        i = rng.randrange(body_len)
                        c = rng.choice(alpha)
                        tokens.append(token[:i] + bytes([c]) + token[i + 1:])
                    table = []
                    if ck:
                        seen = set()
                        for tok in [token] + tokens:
                            raw = decode(tok)
                            for body in (raw[:-32], data):
                                if body not in seen:
                                    seen.add(body)
                                    table.append([body, hashlib.sha256(body).digest()])
                    yield dict(input=[31, url, ck, data, table, tokens],
                               tags=["kind31", "base64", "urlsafe" if url else "standard", f"checksum{ck}", f"len-mod3={n % 3}"],
                               nontrivial=n >= 1)


def run_b64(inp):
    from easynetwork.exceptions import DeserializeError
    _k, url, ck, data, _table, tokens = inp
    ser = _b64_ser(url, ck)

    def de(tok):
        try:
            return [0, sc.canon_packet(ser.deserialize(tok))]
        except DeserializeError:
            return [1]

    token = ser.serialize(data)
    return [token, de(token), [de(t) for t in tokens]]


def b64_oracle(inp):
    out = run_b64(inp)
    if out[1] != [0, inp[3]]:
        return f"Base64EncoderSerializer: deserialize(serialize(x)) != x for x={inp[3]!r}"
    if any(b in out[0] for b in b"\r\n \t"):
        return f"Base64EncoderSerializer: token contains whitespace: {out[0]!r}"
    return None


# ------------------------------------------------------------------ every shipped serializer, packets -> stream -> packets

def shipped_cases(tier, rng, escalate):
    """kind 20 of Run/C06.v: the shipped serializers as configured by the C06 driver (line, JSON lines / raw, struct,
    named-tuple struct, base64 over bytes / json / pickle with and without checksum, pickle, zlib / bz2 over json /
    pickle / bytes): 1-3 packets, the stream produced by the real generate_chunks, whole / byte-by-byte / single cuts /
    random cuts, both consumers"""
    import c06
    thorough = tier == "thorough" or escalate
    for c in c06.CONFIGS:
        if c.family == 7 or c.family not in sc2.HAS_COPY:
            continue                    # the file-based test formats: kinds 5/6 above; one-shot-only serializers (pickle)
        for _ in range(6 if thorough else 2):
            ser = sc2.make_serializer(c.family, c.cfg, c.impl)
            proto = StreamProtocol(ser)
            pkts = []
            for _i in range(rng.choice([1, 2, 2, 3])):
                frame = c.frame(rng)
                keep_end = c.family == 0 and bool(c.cfg[2])
                payload = frame[: -len(c.sep)] if c.sep and frame.endswith(c.sep) and not keep_end else frame
                try:
                    p = ser.deserialize(payload)
                    wire = b"".join(proto.generate_chunks(p))
                except Exception:
                    continue
                if c.limit and len(wire) + 1 >= c.limit:
                    continue            # only frames safely within the limit (payload + separator < limit)
                if not wire:
                    continue            # an empty payload is not transmitted at all (AutoSeparated / line serializers)
                pkts.append(p)
            stream = b"".join(b"".join(proto.generate_chunks(p)) for p in pkts)
            if not stream:
                continue
            sent = [sc2.canon_packet(p) for p in pkts]
            chunkings = [[stream], [stream[i:i + 1] for i in range(len(stream))]]
            cuts = list(range(1, len(stream)))
            for cut in (cuts if thorough and len(cuts) <= 80 else rng.sample(cuts, min(len(cuts), 10))):
                chunkings.append(sc.cuts_to_chunks(stream, [cut]))
            for _k in range(6 if thorough else 2):
                chunkings.append(sc.cuts_to_chunks(stream, [rng.randrange(1, max(2, len(stream))) for _ in range(rng.randrange(2, 6))]))
            for chunks in chunkings:
                hint = c.hint(rng)
                yield dict(input=sc2.make_case(c.family, c.cfg, c.impl, stream, chunks, hint) + [sent],
                           tags=["kind20", "shipped", c.name, f"npk{len(pkts)}"],
                           nontrivial=bool(len(pkts) >= 2 and len(chunks) >= 2))


def shipped_oracle(inp):
    family, chunks, hint, sent = inp[1], inp[5], inp[6], inp[8]
    out = sc2.run_impl(inp)
    for mode, rounds in (("copying", out[2]), ("buffer-filling", out[3])):
        if not rounds and not (mode == "copying" and family in sc2.HAS_COPY or mode != "copying" and family in sc2.HAS_BUF and hint > 0):
            continue
        events = [e for r in rounds for e in r[1]]
        if any(e[0] != 0 for e in events):
            return f"error reported on a stream of valid packets ({mode} consumer): {[e[:2] for e in events if e[0] != 0][:1]}"
        if [e[1] for e in events] != list(sent):
            return f"received packets differ from sent ({mode} consumer): sent={sent!r} got={[e[1] for e in events]!r}"
        if mode == "copying" and rounds and rounds[-1][2]:
            return f"leftover after the last packet: {rounds[-1][2]!r}"
    return None


# ------------------------------------------------------------------ NamedTupleStructSerializer codec (kind 32)

def _nt_ser(n, strip, ascii_):
    from easynetwork.serializers.struct import NamedTupleStructSerializer
    return NamedTupleStructSerializer(sc2.Point, {"name": f"{n}s", "x": "B"}, encoding="ascii" if ascii_ else None,
                                      strip_string_trailing_nul_bytes=bool(strip))


def nt_cases(tier, rng, escalate):
    """the real NamedTupleStructSerializer (one 'Ns' string field + one unsigned byte) against Frame/NtStruct.v: field
    values over {a, b, NUL, 0x80} of every length 0..n incl. interior / leading / trailing NULs, strip on/off, bytes or
    ascii-decoded field; frames deserialized: the produced one and raw frames with NULs anywhere"""
    thorough = tier == "thorough" or escalate
    for n in (1, 3, 5):
        for strip in (1, 0):
            for ascii_ in (0, 1):
                for _ in range(60 if thorough else 12):
                    ln = rng.randrange(0, n + 1)
                    name = bytes(rng.choice(b"ab\x00\x00" + (b"" if ascii_ else b"\x80")) for _ in range(ln))
                    x = rng.randrange(256)
                    frames = [bytes(rng.choice(b"ab\x00\x00\x80") for _ in range(n)) + bytes([rng.randrange(256)]) for _ in range(3)]
                    frames.append(bytes(rng.choice(b"ab") for _ in range(rng.choice([n, n + 2]))))
                    yield dict(input=[32, n, strip, ascii_, name, x, frames],
                               tags=["kind32", "ntstruct", f"n{n}", f"strip{strip}", "ascii" if ascii_ else "bytes",
                                     "interior-nul" if b"\x00" in name.rstrip(b"\x00") else "no-interior-nul"],
                               nontrivial=b"\x00" in name)


def run_nt(inp):
    from easynetwork.exceptions import DeserializeError
    _k, n, strip, ascii_, name, x, frames = inp
    ser = _nt_ser(n, strip, ascii_)

    def de(frame):
        try:
            p = ser.deserialize(frame)
        except DeserializeError:
            return [1]
        v = p.name.encode("ascii") if isinstance(p.name, str) else bytes(p.name)
        return [0, v, p.x]

    tok = ser.serialize(sc2.Point(name=name.decode("ascii") if ascii_ else name, x=x))
    return [tok, de(tok), [de(f) for f in frames]]


def nt_oracle(inp):
    _k, n, strip, ascii_, name, x, _frames = inp
    out = run_nt(inp)
    fits = len(name) <= n and (name.rstrip(b"\0") == name if strip else len(name) == n)
    if fits and out[1] != [0, name, x]:
        return f"NamedTupleStructSerializer: deserialize(serialize(p)) != p for field {name!r} (n={n}, strip={strip}): {out[1]!r}"
    return None


def big_cases(tier, rng, escalate):
    """packets larger than the default receive size (16 KiB) but within the limit, read in 4 KiB blocks with small and
    large buffer-size hints: the buffer-filling path must deliver them like the copying path"""
    thorough = tier == "thorough" or escalate
    limit = 40000
    confs = [dict(kinds=(0, 1), sep=b"\n", keep_end=False, impl=[b"autosep"]),
             dict(kinds=(0, 1), sep=b"\r\n", keep_end=False, impl=[b"line", b"ascii"]),
             dict(kinds=(0, 1), sep=b"\r\n", keep_end=False, impl=[b"b64", b"standard", 0])]
    for cfgd in confs:
        for kind in cfgd["kinds"]:
            for hint in ([64, 4096, 65536] if thorough else [rng.choice([64, 4096])]):
                n = 17000 + rng.randrange(0, 3000) if cfgd["impl"][0] != b"b64" else 13000 + rng.randrange(0, 1500)
                if cfgd["impl"][0] == b"line":
                    big = "".join(rng.choice("abc ") for _ in range(n))
                    pkts = [big, "tail"]
                else:
                    big = bytes(rng.choice(b"xyz") for _ in range(n))
                    pkts = [big, b"tail"]
                b = build(cfgd, kind, pkts, limit, hint)
                if b is None:
                    continue
                kind_, cfg, dec, stream, sent = b
                valid = validity(cfgd, kind, cfg, stream, sent, pkts)
                if dec is None:
                    dec = sc.decode_table(base_kind(kind), cfg, cfgd["impl"], stream, "frames")
                chunks = [stream[i:i + 4096] for i in range(0, len(stream), 4096)]
                yield dict(input=[kind, cfg, dec, chunks, cfgd["impl"], sent, int(valid)],
                           tags=[f"kind{kind}", cfgd["impl"][0].decode(), "big-packet", f"hint{hint}", "valid" if valid else "excluded-input"],
                           nontrivial=True)


def cases(tier, rng, escalate):
    yield from ser_cases(tier, rng, escalate)
    yield from big_cases(tier, rng, escalate)
    yield from nt_cases(tier, rng, escalate)
    yield from b64_cases(tier, rng, escalate)
    yield from shipped_cases(tier, rng, escalate)
    yield from stapled_cases(tier, rng, escalate)
    yield from recv_cases(tier, rng, escalate)
    yield from generic_cases(tier, rng, escalate)


def recv_cases(tier, rng, escalate):
    thorough = tier == "thorough" or escalate
    deep = tier == "thorough"
    reps = 40 if deep else 14 if thorough else 3
    for cfgd in configs(thorough):
        for kind in cfgd["kinds"]:
            for _ in range(reps):
                npk = rng.choice([0, 1, 2, 2, 3, 4])
                limit = rng.choice([8, 16, 40, 120, 120])
                hint = rng.choice([1, 2, 3, 5, 8, 64])
                maxlen = cfgd.get("size", 3)
                pkts = [gen_packet(cfgd["impl"], cfgd.get("sep"), rng, maxlen, cfgd.get("conv", False)) for _ in range(npk)]
                b = build(cfgd, kind, pkts, limit, hint)
                if b is None:
                    continue
                kind_, cfg, dec, stream, sent = b
                if not stream:
                    continue
                valid = validity(cfgd, kind, cfg, stream, sent, pkts)
                if dec is None:
                    if not valid and len(stream) > 48:
                        continue    # overruns restart mid-frame: the decode table would have to cover every position
                    dec = sc.decode_table(base_kind(kind), cfg, cfgd["impl"], stream, "frames" if valid else "all")
                chunkings = []
                if len(stream) <= (12 if deep else 10 if thorough else 8):
                    chunkings = list(sc.all_chunkings(stream))
                    tag = "all-chunkings"
                else:
                    tag = "cuts"
                    chunkings.append([stream])
                    chunkings.append([stream[i:i + 1] for i in range(len(stream))])
                    for c in range(1, len(stream)):
                        chunkings.append(sc.cuts_to_chunks(stream, [c]))
                    if deep and len(stream) <= 24:
                        for c1, c2 in itertools.combinations(range(1, len(stream)), 2):
                            chunkings.append(sc.cuts_to_chunks(stream, [c1, c2]))
                    for _k in range(20 if deep else 8 if thorough else 3):
                        k = rng.randrange(2, 5)
                        chunkings.append(sc.cuts_to_chunks(stream, [rng.randrange(1, len(stream)) for _ in range(k)]))
                for chunks in chunkings:
                    yield dict(input=[kind, cfg, dec, chunks, cfgd["impl"], sent, int(valid)],
                               tags=[f"kind{kind}", cfgd["impl"][0].decode(), tag, f"npk{min(npk, 3)}",
                                     "valid" if valid else "excluded-input"],
                               nontrivial=bool(npk >= 2 and len(chunks) >= 2))


# ------------------------------------------------------------------ StapledPacketSerializer (kind 30)

def _stapled_build(cls, s_cap, r_cap, received):
    """StapledPacketSerializer(sent, received) with halves of the requested capabilities; the received half is the
    real serializer of the inner case restricted to its one-shot / incremental / buffered interface"""
    from easynetwork.serializers.abc import AbstractIncrementalPacketSerializer, AbstractPacketSerializer
    from easynetwork.serializers import composite

    class OneShot(AbstractPacketSerializer):
        def __init__(self, inner):
            self.inner = inner

        def serialize(self, packet):
            return self.inner.serialize(packet)

        def deserialize(self, data):
            return self.inner.deserialize(data)

    class IncrOnly(OneShot, AbstractIncrementalPacketSerializer):
        def incremental_serialize(self, packet):
            return self.inner.incremental_serialize(packet)

        def incremental_deserialize(self):
            return self.inner.incremental_deserialize()

    def restrict(ser, cap):
        return ser if cap == 2 else IncrOnly(ser) if cap == 1 else OneShot(ser)

    sent = restrict(sc.IdAutoSep(b"\n", 1000, incremental_serialize_check_separator=True), s_cap)
    klass = [composite.StapledPacketSerializer, composite.StapledIncrementalPacketSerializer,
             composite.StapledBufferedIncrementalPacketSerializer][cls]
    return klass(sent, restrict(received, r_cap))


def run_stapled(inp):
    from easynetwork.protocol import BufferedStreamProtocol
    from easynetwork.serializers import composite
    _k, cls, s_cap, r_cap, inner, probe = inp
    kind, cfg, _dec, chunks, impl = inner[:5]
    stapled = _stapled_build(cls, s_cap, r_cap, sc.make_serializer(kind, cfg, impl))
    rank = stapled_rank(stapled)
    buffered = kind in (1, 3)
    try:
        (BufferedStreamProtocol if buffered else StreamProtocol)(stapled)
    except TypeError:
        got = -1
    else:
        try:
            if buffered:
                got = sc.run_buffered(stapled, cfg[3] if kind == 1 else cfg[1], chunks)
            else:
                got = sc.run_copy(stapled, chunks)
        except Exception as exc:                     # a path the serializer claims but cannot serve
            got = [-2, type(exc).__name__.encode()]
    try:
        sent = [bytes(c) for c in StreamProtocol(stapled).generate_chunks(probe)]
    except TypeError:
        sent = -1
    except ValueError:
        sent = -2
    return [rank, got, sent]


def stapled_cases(tier, rng, escalate):
    """every (class called, sent capability, received capability) the signatures allow x both receive paths"""
    thorough = tier == "thorough" or escalate
    combos = [(0, s, r) for s in range(3) for r in range(3)]
    combos += [(1, s, r) for s in (1, 2) for r in (1, 2)] + [(2, s, 2) for s in (1, 2)]
    confs = [dict(kinds=(0, 1), sep=b"\r\n", keep_end=False, impl=[b"line", b"ascii"]),
             dict(kinds=(0, 1), sep=b"aba", keep_end=False, impl=[b"autosep"]),
             dict(kinds=(2, 3), size=3, impl=[b"fixed"])]
    for cls, s_cap, r_cap in combos:
        for cfgd in confs:
            for kind in cfgd["kinds"]:
                for _ in range(4 if thorough else 1):
                    npk = rng.choice([1, 2, 3])
                    pkts = [gen_packet(cfgd["impl"], cfgd.get("sep"), rng, cfgd.get("size", 3)) for _ in range(npk)]
                    b = build(cfgd, kind, pkts, 40, rng.choice([1, 3, 8, 64]))
                    if b is None:
                        continue
                    kind_, cfg, dec, stream, sent = b
                    if not stream:
                        continue
                    valid = validity(cfgd, kind, cfg, stream, sent, pkts)
                    chunkings = [[stream], [stream[i:i + 1] for i in range(len(stream))]]
                    for _k in range(4 if thorough else 2):
                        chunkings.append(sc.cuts_to_chunks(stream, [rng.randrange(1, max(2, len(stream))) for _ in range(rng.randrange(1, 4))]))
                    probe = bytes(rng.choice(b"ab\n") for _ in range(rng.choice([0, 1, 2, 3])))
                    for chunks in chunkings:
                        yield dict(input=[30, cls, s_cap, r_cap, [kind, cfg, dec, chunks, cfgd["impl"], sent, int(valid)], probe],
                                   tags=["kind30", "stapled", f"cls{cls}", f"sent-cap{s_cap}", f"recv-cap{r_cap}",
                                         "buffered-path" if kind in (1, 3) else "copying-path",
                                         "valid" if valid else "excluded-input"],
                                   nontrivial=bool(s_cap != r_cap and npk >= 2))


def stapled_oracle(inp):
    """two peers stapling the same two serializers the other way round: what the sent half produces must come back
    through the received half on every receive path that half supports"""
    _k, cls, s_cap, r_cap, inner, probe = inp
    kind, cfg, _dec, chunks, impl, sent, valid = inner[:7]
    rank, got, _sentchunks = run_stapled(inp)
    need = 2 if kind in (1, 3) else 1
    if s_cap < 1 or r_cap < need:
        if got != -1 and not (isinstance(got, list) and got and isinstance(got[0], list)):
            return f"stapled serializer claims a receive path its received half cannot serve: {got!r}"
        return None
    if got == -1:
        return (f"stapled serializer (sent capability {s_cap}, received capability {r_cap}) is refused on the "
                f"{'buffer-filling' if need == 2 else 'copying'} path although both halves support it")
    if isinstance(got, list) and got and got[0] == -2:
        return f"stapled serializer fails on the receive path: {got[1]!r}"
    if not valid:
        return None
    events = [e for r in got for e in r[1]]
    if [e for e in events if e[0] != 0]:
        return "error reported on a stream of valid packets through a stapled serializer"
    if [e[1] for e in events if e[0] == 0] != list(sent):
        return f"received packets differ from sent through a stapled serializer: sent={sent!r}"
    return None


def _ser_setup(inp):
    _k, variant, cfg, data, impl = inp[:5]
    if variant == 0:
        from easynetwork.serializers.line import StringLineSerializer
        ser = StringLineSerializer(sc.NEWLINES[cfg[0]], encoding=impl[1].decode(), limit=1000)
        return ser, data.decode("latin-1")
    if variant == 1:
        return sc.IdAutoSep(cfg[0], 1000, incremental_serialize_check_separator=bool(cfg[1])), data
    return sc.IdFixed(cfg[0]), data


def run_impl(inp):
    if inp[0] == 32:
        return run_nt(inp)
    if inp[0] == 31:
        return run_b64(inp)
    if inp[0] == 20:
        return sc2.run_impl(inp)
    if inp[0] == 30:
        return run_stapled(inp)
    if 4 <= inp[0] <= 8:
        return sc2.run_impl(inp)
    if inp[0] != 10:
        return sc.run_impl(inp)
    ser, packet = _ser_setup(inp)
    if inp[1] == 0 and inp[4][1] == b"ascii" and any(b >= 128 for b in inp[3]):
        return [2]
    try:
        return [0, [bytes(c) for c in ser.incremental_serialize(packet)]]
    except ValueError:
        return [1]


def ser_oracle(inp):
    """a transmittable packet must come out of the receiving side unchanged"""
    _k, variant, cfg, data, impl = inp[:5]
    out = run_impl(inp)
    if out[0] != 0:
        return None
    stream = b"".join(out[1])
    ser, packet = _ser_setup(inp)
    if variant == 2:
        return None if stream == data else f"fixed-size frame differs from serialize(): {stream!r}"
    sep = cfg[0]
    if variant == 0 and data.endswith(sep) and data.find(sep) == len(data) - len(sep):
        # a line that already ends with its newline (a blank line included): sent as it is; with keep_end=True the
        # receiving side returns it unchanged
        from easynetwork.serializers.line import StringLineSerializer
        if stream != data:
            return f"line ending with its newline {data!r} is sent as {stream!r}"
        ser = StringLineSerializer(sc.NEWLINES[sep], encoding=impl[1].decode(), limit=1000, keep_end=True)
    elif not data or (data + sep).find(sep) != len(data):
        return None        # documented as not transmittable (empty, or contains / ends into the separator)
    from easynetwork.lowlevel._stream import StreamDataConsumer
    from easynetwork.protocol import StreamProtocol
    consumer = StreamDataConsumer(StreamProtocol(ser))
    try:
        got = consumer.next(stream)
    except StopIteration:
        return f"packet {packet!r} serialized to {stream!r} is not received back (incomplete frame)"
    except Exception as exc:
        return f"packet {packet!r} serialized to {stream!r} raises {type(exc).__name__} on receipt"
    if got != packet or bytes(consumer.get_buffer()):
        return f"packet {packet!r} serialized to {stream!r} is received as {got!r}"
    return None


def oracle(inp):
    if inp[0] == 10:
        return ser_oracle(inp)
    if inp[0] == 30:
        return stapled_oracle(inp)
    if inp[0] == 31:
        return b64_oracle(inp)
    if inp[0] == 32:
        return nt_oracle(inp)
    if inp[0] == 20:
        return shipped_oracle(inp)
    kind, cfg, _dec, chunks, impl, sent, valid = inp[:7]
    if not valid:
        return None
    rounds = run_impl(inp)
    if sc.abnormal(rounds):
        return sc.abnormal(rounds)
    events = [e for r in rounds for e in r[1]]
    got = [e[1] for e in events if e[0] == 0]
    bad = [e for e in events if e[0] != 0]
    if bad:
        return f"error reported on a stream of valid packets: {bad[0][:2]}"
    if got != list(sent):
        return f"received packets differ from sent: sent={sent!r} got={got!r}"
    if kind in (0, 2, 11, 4, 5, 7):      # copying consumer: get_buffer() is the unconsumed remainder
        held = rounds[-1][2] if rounds else b""
        if held:
            return f"leftover after the last packet: {held!r}"
    return None


def signature(inp, failure):
    return failure.split(":")[0]


def shrink(inp):
    if inp[0] == 10:
        data = inp[3]
        for i in range(len(data)):
            yield [10, inp[1], inp[2], data[:i] + data[i + 1:], inp[4]]
        return
    if inp[0] in (31, 32, 20):
        return
    if inp[0] == 30:
        for inner in shrink(inp[4]):
            yield inp[:4] + [inner, inp[5]]
        return
    kind, cfg, dec, chunks = inp[:4]
    for i in range(len(chunks) - 1):
        yield [kind, cfg, dec, chunks[:i] + [chunks[i] + chunks[i + 1]] + chunks[i + 2:]] + list(inp[4:])
