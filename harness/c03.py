"""C03 — receive endpoints: every complete packet once, then a sticky end-of-stream.

Real StreamEndpoint / AsyncStreamEndpoint / TCPNetworkClient / AsyncTCPNetworkClient (+ iter_received_packets) over a
scripted in-memory transport; the same script is the oracle of the Coq model (coq/Stream/Endpoint.v, Run/C03.v).
"""
from __future__ import annotations

import contextlib
import errno as _errno
import itertools
import math
import socket as _socket
import threading
import time
import warnings
from collections import deque

from common import detloop, streamcase as sc

from easynetwork.exceptions import ClientClosedError, StreamProtocolParseError
from easynetwork.lowlevel.api_async.transports.abc import AsyncStreamTransport
from easynetwork.lowlevel.api_sync.transports.abc import StreamTransport
from easynetwork.lowlevel.socket import INETSocketAttribute
from easynetwork.protocol import BufferedStreamProtocol, StreamProtocol

PROPERTY_ID = "C03"
RUN_MODULE = "Run.C03"
PROPS_FILE = "Props/C03.v"
ALLOWED_AXIOMS = []
ANCHORS = [
    ("src/easynetwork/lowlevel/api_sync/endpoints/stream.py", "_DataReceiverImpl.receive"),
    ("src/easynetwork/lowlevel/api_sync/endpoints/stream.py", "_BufferedReceiverImpl.receive"),
    ("src/easynetwork/lowlevel/api_sync/endpoints/stream.py", "StreamEndpoint.recv_packet"),
    ("src/easynetwork/lowlevel/api_sync/endpoints/stream.py", "_get_receiver"),
    ("src/easynetwork/lowlevel/api_async/endpoints/stream.py", "_DataReceiverImpl.receive"),
    ("src/easynetwork/lowlevel/api_async/endpoints/stream.py", "_BufferedReceiverImpl.receive"),
    ("src/easynetwork/lowlevel/api_async/endpoints/stream.py", "AsyncStreamEndpoint.recv_packet"),
    ("src/easynetwork/lowlevel/api_async/endpoints/stream.py", "_get_receiver"),
    ("src/easynetwork/clients/tcp.py", "TCPNetworkClient.recv_packet"),
    ("src/easynetwork/lowlevel/_utils.py", "lock_with_timeout"),
    ("src/easynetwork/clients/tcp.py", "TCPNetworkClient.__convert_socket_error"),
    ("src/easynetwork/clients/async_tcp.py", "AsyncTCPNetworkClient.recv_packet"),
    ("src/easynetwork/clients/async_tcp.py", "AsyncTCPNetworkClient.__convert_socket_error"),
    ("src/easynetwork/clients/async_tcp.py", "AsyncTCPNetworkClient.__ensure_connected"),
    ("src/easynetwork/lowlevel/api_async/backend/_asyncio/stream/socket.py", "StreamReaderBufferedProtocol.get_buffer"),
    ("src/easynetwork/lowlevel/api_async/backend/_asyncio/stream/socket.py", "StreamReaderBufferedProtocol.buffer_updated"),
    ("src/easynetwork/lowlevel/api_async/backend/_asyncio/stream/socket.py", "StreamReaderBufferedProtocol.eof_received"),
    ("src/easynetwork/lowlevel/api_async/backend/_asyncio/stream/socket.py", "StreamReaderBufferedProtocol.receive_data"),
    ("src/easynetwork/lowlevel/api_async/backend/_asyncio/stream/socket.py", "StreamReaderBufferedProtocol.receive_data_into"),
    ("src/easynetwork/lowlevel/api_async/backend/_asyncio/stream/socket.py", "StreamReaderBufferedProtocol._wait_for_data"),
    ("src/easynetwork/lowlevel/api_async/backend/_asyncio/stream/socket.py", "StreamReaderBufferedProtocol._maybe_pause_transport"),
    ("src/easynetwork/lowlevel/api_async/backend/_asyncio/stream/socket.py", "StreamReaderBufferedProtocol._maybe_resume_transport"),
    ("src/easynetwork/lowlevel/api_async/backend/_asyncio/stream/socket.py", "StreamReaderBufferedProtocol._compute_read_buffer_limits"),
    ("src/easynetwork/lowlevel/api_async/backend/_asyncio/stream/socket.py", "AsyncioTransportStreamSocketAdapter.is_closing"),
    ("src/easynetwork/lowlevel/api_async/backend/_asyncio/stream/socket.py", "AsyncioTransportStreamSocketAdapter.recv"),
    ("src/easynetwork/lowlevel/api_async/backend/_asyncio/stream/socket.py", "AsyncioTransportStreamSocketAdapter.recv_into"),
    ("src/easynetwork/clients/_iter.py", "ClientRecvIterator.__next__"),
    ("src/easynetwork/clients/_iter.py", "AsyncClientRecvIterator.__anext__"),
    ("src/easynetwork/lowlevel/_utils.py", "ElapsedTime.recompute_timeout"),
    ("src/easynetwork/lowlevel/_stream.py", "StreamDataConsumer.next"),
    ("src/easynetwork/lowlevel/_stream.py", "BufferedStreamDataConsumer.next"),
    ("src/easynetwork/lowlevel/_stream.py", "BufferedStreamDataConsumer.get_write_buffer"),
]
RULE = ("stream = 0-3 frames (valid / undecodable / empty payload) + optional trailing partial frame, separator framing "
        "(LF, CRLF) and fixed-size framing, copying and buffer-filling receivers; the peer closes at EVERY byte position "
        "of the stream; chunkings: all for prefixes <= 5 bytes, whole/byte-wise/random cuts beyond; silences "
        "(transport timeouts) inserted in every gap pattern for small cases; max_recv_size in {1,2,3,64} (so chunks "
        "are split by the receiver); call histories over timeouts {None, 0, >0} of length <= 5 followed by extra calls "
        "after end-of-stream; iter_received_packets histories; transport OSErrors for the clients' conversion. "
        "End-to-end family: AsyncStreamEndpoint / AsyncTCPNetworkClient over the REAL asyncio stream transport "
        "(StreamReaderBufferedProtocol + socket adapter; the harness plays the selector: level-triggered read events) with "
        "sends, cancellation of the pending call (timeout) and new calls in every order inside one loop iteration, data "
        "buffered in the protocol before a call, max_recv_size in {1,2,3,4,64}; the calls that return must deliver the "
        "stream's events then end-of-stream (timeout_loses_nothing). "
        "Two-thread histories: the REAL TCPNetworkClient.recv_packet (receive lock replaced by an instrumented "
        "threading.Lock, every transport call parked until served) driven by 2 gated threads through schedules in which "
        "the second call starts while the first is parked in the transport, several packets arriving in one segment. "
        "Non-trivial = the close falls inside a frame, or a timeout result precedes a packet, or a packet is drained "
        "from the buffer by a later call, or end-of-stream is reported at least twice.")
TRUSTED = ["model of the four receive loops, the iterator and the clients' error conversion hand-written in "
           "coq/Stream/Endpoint.v over the consumer models of coq/Stream/Consumer.v",
           "scripted transports + patched time.perf_counter (harness/c03.py) stand for the kernel/peer"]
ASSUMPTIONS = ["transport contract: recv/recv_into return 1..room bytes when data is available, b''/0 at end of stream, "
               "raise TimeoutError only without consuming data",
               "asynchronous timeouts are the caller's backend.timeout() scope; cancellation is only delivered while the "
               "transport is suspended with no data (the data-loss race of a cancelled receive is C10's subject)",
               "theorems are stated for any consumer satisfying the interface `consumer_ok` (frame-by-frame decoding "
               "independent of the chunking: C02's theorem); instantiated in Coq for the fixed-size framer"]

TICK = 1.0 / 1024
LONG = 4096.0  # seconds of virtual silence (any finite timeout used here is < 1 s)


# ---------------------------------------------------------------- scripted transports

class Clock:
    def __init__(self):
        self.t = 1000.0

    def now(self):
        return self.t

    def advance(self, s):
        if s != math.inf:
            self.t += s


@contextlib.contextmanager
def patched_clock(clock):
    old = time.perf_counter
    time.perf_counter = clock.now
    try:
        yield
    finally:
        time.perf_counter = old


class FakeSocket:
    family = _socket.AF_INET
    type = _socket.SOCK_STREAM
    proto = 0

    def fileno(self):
        return -1

    def setsockopt(self, *a):
        raise OSError(_errno.EBADF, "fake")

    def getsockopt(self, *a):
        raise OSError(_errno.EBADF, "fake")

    def getsockname(self):
        return ("127.0.0.1", 1111)

    def getpeername(self):
        return ("127.0.0.1", 2222)

    def get_inheritable(self):
        return False


def raise_kind(k):
    if k == 0:
        raise ConnectionResetError(_errno.ECONNRESET, "scripted reset")
    if k == 1:
        raise OSError(_errno.EBADF, "scripted closed socket")
    raise OSError(_errno.EIO, "scripted I/O error")


class ScriptSocket(FakeSocket):
    """an open socket whose SO_ERROR is scripted: when the next thing the transport would see is the peer's RESET, the
    kernel already knows; reading SO_ERROR returns ECONNRESET and clears it (the connection then reads as ended)"""

    def __init__(self, owner):
        self.owner = owner

    def fileno(self):
        return 99

    def getsockopt(self, level, opt, *a):
        if level == _socket.SOL_SOCKET and opt == _socket.SO_ERROR:
            script = self.owner.script
            if script and script[0][0] == 3 and script[0][1] == 0:
                script.popleft()
                return _errno.ECONNRESET
            return 0
        raise OSError(_errno.ENOPROTOOPT, "fake")


class _Script:
    def _init_script(self, oracle):
        self.script = deque([list(x) for x in oracle])
        self.taken = 0
        self._closed = False
        self._sock = ScriptSocket(self)

    def _take(self, buffer):
        """head item is data: copy what fits; returns n"""
        it = self.script[0]
        chunk = it[1]
        if not chunk:
            self.script.popleft()
            return 0
        with memoryview(buffer) as mv:
            n = min(mv.nbytes, len(chunk))
            mv[:n] = chunk[:n]
        if n < len(chunk):
            self.script[0] = [0, chunk[n:], 0]
        else:
            self.script.popleft()
        self.taken += n
        return n

    @property
    def extra_attributes(self):
        s = self._sock
        return {
            INETSocketAttribute.socket: lambda: s,
            INETSocketAttribute.family: lambda: s.family,
            INETSocketAttribute.sockname: s.getsockname,
            INETSocketAttribute.peername: s.getpeername,
        }


class ScriptTransport(_Script, StreamTransport):
    def __init__(self, oracle, clock):
        super().__init__()
        self._init_script(oracle)
        self.clock = clock

    def recv_into(self, buffer, timeout):
        while True:
            if not self.script:
                return 0
            it = self.script[0]
            if it[0] == 1:
                self.script.popleft()
                return 0
            if it[0] == 3:
                self.script.popleft()
                raise_kind(it[1])
            if it[0] == 2:
                self.script.popleft()
                if timeout == math.inf:
                    continue
                self.clock.advance(timeout)
                raise TimeoutError(_errno.ETIMEDOUT, "scripted timeout")
            self.clock.advance(it[2] * TICK)
            return self._take(buffer)

    def send(self, data, timeout):
        return len(data)

    def send_eof(self):
        pass

    def close(self):
        self._closed = True

    def is_closed(self):
        return self._closed


class AsyncScriptTransport(_Script, AsyncStreamTransport):
    def __init__(self, oracle, backend):
        super().__init__()
        self._init_script(oracle)
        self._backend = backend

    async def recv_into(self, buffer):
        while True:
            if not self.script:
                return 0
            it = self.script[0]
            if it[0] == 1:
                self.script.popleft()
                return 0
            if it[0] == 3:
                self.script.popleft()
                raise_kind(it[1])
            if it[0] == 2:
                self.script.popleft()
                await self._backend.sleep(LONG)
                continue
            return self._take(buffer)

    async def send_all(self, data):
        pass

    async def send_eof(self):
        pass

    async def aclose(self):
        self._closed = True

    def is_closing(self):
        return self._closed

    def backend(self):
        return self._backend


# ---------------------------------------------------------------- running the real code

def classify(exc):
    if isinstance(exc, StreamProtocolParseError):
        return [1, sc.ERR_CODES.get(type(exc.error).__name__, 9)]
    if isinstance(exc, ClientClosedError):
        return [5]
    if isinstance(exc, ConnectionAbortedError):
        return [2]
    if isinstance(exc, TimeoutError):
        return [3]
    if isinstance(exc, RuntimeError):
        return [6]
    if isinstance(exc, AssertionError):
        return [8]
    if isinstance(exc, ConnectionResetError):
        return [4, 0]
    if isinstance(exc, OSError):
        return [4, 1 if exc.errno == _errno.EBADF else 2]
    if isinstance(exc, Exception):
        return [9]          # anything else out of recv_packet (ValueError, TypeError, ...): never expected
    raise exc


def _protocol(kind, cfg, impl):
    ser = sc.make_serializer(kind, cfg, impl)
    return BufferedStreamProtocol(ser) if kind in (1, 3) else StreamProtocol(ser)


def _secs(t):
    return None if t == [] else t[0] * TICK


def run_blocking(inp):
    from easynetwork.clients.tcp import TCPNetworkClient
    from easynetwork.lowlevel import _lock
    from easynetwork.lowlevel.api_sync.endpoints.stream import StreamEndpoint

    kind, cfg, _dec, oracle, calls, _mode, bufsize, api, impl = inp[:9]
    clock = Clock()
    out = []
    with patched_clock(clock):
        tr = ScriptTransport(oracle, clock)
        ep = StreamEndpoint(tr, _protocol(kind, cfg, impl), max_recv_size=bufsize)
        target = ep
        if api == 1:
            target = TCPNetworkClient.__new__(TCPNetworkClient)
            object.__setattr__(target, "_TCPNetworkClient__endpoint", ep)
            object.__setattr__(target, "_TCPNetworkClient__send_lock", _lock.ForkSafeLock(threading.Lock))
            object.__setattr__(target, "_TCPNetworkClient__receive_lock", _lock.ForkSafeLock(threading.Lock))
            object.__setattr__(target, "_TCPNetworkClient__socket_proxy", None)
        try:
            for call in calls:
                entries = []
                crashed = False
                if call[0] == 0:
                    try:
                        res = [0, sc.canon_packet(target.recv_packet(timeout=_secs(call[1])))]
                    except Exception as exc:
                        res = classify(exc)
                    crashed = res == [6]
                    entries.append([res, tr.taken, len(tr.script)])
                else:
                    it = target.iter_received_packets(timeout=_secs(call[1]))
                    for _ in range(call[2]):
                        try:
                            res = [0, sc.canon_packet(next(it))]
                        except StopIteration:
                            res = [7]
                        except Exception as exc:
                            res = classify(exc)
                        entries.append([res, tr.taken, len(tr.script)])
                        if res == [6]:
                            crashed = True
                        if res[0] not in (0, 1):
                            break
                out.append(entries)
                if crashed:
                    break
        finally:
            ep.close()
    return out


_LOOP = None


def _loop():
    global _LOOP
    if _LOOP is None:
        _LOOP = detloop.DetLoop(max_steps=20000)
    return _LOOP


def _make_backend(transport):
    from easynetwork.lowlevel.api_async.backend._asyncio.backend import AsyncIOBackend

    class ScriptBackend(AsyncIOBackend):
        __slots__ = ("_tr",)

        async def create_tcp_connection(self, host, port, **kw):
            return self._tr

    b = ScriptBackend()
    b._tr = transport
    return b


async def _run_async(inp):
    from easynetwork.clients.async_tcp import AsyncTCPNetworkClient
    from easynetwork.lowlevel.api_async.backend.utils import new_builtin_backend
    from easynetwork.lowlevel.api_async.endpoints.stream import AsyncStreamEndpoint

    kind, cfg, _dec, oracle, calls, _mode, bufsize, api, impl = inp[:9]
    out = []
    if api == 1:
        backend = _make_backend(None)
        tr = AsyncScriptTransport(oracle, backend)
        backend._tr = tr
        target = AsyncTCPNetworkClient(("127.0.0.1", 1), _protocol(kind, cfg, impl), backend, max_recv_size=bufsize)
    else:
        backend = new_builtin_backend("asyncio")
        tr = AsyncScriptTransport(oracle, backend)
        target = AsyncStreamEndpoint(tr, _protocol(kind, cfg, impl), max_recv_size=bufsize)

    async def one(coro_fn, t):
        if t is None:
            return await coro_fn()
        with backend.timeout(t):
            return await coro_fn()

    try:
        for call in calls:
            entries = []
            crashed = False
            if call[0] == 0:
                try:
                    res = [0, sc.canon_packet(await one(target.recv_packet, _secs(call[1])))]
                except Exception as exc:
                    res = classify(exc)
                crashed = res == [6]
                entries.append([res, tr.taken, len(tr.script)])
            else:
                it = target.iter_received_packets(timeout=_secs(call[1]))
                for _ in range(call[2]):
                    try:
                        res = [0, sc.canon_packet(await anext(it))]
                    except StopAsyncIteration:
                        res = [7]
                    except Exception as exc:
                        res = classify(exc)
                    entries.append([res, tr.taken, len(tr.script)])
                    if res == [6]:
                        crashed = True
                    if res[0] not in (0, 1):
                        break
            out.append(entries)
            if crashed:
                break
    finally:
        await target.aclose()
    return out


def run_async(inp):
    import asyncio
    loop = _loop()
    asyncio.set_event_loop(loop)
    loop.steps = 0
    loop._vtime = 0.0   # keep the virtual clock small: float resolution must stay below asyncio's clock resolution
    try:
        return loop.run_until_complete(_run_async(inp))
    finally:
        asyncio.set_event_loop(None)


# ---------------------------------------------------------------- two threads on one blocking TCP client

BIG_TIMEOUT = 100000.0
WATCHDOG = 180.0   # only ever reached on a genuine deadlock: every wait is on an explicit condition


class HarnessTimeout(RuntimeError):
    pass


class Monitor:
    """What the scheduler (the harness thread) knows about the two receiver threads.  Every transition is made under
    [cv]; a thread is quiescent when it is 'idle' (not in a call), 'blocked' (waiting for the receive lock) or
    'parked' (inside transport.recv_into, waiting to be served)."""

    def __init__(self):
        self.cv = threading.Condition()
        self.state = {0: "idle", 1: "idle"}
        self.grant = {0: False, 1: False}
        self.cmd = {0: None, 1: None}
        self.log = []
        self.tls = threading.local()

    def tid(self):
        return self.tls.tid

    def wait_for(self, pred, what):
        deadline = time.monotonic() + WATCHDOG
        while not pred():
            left = deadline - time.monotonic()
            if left <= 0:
                raise HarnessTimeout(f"watchdog: {what}; states={self.state}")
            self.cv.wait(left)

    def set(self, tid, st):
        self.state[tid] = st
        self.cv.notify_all()


class InstrumentedLock:
    """A mutex with threading.Lock's interface, implemented on the scheduler's monitor: the scheduler knows when a thread
    starts waiting for it; a release hands the lock to the (lowest-numbered) waiting thread, which proceeds only once the
    releasing thread is quiescent again, so the order of returns is deterministic.  A lock that is never released (a
    defect of the code under test) leaves its waiters visibly 'blocked' instead of hanging the harness."""

    def __init__(self, mon):
        self.mon = mon
        self.owner = None          # tid, or "main" for the scheduler thread
        self.releaser = None

    def _me(self):
        return getattr(self.mon.tls, "tid", "main")

    def acquire(self, blocking=True, timeout=-1):
        mon = self.mon
        me = self._me()
        with mon.cv:
            if self.owner is None:
                self.owner = me
                return True
            if not blocking or me == "main":
                return False
            mon.set(me, "blocked")
            mon.wait_for(lambda: self.owner == me, "receive lock never handed over")
            rel = self.releaser
            if rel is not None and rel != me and rel != "main":
                mon.wait_for(lambda: mon.state[rel] != "running", "hand-off of the receive lock")
            return True

    def release(self):
        mon = self.mon
        with mon.cv:
            self.releaser = self._me()
            waiters = [t for t in (0, 1) if mon.state[t] == "blocked"]
            if waiters:
                self.owner = waiters[0]
                mon.state[waiters[0]] = "running"      # it has the lock now
            else:
                self.owner = None
            mon.cv.notify_all()

    def force_release(self):
        """teardown only: the code under test leaked the lock"""
        self.owner = "main"
        self.release()

    def __enter__(self):
        self.acquire()
        return self

    def __exit__(self, *a):
        self.release()

    def locked(self):
        return self.owner is not None


class GatedScriptTransport(ScriptTransport):
    """every transport call parks until the scheduler serves it"""

    def __init__(self, oracle, clock, mon):
        super().__init__(oracle, clock)
        self.mon = mon

    def recv_into(self, buffer, timeout):
        mon = self.mon
        tid = mon.tid()
        with mon.cv:
            mon.set(tid, "parked")
            mon.wait_for(lambda: mon.grant[tid], f"thread {tid} parked in the transport was never served")
            mon.grant[tid] = False
        return super().recv_into(buffer, timeout)


def run_threads(inp):
    from easynetwork.clients.tcp import TCPNetworkClient
    from easynetwork.lowlevel import _lock
    from easynetwork.lowlevel.api_sync.endpoints.stream import StreamEndpoint

    _tag, case, sched, na, nb = inp[:5]
    timed = inp[5] if len(inp) > 5 else [[], []]      # per thread: indexes of the calls made with a finite timeout
    kind, cfg, _dec, oracle, _calls, _mode, bufsize, _api, impl = case[:9]
    mon = Monitor()
    clock = Clock()
    tr = GatedScriptTransport(oracle, clock, mon)
    ep = StreamEndpoint(tr, _protocol(kind, cfg, impl), max_recv_size=bufsize)
    client = TCPNetworkClient.__new__(TCPNetworkClient)
    rlock = InstrumentedLock(mon)
    object.__setattr__(client, "_TCPNetworkClient__endpoint", ep)
    object.__setattr__(client, "_TCPNetworkClient__send_lock", _lock.ForkSafeLock(threading.Lock))
    object.__setattr__(client, "_TCPNetworkClient__receive_lock", _lock.ForkSafeLock(lambda: rlock))
    object.__setattr__(client, "_TCPNetworkClient__socket_proxy", None)
    left = {0: na, 1: nb}
    started = {0: 0, 1: 0}
    errors = []

    def worker(tid):
        mon.tls.tid = tid
        while True:
            with mon.cv:
                mon.wait_for(lambda: mon.cmd[tid] is not None, f"worker {tid} idle")
                cmd = mon.cmd[tid]
                mon.cmd[tid] = None
            if cmd == "stop":
                return
            try:
                try:
                    # a finite timeout far beyond anything that happens here: lock_with_timeout's timed branches
                    # (non-blocking attempt, then acquire(True, timeout), recompute) with the behaviour of timeout=None
                    tmo = BIG_TIMEOUT if cmd == "timed" else None
                    res = [0, sc.canon_packet(client.recv_packet(timeout=tmo))]
                except HarnessTimeout:
                    raise
                except Exception as exc:
                    res = classify(exc)
            except BaseException as exc:      # harness failure: report, keep the scheduler alive
                errors.append(exc)
                res = [9]
            with mon.cv:
                mon.log.append([tid, res])
                mon.set(tid, "idle")

    threads = [threading.Thread(target=worker, args=(t,), daemon=True) for t in (0, 1)]
    for t in threads:
        t.start()

    def quiesce():
        mon.wait_for(lambda: "running" not in mon.state.values(), "threads did not become quiescent")

    def status(tid):
        return [{"idle": 0, "blocked": 1, "parked": 2}[mon.state[tid]], left[tid]]

    def step(tid):
        with mon.cv:
            st = mon.state[tid]
            if st == "idle" and left[tid] > 0:
                left[tid] -= 1
                mon.state[tid] = "running"
                mon.cmd[tid] = "timed" if started[tid] in timed[tid] else "call"
                started[tid] += 1
                mon.cv.notify_all()
            elif st == "parked":
                mon.state[tid] = "running"
                mon.grant[tid] = True
                mon.cv.notify_all()
            quiesce()
            return [status(0), status(1)]

    obs = []
    tries = []

    def try_call(tid):
        # the timed branch of lock_with_timeout: an extra recv_packet(timeout=0) while the receive lock is held
        with mon.cv:
            enabled = mon.state[tid] == "idle" and rlock.locked()
        if enabled:
            try:
                client.recv_packet(timeout=0)
                tries.append(9)
            except TimeoutError:
                tries.append(tid)
            except Exception:
                tries.append(8)
        with mon.cv:
            return [status(0), status(1)]

    try:
        for lab in sched:
            obs.append(step(lab) if lab < 2 else try_call(lab - 2))
        out = [obs, [list(x) for x in mon.log], tr.taken, len(tr.script), tries]
    finally:
        # teardown: no new calls; serve whatever is parked until everything has returned
        try:
            left[0] = left[1] = 0
            for _ in range(10000):
                with mon.cv:
                    parked = [t for t in (0, 1) if mon.state[t] == "parked"]
                    stuck = not parked and "blocked" in mon.state.values()
                if stuck:
                    # nobody will ever release the receive lock (a defect of the code under test): break it open
                    rlock.force_release()
                    with mon.cv:
                        quiesce()
                    continue
                if not parked:
                    break
                tr.script.clear()       # anything still parked reads end-of-stream
                step(parked[0])
        finally:
            with mon.cv:
                mon.cmd[0] = mon.cmd[1] = "stop"
                mon.cv.notify_all()
            for t in threads:
                t.join(WATCHDOG)
            ep.close()
    if errors:
        raise errors[0]
    if any(t.is_alive() for t in threads):
        raise HarnessTimeout("a receiver thread is still alive")
    return out


# ---------------------------------------------------------------- end-to-end over the REAL asyncio stream transport

class _OpenFakeSocket(FakeSocket):
    def fileno(self):
        return 99       # "open": address lookups through the typed attributes are allowed


class KernelTransport:
    """Stands for asyncio's selector socket transport + the kernel: bytes sent by the peer sit in [kbuf]; a read event
    (level-triggered: one per loop iteration while bytes remain) does what _SelectorSocketTransport._read_ready__get_buffer
    does: protocol.get_buffer(-1), recv_into, protocol.buffer_updated(n) / eof_received()."""

    def __init__(self, loop):
        self._loop = loop
        self.kbuf = bytearray()
        self.peer_closed = False
        self.eof_delivered = False
        self.closed = False
        self.paused = False
        self.scheduled = False
        self.proto = None
        self._sock = _OpenFakeSocket()

    # -- asyncio.Transport surface used by the adapter / protocol
    def get_extra_info(self, name, default=None):
        return {"socket": self._sock, "sockname": self._sock.getsockname(), "peername": self._sock.getpeername()}.get(name, default)

    def set_protocol(self, proto):
        self.proto = proto

    def get_protocol(self):
        return self.proto

    def is_closing(self):
        return self.closed

    def close(self):
        if not self.closed:
            self.closed = True
            self._loop.call_soon(self.proto.connection_lost, None)

    abort = close

    def fatal(self, exc):
        """asyncio's _fatal_error()/_force_close(): the transport reports closing at once, the protocol is told next turn"""
        if not self.closed:
            self.closed = True
            self.kbuf.clear()
            self._loop.call_soon(self.proto.connection_lost, exc)

    def reset(self):
        """the peer's RST: what is still in the kernel is discarded, the loop force-closes the transport"""
        self.fatal(ConnectionResetError(_errno.ECONNRESET, "scripted reset"))

    def set_write_buffer_limits(self, high=None, low=None):
        pass

    def get_write_buffer_size(self):
        return 0

    def get_write_buffer_limits(self):
        return (0, 0)

    def can_write_eof(self):
        return True

    def write_eof(self):
        pass

    def write(self, data):
        pass

    def writelines(self, data):
        pass

    def is_reading(self):
        return not self.paused and not self.closed

    def pause_reading(self):
        self.paused = True

    def resume_reading(self):
        self.paused = False
        self.schedule_read()

    # -- the loop's side
    def schedule_read(self):
        if not self.scheduled and not self.closed and not self.paused and \
                (self.kbuf or (self.peer_closed and not self.eof_delivered)):
            self.scheduled = True
            self._loop.call_soon(self.read_ready, True)

    def read_ready(self, auto=False):
        if auto:
            self.scheduled = False
        if self.closed or self.paused:
            return
        if self.kbuf:
            buf = self.proto.get_buffer(-1)
            with memoryview(buf) as mv:
                if not mv.nbytes:
                    # what _SelectorSocketTransport._read_ready__get_buffer does: a fatal error, the connection is dropped
                    del buf
                    self.fatal(RuntimeError("get_buffer() returned an empty buffer"))
                    return
                n = min(mv.nbytes, len(self.kbuf))
                mv[:n] = self.kbuf[:n]
            del buf
            del self.kbuf[:n]
            self.proto.buffer_updated(n)
        elif self.peer_closed and not self.eof_delivered:
            self.eof_delivered = True
            if not self.proto.eof_received():
                self.close()
        self.schedule_read()


_SIZED = {}


def _sized_protocol(base, max_size):
    """the real protocol, optionally with a smaller buffer (max_size bytes): its high/low-water marks scale with it
    (3/4 and 3/16 of the size), so the pause_reading()/resume_reading() bookkeeping is reached with small streams"""
    if not max_size:
        return base
    if max_size not in _SIZED:
        _SIZED[max_size] = type("SizedProtocol", (base,), {"__slots__": (), "max_size": max_size})
    return _SIZED[max_size]


async def _run_e2e(inp):
    import asyncio
    from easynetwork.clients.async_tcp import AsyncTCPNetworkClient
    from easynetwork.lowlevel.api_async.backend._asyncio.stream.socket import (
        AsyncioTransportStreamSocketAdapter, StreamReaderBufferedProtocol)
    from easynetwork.lowlevel.api_async.backend.utils import new_builtin_backend
    from easynetwork.lowlevel.api_async.endpoints.stream import AsyncStreamEndpoint

    _tag, case, turns = inp[:3]
    max_size = inp[3] if len(inp) > 3 else 0
    kind, cfg, _dec, _oracle, _calls, _mode, bufsize, api, impl = case[:9]
    loop = asyncio.get_running_loop()
    ktr = KernelTransport(loop)
    proto = _sized_protocol(StreamReaderBufferedProtocol, max_size)(loop=loop)
    ktr.set_protocol(proto)
    proto.connection_made(ktr)
    if api == 1:
        backend = _make_backend(None)
        adapter = AsyncioTransportStreamSocketAdapter(backend, ktr, proto)
        backend._tr = adapter
        target = AsyncTCPNetworkClient(("127.0.0.1", 1), _protocol(kind, cfg, impl), backend, max_recv_size=bufsize)
    else:
        backend = new_builtin_backend("asyncio")
        adapter = AsyncioTransportStreamSocketAdapter(backend, ktr, proto)
        target = AsyncStreamEndpoint(adapter, _protocol(kind, cfg, impl), max_recv_size=bufsize)

    tasks = []

    def start_call():
        if not tasks or tasks[-1].done():
            tasks.append(loop.create_task(target.recv_packet()))

    def cancel_call():
        if tasks and not tasks[-1].done():
            tasks[-1].cancel()

    async def settle():
        for _ in range(8):
            await asyncio.sleep(0)

    def outcome(t):
        if t.cancelled():
            return None
        exc = t.exception()
        if exc is None:
            return [0, sc.canon_packet(t.result())]
        return classify(exc)

    try:
        for turn in turns:
            for act in turn:
                if act[0] == 0:
                    loop.call_soon(start_call)
                elif act[0] == 1:
                    loop.call_soon(cancel_call)
                elif act[0] == 2:
                    ktr.kbuf += act[1]
                    loop.call_soon(ktr.read_ready)
                elif act[0] == 4:
                    loop.call_soon(ktr.reset)
                else:
                    ktr.peer_closed = True
                    loop.call_soon(ktr.read_ready)
            await settle()
        ktr.peer_closed = True
        ktr.schedule_read()
        await settle()
        for _ in range(64):
            done = [outcome(t) for t in tasks if t.done()]
            if [2] in done:
                break
            start_call()
            await asyncio.wait([tasks[-1]])
        out = []
        for t in tasks:
            if not t.done():
                t.cancel()
                continue
            r = outcome(t)
            if r is None:
                continue
            out.append(r)
            if r == [2]:
                break
        if out and out[-1] == [2]:
            # once reported, always reported: one more call after end-of-stream
            extra = loop.create_task(target.recv_packet())
            await asyncio.wait([extra], timeout=None)
            out.append(outcome(extra))
        return out
    finally:
        for t in tasks:
            if not t.done():
                t.cancel()
        await target.aclose()


def run_e2e(inp):
    import asyncio
    loop = _loop()
    asyncio.set_event_loop(loop)
    loop.steps = 0
    loop._vtime = 0.0
    try:
        return loop.run_until_complete(_run_e2e(inp))
    finally:
        asyncio.set_event_loop(None)


def run_impl(inp):
    with warnings.catch_warnings():
        warnings.simplefilter("ignore")
        if inp[0] == 300:
            return run_e2e(inp)
        if inp[0] == 200:
            return run_threads(inp)
        return run_blocking(inp) if inp[5] == 0 else run_async(inp)


# ---------------------------------------------------------------- cases

FRAMINGS = [
    # (kind pair (copying, buffered), cfg builder, impl, frames: valid, bad, empty, partial)
    dict(name="lf", kinds=(0, 1), cfg=[b"\n", 12, 0], impl=[b"autosep-ascii"], dec=1,
         valid=[b"a\n", b"bc\n"], bad=[b"\xff\n"], empty=[b"\n"], partial=[b"d", b"de"]),
    dict(name="crlf", kinds=(0, 1), cfg=[b"\r\n", 12, 0], impl=[b"autosep-ascii"], dec=1,
         valid=[b"a\r\n", b"\rb\r\n"], bad=[b"\xfe\r\n"], empty=[b"\r\n"], partial=[b"c\r", b"\r"]),
    dict(name="fixed2", kinds=(2, 3), cfg=[2], impl=[b"fixed-ascii"], dec=1,
         valid=[b"ab", b"cd"], bad=[b"\xffz"], empty=[], partial=[b"e"]),
    dict(name="lf-limit5", kinds=(0, 1), cfg=[b"\n", 5, 0], impl=[b"autosep-ascii"], dec=1,
         valid=[b"a\n", b"bc\n"], bad=[b"\xff\n", b"toolong\n"], empty=[b"\n"], partial=[b"d"]),
]

TIMEOUTS = [[], [0], [3]]


def mk(fr, buffered, oracle, calls, mode, bufsize, api):
    kind = fr["kinds"][1 if buffered else 0]
    cfg = list(fr["cfg"])
    if kind == 1:
        cfg = cfg + [bufsize]
    if kind == 3:
        cfg = cfg + [bufsize]
    return [kind, cfg, fr["dec"], oracle, calls, mode, bufsize, api, fr["impl"]]


def build_oracle(chunks, gaps, dts, eof, tail):
    """chunks: list of bytes; gaps[i] true = silence before chunk i (gaps has len(chunks)+1 entries: last = before eof)"""
    o = []
    for i, ch in enumerate(chunks):
        if gaps[i]:
            o.append([2])
        o.append([0, ch, dts[i % len(dts)] if dts else 0])
    if gaps[len(chunks)]:
        o.append([2])
    if eof:
        o.append([1])
    o.extend(tail)
    return o


def _nontrivial(stream_total, k, impl_out_hint):
    return True


def _single_cases(tier, rng, escalate):
    thorough = tier == "thorough" or escalate
    max_all = 5 if thorough else 4
    for fr in FRAMINGS:
        frames_pool = fr["valid"] + fr["bad"] + fr["empty"]
        seqs = [[]]
        for n in (1, 2, 3):
            allseq = list(itertools.product(frames_pool, repeat=n))
            if n == 3 or (n == 2 and not thorough):
                rng.shuffle(allseq)
                allseq = allseq[: (12 if thorough else 6)]
            seqs.extend(list(s) for s in allseq)
        for frames in seqs:
            for partial in [b""] + fr["partial"][: (2 if thorough else 1)]:
                full = b"".join(frames) + partial
                # complete-frame boundaries of the full stream
                bounds, pos = {0}, 0
                for f in frames:
                    pos += len(f)
                    bounds.add(pos)
                for k in range(len(full) + 1):          # the peer closes after k bytes
                    stream = full[:k]
                    inside = k not in bounds
                    if len(stream) <= max_all:
                        chunkings = list(sc.all_chunkings(stream))
                        ctag = "all-chunkings"
                    else:
                        chunkings = [[stream], [stream[i:i + 1] for i in range(len(stream))]]
                        for _ in range(3 if thorough else 1):
                            cuts = [c for c in range(1, len(stream)) if rng.random() < 0.4]
                            chunkings.append(sc.cuts_to_chunks(stream, cuts))
                        ctag = "sampled-chunkings"
                    if not thorough and len(chunkings) > 6:
                        rng.shuffle(chunkings)
                        chunkings = chunkings[:6]
                    for chunks in chunkings:
                        buffered = rng.random() < 0.5
                        mode = rng.choice([0, 0, 1])
                        api = rng.choice([0, 1])
                        bufsize = rng.choice([1, 2, 3, 64])
                        ngaps = len(chunks) + 1
                        if ngaps <= 2 and rng.random() < 0.5:
                            gap_patterns = list(itertools.product([0, 1], repeat=ngaps))
                        else:
                            gap_patterns = [tuple(int(rng.random() < 0.35) for _ in range(ngaps))]
                        for gaps in gap_patterns:
                            dts = [rng.choice([0, 1, 2, 5]) for _ in range(3)] if mode == 0 else [0]
                            tail = []
                            if rng.random() < 0.3:
                                tail = [[0, b"zz\n", 0]] if rng.random() < 0.5 else [[2], [0, b"q", 0], [1]]
                            eof = rng.random() < 0.85 or bool(tail)
                            oracle = build_oracle(chunks, gaps, dts, eof, tail)
                            nev = len(frames) + 2
                            hist = []
                            use_iter = api == 1 and rng.random() < 0.3
                            if use_iter:
                                hist.append([1, rng.choice([[], [0], [3], [8]]), rng.randint(1, nev + 1)])
                                hist.append([0, rng.choice(TIMEOUTS)])
                                hist.append([1, rng.choice(TIMEOUTS), 2])
                                hist.append([0, []])
                            else:
                                n = rng.randint(1, 5)
                                hist = [[0, rng.choice(TIMEOUTS)] for _ in range(n)]
                                hist += [[0, []] for _ in range(rng.randint(0, nev))]
                                hist += [[0, rng.choice(TIMEOUTS)] for _ in range(rng.randint(0, 2))]
                            tags = [fr["name"], "buffered" if buffered else "copying",
                                    "async" if mode else "blocking", "client" if api else "endpoint", ctag,
                                    "close-inside-frame" if inside else "close-at-boundary",
                                    "iter" if use_iter else "recv", f"bufsize{bufsize}",
                                    "silence" if any(gaps) else "no-silence", "data-after-eof" if tail else "plain-eof"]
                            yield dict(input=mk(fr, buffered, oracle, hist, mode, bufsize, api), tags=tags,
                                       nontrivial=bool(inside or any(gaps) or len(frames) >= 2))
    # the peer RESETs with complete packets still buffered in the client's consumer (several packets in one segment)
    for fr in FRAMINGS[:3]:
        for mode in (0, 1):
            for api in (0, 1):
                for buffered in (False, True):
                    for nbuf in (2, 3):
                        chunk = b"".join((fr["valid"] * 2)[: nbuf])
                        for pre in ([], [[0, fr["valid"][0], 0]]):
                            oracle = pre + [[0, chunk, 0], [3, 0], [1]]
                            hist = [[0, []]] * (nbuf + len(pre) + 3)
                            yield dict(input=mk(fr, buffered, oracle, hist, mode, 64, api),
                                       tags=[fr["name"], "peer-reset-with-buffered-packets", "client" if api else "endpoint",
                                             "async" if mode else "blocking", "buffered" if buffered else "copying"],
                                       nontrivial=True)
    # transport errors (client conversion)
    for fr in FRAMINGS[:3]:
        for k in (0, 1, 2):
            for mode in (0, 1):
                for api in (0, 1):
                    for buffered in (False, True):
                        oracle = [[0, fr["valid"][0], 0], [3, k], [0, fr["valid"][1], 0], [1]]
                        hist = [[0, []]] * 5
                        yield dict(input=mk(fr, buffered, oracle, hist, mode, 64, api),
                                   tags=[fr["name"], "transport-error", f"errkind{k}", "client" if api else "endpoint",
                                         "async" if mode else "blocking"], nontrivial=True)


def _threaded_cases(tier, rng, escalate):
    thorough = tier == "thorough" or escalate
    n = 2500 if thorough else 350
    for fr in FRAMINGS[:3]:
        pool = fr["valid"] + fr["bad"] + fr["empty"]
        for _ in range(n // 3):
            frames = [rng.choice(pool) for _ in range(rng.randint(1, 4))]
            stream = b"".join(frames) + (rng.choice(fr["partial"]) if rng.random() < 0.3 else b"")
            r = rng.random()
            if r < 0.35:
                chunks = [stream]                       # several packets in ONE segment
            elif r < 0.5:
                chunks = [stream[i:i + 1] for i in range(len(stream))]
            else:
                chunks = sc.cuts_to_chunks(stream, [c for c in range(1, len(stream)) if rng.random() < 0.35])
            oracle = [[0, ch, 0] for ch in chunks] + [[1]]
            buffered = rng.random() < 0.5
            bufsize = rng.choice([2, 3, 64, 64])
            na, nb = rng.randint(1, 3), rng.randint(1, 3)
            first = rng.choice([0, 1])
            r2 = rng.random()
            if r2 < 0.5:
                head = [first, 1 - first]           # the second call starts while the first is parked
            elif r2 < 0.75:
                head = [first, 2 + (1 - first), 1 - first]   # ... preceded by a timeout-0 call that finds the lock held
            else:
                head = []
            head += [rng.choice([0, 1, 0, 1, 0, 1, 2, 3]) for _ in range(rng.randint(2, 8))]
            nsteps = sum(len(ch) + 1 for ch in chunks) + na + nb + 3
            tail = [i % 2 for i in range(2 * nsteps)]
            case = mk(fr, buffered, oracle, [], 0, bufsize, 1)
            timed = [[i for i in range(n_) if rng.random() < 0.4] for n_ in (na, nb)]
            yield dict(input=[200, case, head + tail, na, nb, timed],
                       tags=["two-threads", fr["name"], "buffered" if buffered else "copying",
                             "second-call-while-first-parked" if len(head) >= 2 and head[0] != head[1] else "uncontended-start",
                             "lock-timeout-calls" if any(x >= 2 for x in head) else "no-lock-timeout-calls",
                             "finite-timeout-calls" if any(timed) else "all-blocking-calls",
                             "one-segment" if len(chunks) == 1 else "several-segments"],
                       nontrivial=bool(len(head) >= 2 and head[0] != head[1]))


def _e2e_cases(tier, rng, escalate):
    """real asyncio transport: sends, read events, cancellations of the pending call and new calls in every order
    inside one loop iteration; data buffered in the protocol before a call; max_recv_size around the buffered amount"""
    thorough = tier == "thorough" or escalate
    n = 6000 if thorough else 900
    R, C, F = [0], [1], [3]
    for fr in FRAMINGS[:3]:
        pool = fr["valid"] + fr["bad"] + fr["empty"]
        for _ in range(n // 3):
            frames = [rng.choice(pool) for _ in range(rng.randint(1, 4))]
            stream = b"".join(frames) + (rng.choice(fr["partial"]) if rng.random() < 0.3 else b"")
            r = rng.random()
            if r < 0.3:
                chunks = [stream]
            elif r < 0.45:
                chunks = [stream[i:i + 1] for i in range(len(stream))]
            else:
                chunks = sc.cuts_to_chunks(stream, [c for c in range(1, len(stream)) if rng.random() < 0.4])
            turns, flavours = [], set()
            if rng.random() < 0.6:
                turns.append([R])
            for ch in chunks:
                S = [2, ch]
                pat = rng.choice(["S", "RS", "SR", "CS", "SC", "CSR", "SCR", "S", "SC", "CS"])
                turn = [{"S": S, "R": R, "C": C}[x] for x in pat]
                flavours.add(pat)
                turns.append(turn)
                if rng.random() < 0.5:
                    turns.append([rng.choice([R, R, C])])
            if rng.random() < 0.35 and turns and turns[-1] and turns[-1][-1][0] == 2:
                turns[-1].append(F)             # the last bytes and the FIN are seen in the same loop iteration
                flavours.add("SF")
            turns.append(rng.choice([[F], [F, C], [C, F], [R, F], [F, R]]))
            buffered = rng.random() < 0.5
            bufsize = rng.choice([1, 2, 3, 4, 64])
            api = rng.choice([0, 1])
            oracle = [[0, ch, 0] for ch in chunks] + [[1]]
            case = mk(fr, buffered, oracle, [], 1, bufsize, api)
            tags = ["real-asyncio-transport", fr["name"], "buffered" if buffered else "copying",
                    "client" if api else "endpoint", f"bufsize{bufsize}"]
            if flavours & {"CS", "CSR"}:
                tags.append("cancel-then-read-event-same-iteration")
            if flavours & {"SC", "SCR"}:
                tags.append("read-event-then-cancel-same-iteration")
            if "SF" in flavours:
                tags.append("data-and-eof-same-iteration")
            yield dict(input=[300, case, turns], tags=tags, nontrivial=bool(flavours - {"S"}))


BIG_LF = dict(name="lf-big", kinds=(0, 1), cfg=[b"\n", 200000, 0], impl=[b"autosep-ascii"], dec=1)


def _reset_e2e_cases(tier, rng, escalate):
    """async TCP client over the real transport: several packets in one segment, one taken, then the peer RESETs (the loop
    force-closes the transport): the packets already in the client's consumer must still be delivered, then the abort"""
    R, C = [0], [1]
    for fr in FRAMINGS[:3]:
        for buffered in (False, True):
            for nbuf in (2, 3, 4):
                chunk = b"".join((fr["valid"] * 2)[:nbuf])
                if len(chunk) > 10:
                    continue        # must fit the buffered consumer's allocation: what stays in the protocol is dropped by a reset
                for taken in range(0, nbuf):
                    turns = [[R], [[2, chunk]]] + [[R]] * taken + [rng.choice([[[4]], [[4], R], [R, [4]] if taken < nbuf - 1 else [[4]]])]
                    oracle = [[0, chunk, 0], [3, 0], [1]]
                    case = mk(fr, buffered, oracle, [], 1, 64, 1)
                    yield dict(input=[300, case, turns],
                               tags=["real-asyncio-transport", fr["name"], "peer-reset-with-buffered-packets",
                                     "buffered" if buffered else "copying", "client"], nontrivial=True)


def _flow_cases(tier, rng, escalate):
    """read flow control of the real protocol: the peer sends a backlog above the high-water mark while no receive is
    pending (pause_reading), then receives with max_recv_size below / between / above the water marks, more data, the close.
    Scaled protocol (buffer 2048: marks 1024 / 256) for volume, a few cases with the real 256 KiB buffer (192 / 48 KiB)."""
    thorough = tier == "thorough" or escalate
    plans = [(2048, 60 if not thorough else 400), (0, 1 if not thorough else 6)]
    R, C, F = [0], [1], [3]
    for max_size, count in plans:
        size = max_size or 262144
        high, low = size * 3 // 4, size * 3 // 16
        for _ in range(count):
            frames = []
            total = 0
            target = rng.choice([high + 10, high + high // 4, size + size // 3, 2 * size] if max_size else [high + 10, high + high // 8])
            while total < target:
                n = rng.randint(max(1, low // 3), max(2, high // 2))
                f = bytes(rng.choice(b"abcdefgh") for _ in range(n)) + b"\n"
                frames.append(f)
                total += len(f)
            stream = b"".join(frames)
            cuts = sorted({rng.randint(1, len(stream) - 1) for _ in range(rng.randint(0, 3))})
            chunks = sc.cuts_to_chunks(stream, cuts)
            turns = []
            for i, ch in enumerate(chunks):
                turns.append([[2, ch]])
                if rng.random() < 0.6:
                    turns.append([R])
                if rng.random() < 0.2:
                    turns.append([C])
            turns.append(rng.choice([[F], [R, F], [F, R]]))
            buffered = rng.random() < 0.5
            bufsize = rng.choice([low // 2, low + 1, high, size, 2 * size])
            api = rng.choice([0, 1])
            oracle = [[0, ch, 0] for ch in chunks] + [[1]]
            case = mk(BIG_LF, buffered, oracle, [], 1, bufsize, api)
            yield dict(input=[300, case, turns, max_size],
                       tags=["real-asyncio-transport", "flow-control", "buffered" if buffered else "copying",
                             "real-size-buffer" if not max_size else "scaled-buffer",
                             "max_recv_size>=high-water" if bufsize >= high else
                             ("max_recv_size>low-water" if bufsize > low else "max_recv_size<low-water")],
                       nontrivial=True)


def cases(tier, rng, escalate):
    yield from _single_cases(tier, rng, escalate)
    yield from _threaded_cases(tier, rng, escalate)
    yield from _e2e_cases(tier, rng, escalate)
    yield from _reset_e2e_cases(tier, rng, escalate)
    yield from _flow_cases(tier, rng, escalate)


# ---------------------------------------------------------------- the property, stated on the implementation

def _stream_of(oracle):
    s = b""
    for it in oracle:
        if it[0] == 1 or (it[0] == 0 and not it[1]):
            break
        if it[0] == 0:
            s += it[1]
    return s


def _oracle_threads(inp):
    _tag, case, sched, na, nb = inp[:5]
    kind, cfg, _dec, orc, _calls, _mode, bufsize, _api, impl = case[:9]
    stream = _stream_of(orc)
    expected, _left = sc.spec_events_py(kind, cfg, impl, stream)
    exp = [[0, e[1]] if e[0] == 0 else [1, 1] for e in expected]
    obs, log, _taken, _items, tries = run_impl(inp)
    if len(log) < na + nb or (obs and any(st[0] != 0 for st in obs[-1])):
        return (f"two threads: only {len(log)} of {na + nb} recv_packet calls returned, final statuses {obs[-1] if obs else None} "
                f"(1 = waiting for the receive lock): a call is stuck although the transport reached end-of-stream")
    if any(t not in (0, 1) for t in tries):
        return "two threads: recv_packet(timeout=0) with the receive lock held did not raise TimeoutError"
    results = [r for _tid, r in log]
    seen_eof = False
    delivered = []
    for r in results:
        if r == [2]:
            seen_eof = True
            if len(delivered) < len(exp) and not _limit_hit(kind, cfg, stream):
                return (f"two threads: end-of-stream reported after {len(delivered)} results but {len(exp)} complete frames "
                        f"were received before the peer closed")
            continue
        if seen_eof:
            return f"two threads: after end-of-stream was reported, a later call returned {r}"
        if r == [6] or r == [9]:
            return f"two threads: unexpected failure {r}"
        delivered.append(r)
    if not _limit_hit(kind, cfg, stream) and delivered != exp[: len(delivered)]:
        return f"two threads: returned calls {delivered} are not a prefix of the frame-by-frame decoding {exp}"
    return None


def _oracle_e2e(inp):
    _tag, case, turns = inp[:3]
    if inp[3:] and any(len(a) > 1 and len(a[1]) > 64 for t in turns for a in t if a[0] == 2):
        kind, cfg, _dec, orc = case[:4]
        stream = _stream_of(orc)
        exp = [[0, f] for f in stream.split(cfg[0])[:-1]] + [[2], [2]]
        got = run_impl(inp)
        if got != exp:
            return (f"real asyncio transport (flow control): the calls delivered {len(got)} results ending with "
                    f"{got[-1:] } instead of the {len(exp) - 2} packets sent then end-of-stream (twice)")
        return None
    kind, cfg, _dec, orc, _calls, _mode, bufsize, api, impl = case[:9]
    stream = _stream_of([it for it in orc if it[0] != 3])
    expected, _left = sc.spec_events_py(kind, cfg, impl, stream)
    exp = [[0, e[1]] if e[0] == 0 else [1, 1] for e in expected] + [[2], [2]]
    got = run_impl(inp)
    if got != exp:
        return (f"real asyncio transport: the calls that returned delivered {got}, the peer sent {exp[:-2]} then closed "
                f"(cancelled calls must not lose or duplicate anything)")
    return None


def oracle(inp):
    if inp[0] == 300:
        return _oracle_e2e(inp)
    if inp[0] == 200:
        return _oracle_threads(inp)
    kind, cfg, _dec, orc, calls, mode, bufsize, api, impl = inp[:9]
    stream = _stream_of(orc)
    expected, _left = sc.spec_events_py(kind, cfg, impl, stream)
    out = run_impl(inp)
    flat = [e for call in out for e in call]
    delivered = []      # results that are neither timeouts, transport errors nor iterator stops
    aborted_at = None
    for idx, (res, taken, left) in enumerate(flat):
        if aborted_at is not None:
            if res not in ([2], [7]):
                return f"after end-of-stream was reported, a later call returned {res}"
            if (taken, left) != aborted_at:
                return "after end-of-stream was reported, a later call consulted the transport"
            continue
        if res[0] in (3, 4, 5, 7):
            continue
        if res == [6]:
            return "RuntimeError out of recv_packet"
        if res == [2]:
            aborted_at = (taken, left)
            if any(it[0] == 3 and it[1] == 0 for it in orc) and api == 1:
                aborted_at = None   # a converted ConnectionError is not an end-of-stream latch
                before = b""
                for it in orc:
                    if it[0] == 3 and it[1] == 0:
                        break
                    if it[0] == 0:
                        before += it[1]
                nbefore = len(sc.spec_events_py(kind, cfg, impl, before)[0])
                if len(delivered) < nbefore and not _limit_hit(kind, cfg, stream):
                    return (f"connection error reported after {len(delivered)} results but {nbefore} complete frames had "
                            f"been received before the peer's reset")
                continue
            if len(delivered) < len(expected) and not _limit_hit(kind, cfg, stream):
                return (f"end-of-stream reported after {len(delivered)} results but {len(expected)} complete frames "
                        f"were received")
            continue
        delivered.append(res)
    if _limit_hit(kind, cfg, stream):
        return None
    exp = [[0, e[1]] if e[0] == 0 else [1, 1] for e in expected]
    if delivered != exp[: len(delivered)]:
        return f"delivered {delivered} is not a prefix of the frame-by-frame decoding {exp}"
    return None


def _limit_hit(kind, cfg, stream):
    if kind not in (0, 1):
        return False
    sep, limit = cfg[0], cfg[1]
    parts = stream.split(sep)
    return any(len(p) + len(sep) >= limit - 1 for p in parts)


def signature(inp, failure):
    return failure.split(":")[0][:60]


def shrink(inp):
    if inp[0] == 300:
        _tag, case, turns = inp[:3]
        rest = list(inp[3:])
        if any(a[0] == 4 for t in turns for a in t):
            return      # a reset scenario is only meaningful as generated (the endpoint has pulled the data before the reset)
        for i in range(len(turns)):
            if not any(a[0] == 2 for a in turns[i]):
                yield [300, case, turns[:i] + turns[i + 1:]] + rest
        for i in range(len(turns)):
            for j in range(len(turns[i])):
                if turns[i][j][0] != 2 and len(turns[i]) > 1:
                    yield [300, case, turns[:i] + [turns[i][:j] + turns[i][j + 1:]] + turns[i + 1:]] + rest
        return
    if inp[0] == 200:
        _tag, case, sched, na, nb = inp[:5]
        rest = list(inp[5:])
        if any(x >= 2 for x in sched):
            yield [200, case, [x for x in sched if x < 2], na, nb] + rest
        if rest and any(rest[0]):
            for t in (0, 1):
                for i in rest[0][t]:
                    r2 = [list(rest[0][0]), list(rest[0][1])]
                    r2[t].remove(i)
                    yield [200, case, sched, na, nb, r2]
        return
    kind, cfg, dec, orc, calls, mode, bufsize, api, impl = inp[:9]
    for i in range(len(calls)):
        yield [kind, cfg, dec, orc, calls[:i] + calls[i + 1:], mode, bufsize, api, impl]
    for i in range(len(orc)):
        if orc[i][0] == 2:
            yield [kind, cfg, dec, orc[:i] + orc[i + 1:], calls, mode, bufsize, api, impl]
    for i in range(len(orc) - 1):
        if orc[i][0] == 0 and orc[i + 1][0] == 0:
            merged = [0, orc[i][1] + orc[i + 1][1], orc[i][2]]
            yield [kind, cfg, dec, orc[:i] + [merged] + orc[i + 2:], calls, mode, bufsize, api, impl]
