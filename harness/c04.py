"""C04 — send_packet writes exactly the packet's bytes and always terminates.

Case = [path, iov, chunks, T, ri, sock_script, sel_script, impl]   (see coq/Run/C04.v for the first seven fields)
  impl 0  SocketStreamTransport on a scripted socket.socket subclass (path 0, 1, 2)
  impl 1  SSLStreamTransport over a scripted SSL socket object      (path 0, 2)
  impl 2  StreamEndpoint.send_packet over impl 0                    (path 1, 2)
  impl 3  asyncio AsyncioTransportStreamSocketAdapter on the deterministic loop (path 2 semantics: bytes handed over)
  impl 4  AsyncTLSStreamTransport.send_all_from_iterable with a scripted SSL object (path 3)
"""
from __future__ import annotations

import ast
import itertools
import math
import os

import iosim
from common import runner

PROPERTY_ID = "C04"
RUN_MODULE = "Run.C04"
PROPS_FILE = "Props/C04.v"
ALLOWED_AXIOMS = []
ANCHORS = [
    ("src/easynetwork/lowlevel/api_sync/transports/abc.py", "StreamWriteTransport.send_all"),
    ("src/easynetwork/lowlevel/api_sync/transports/abc.py", "StreamWriteTransport.send_all_from_iterable"),
    ("src/easynetwork/lowlevel/api_sync/transports/socket.py", "SocketStreamTransport.send_noblock"),
    ("src/easynetwork/lowlevel/api_sync/transports/socket.py", "SocketStreamTransport.send_all_from_iterable"),
    ("src/easynetwork/lowlevel/api_sync/transports/socket.py", "SSLStreamTransport.send_noblock"),
    ("src/easynetwork/lowlevel/api_sync/transports/socket.py", "SSLStreamTransport.send_all_from_iterable"),
    ("src/easynetwork/lowlevel/api_sync/transports/socket.py", "SSLStreamTransport._try_ssl_method"),
    ("src/easynetwork/lowlevel/api_sync/transports/base_selector.py", "SelectorBaseTransport._retry"),
    ("src/easynetwork/lowlevel/api_sync/transports/base_selector.py", "SelectorStreamWriteTransport.send"),
    ("src/easynetwork/lowlevel/_utils.py", "adjust_leftover_buffer"),
    ("src/easynetwork/lowlevel/_utils.py", "ElapsedTime.recompute_timeout"),
    ("src/easynetwork/lowlevel/api_sync/endpoints/stream.py", "_DataSenderImpl.send"),
    ("src/easynetwork/lowlevel/api_sync/endpoints/stream.py", "StreamEndpoint.send_packet"),
    ("src/easynetwork/lowlevel/_stream.py", "StreamDataProducer.generate"),
    ("src/easynetwork/lowlevel/_utils.py", "lock_with_timeout"),
    ("src/easynetwork/clients/tcp.py", "TCPNetworkClient.send_packet"),
    ("src/easynetwork/lowlevel/api_async/backend/_asyncio/stream/socket.py",
     "AsyncioTransportStreamSocketAdapter.send_all_from_iterable"),
    ("src/easynetwork/lowlevel/api_async/backend/_asyncio/stream/socket.py", "AsyncioTransportStreamSocketAdapter.send_all"),
    ("src/easynetwork/lowlevel/api_async/transports/tls.py", "AsyncTLSStreamTransport.send_all_from_iterable"),
    ("src/easynetwork/lowlevel/api_async/transports/tls.py", "AsyncTLSStreamTransport.__write_all_to_ssl_object"),
    ("src/easynetwork/lowlevel/api_async/transports/abc.py", "AsyncStreamWriteTransport.send_all_from_iterable"),
    ("src/easynetwork/lowlevel/api_async/backend/_asyncio/_flow_control.py", "WriteFlowControl.drain"),
    ("src/easynetwork/lowlevel/api_async/backend/_asyncio/_flow_control.py", "WriteFlowControl.connection_lost"),
]
RULE = ("chunk lists: every list of <= 3 (thorough: 4) chunks with lengths in {0,1,3} (thorough {0,1,2,5}), distinct byte "
        "values so that reordering/duplication is visible; socket scripts: every sequence of <= 2 (thorough 3) answers over "
        "{accept 1, accept 2, accept all, EAGAIN, EINTR, ECONNRESET} plus random longer ones incl. accept-0 and call costs; "
        "SC_IOV_MAX in {0, 1, 2, 1024}; timeouts {0,1,3,8,inf,-1} x retry_interval {1,2,inf} x random selector answers; "
        "transports: plain socket with sendmsg, without sendmsg, SSL socket object, StreamEndpoint.send_packet, asyncio "
        "adapter, async TLS backlog.  Non-trivial = an empty chunk, a partial write, a would-block answer or an error.")
TRUSTED = [
    "models coq/IO/{Retry,SendAll,SendMsg,TlsWrite}.v hand-written from base_selector.py/abc.py/socket.py/_utils.py/tls.py",
    "harness/iosim.py: scripted socket.socket subclass on a socketpair, scripted selector, virtual clock over time.perf_counter",
    "Gen/ParamsC04.v: whether send_all_from_iterable drops empty views, read from the AST (fail-closed)",
]
ASSUMPTIONS = [
    "kernel/SSL contract: send()/sendmsg() accept 0..available bytes or raise; an exhausted script accepts everything",
    "the selector reports what the script says; elapsed times and call costs are non-negative integers of ticks",
]

F2_SIG = "F2:sendmsg-empty-view-spin"
F9_SIG = "F9:asyncio-writelines-empty-iterable"


# ---------------------------------------------------------------------------------------------------------------
# Gen/ParamsC04.v : does SocketStreamTransport.send_all_from_iterable drop empty views when it builds its deque?
# The model has three switches that depend on the tree it is run against:
#   sendmsg_drops_empty_views                does send_all_from_iterable drop empty views when it builds its deque?
#   (fall-back table)                        sendmsg loop iff the socket has sendmsg and SC_IOV_MAX > 0, else join + send_all
#   asyncio_adapter_guards_empty_iterable    is transport.writelines() skipped for an empty chunk list?
# They are decided BEHAVIOURALLY: the real methods are run on a scripted socket over a decisive grid and the answers are
# tabulated (`probe_*`).  The AST is read by data flow as a cross-check only: where it recognises the construction it
# must agree with the probes (disagreement = fail closed); a shape it does not recognise is not an error.
_switch_cache = {}


class _RecordingSocket(iosim.ScriptedSocket):
    """Scripted socket that also records what every sendmsg()/send() call was given (lengths of the buffers)."""

    def sendmsg(self, buffers, *a):
        bufs = [bytes(memoryview(b).cast("B")) if memoryview(b).itemsize != 1 else bytes(b) for b in buffers]
        self.script.trace.append(("sendmsg", [len(b) for b in bufs]))
        return super().sendmsg(bufs, *a)

    def send(self, data, *flags):
        self.script.trace.append(("send", [memoryview(data).nbytes]))
        return super().send(data, *flags)


class _RecordingNoSendmsg(_RecordingSocket):
    @property
    def sendmsg(self):
        raise AttributeError("sendmsg")


def _probe_send_iter(lengths, iov, has_sendmsg=True, sscript=()):
    """Run the REAL SocketStreamTransport.send_all_from_iterable once; -> (trace of socket calls, terminated?, wire ok?)"""
    from easynetwork.lowlevel import constants
    from easynetwork.lowlevel.api_sync.transports.socket import SocketStreamTransport

    chunks = mk_chunks(lengths)
    clock = iosim.Clock()
    sel = iosim.SelectorScript(clock, [])
    script = iosim.SockScript(clock, send=[tuple(a) for a in sscript], bound=sum(lengths) + len(lengths) + len(sscript) + 4)
    script.trace = []
    sock, peer = iosim.make_pair(_RecordingSocket if has_sendmsg else _RecordingNoSendmsg, script)
    transport = SocketStreamTransport(sock, 1.0, selector_factory=sel.factory)
    saved = constants.SC_IOV_MAX
    constants.SC_IOV_MAX = iov
    terminated = True
    try:
        with clock.installed(), iosim.alarm(120.0):
            try:
                transport.send_all_from_iterable(iter(list(chunks)), math.inf)
            except iosim.SpinDetected:
                terminated = False
        wire = iosim.drain(peer)
    finally:
        constants.SC_IOV_MAX = saved
        transport.close()
        peer.close()
    return script.trace, terminated, wire == b"".join(chunks)


def probe_empty_view_policy():
    """-> ('all' | 'none', table)   which empty views the sendmsg path drops before its loop, from behaviour alone.
    Grid: SC_IOV_MAX in {1, 2, 3}; empty chunks alone, leading, in the middle, trailing, in runs of SC_IOV_MAX-1,
    SC_IOV_MAX and SC_IOV_MAX+1; every run is bounded (spin detector).  'all': no sendmsg() call ever receives an empty
    buffer.  'none': the first call receives exactly the first SC_IOV_MAX chunks as given.  Anything else (e.g. only
    trailing ones dropped) is outside the model: fail closed with the table."""
    table = []
    never_empty, kept_as_given = True, True
    for k in (1, 2, 3):
        lists = [[0], [0, 0], [0, 2], [2, 0], [2, 0, 3], [0, 2, 0]]
        for r in sorted({max(k - 1, 1), k, k + 1}):
            lists += [[0] * r + [2], [2] + [0] * r + [3], [2] + [0] * r, [0] * r]
        for lengths in lists:
            trace, terminated, wire_ok = _probe_send_iter(lengths, k)
            calls = [c[1] for c in trace if c[0] == "sendmsg"]
            passed_empty = any(0 in c for c in calls)
            table.append((k, lengths, calls[:3], terminated, wire_ok))
            if passed_empty or not terminated:
                never_empty = False
            if not calls or calls[0] != lengths[:k]:
                kept_as_given = False
    if never_empty and all(t[3] and t[4] for t in table):
        return "all", table
    if kept_as_given:
        return "none", table
    bad = [t for t in table if not t[3] or any(0 in c for c in t[2])][:4]
    raise runner.TranslateError("send_all_from_iterable (sendmsg path) neither drops every empty view nor keeps them all "
                                f"(SC_IOV_MAX, chunk lengths, first sendmsg calls, terminated, wire ok): {bad}")


def probe_fallback_table():
    """Which path is taken for which (has_sendmsg, SC_IOV_MAX): the model takes the sendmsg loop iff both hold."""
    got = {}
    for hs, iov in ((True, 1), (True, 1024), (True, 0), (True, -1), (False, 1), (False, 1024)):
        trace, terminated, wire_ok = _probe_send_iter([2, 3], iov, has_sendmsg=hs)
        kinds = {c[0] for c in trace}
        got[(hs, iov)] = ("sendmsg" if kinds == {"sendmsg"} else "join" if kinds == {"send"} and [c[1] for c in trace] == [[5]]
                          else f"other:{trace}")
        want = "sendmsg" if (hs and iov > 0) else "join"
        if got[(hs, iov)] != want or not terminated or not wire_ok:
            raise runner.TranslateError(f"fall-back table: has_sendmsg={hs}, SC_IOV_MAX={iov}: the code takes "
                                        f"{got[(hs, iov)]}, the model {want}")
    return got


def probe_adapter_empty_iterable():
    """Does AsyncioTransportStreamSocketAdapter.send_all_from_iterable([]) return (guarded) or hit asyncio's assertion?"""
    import c04_async
    out = c04_async.run_asyncio_adapter([4, 1024, [], [], [], [], [], 3])
    if out[0] == 0:
        return True
    if out[0] == 30:
        return False
    raise runner.TranslateError(f"asyncio adapter with an empty chunk list: unexpected outcome code {out[0]}")


# ---- AST cross-check, by data flow (returns None when the construction is not recognised)
def _is_truthy_test(node, var):
    """`var`, `var.nbytes`, `len(var)`, `... > 0`, `... != 0`"""
    def base(n):
        if isinstance(n, ast.Name) and n.id == var:
            return True
        if isinstance(n, ast.Attribute) and n.attr == "nbytes" and isinstance(n.value, ast.Name) and n.value.id == var:
            return True
        return (isinstance(n, ast.Call) and isinstance(n.func, ast.Name) and n.func.id == "len" and len(n.args) == 1
                and isinstance(n.args[0], ast.Name) and n.args[0].id == var)
    if base(node):
        return True
    return (isinstance(node, ast.Compare) and len(node.ops) == 1 and isinstance(node.ops[0], (ast.Gt, ast.NotEq))
            and base(node.left) and isinstance(node.comparators[0], ast.Constant) and node.comparators[0].value == 0)


def _find_method(relpath, clsname, name, kinds=(ast.FunctionDef, ast.AsyncFunctionDef)):
    try:
        tree = ast.parse(open(os.path.join(runner.REPO, relpath)).read())
    except (SyntaxError, OSError):
        return None
    for cls in tree.body:
        if isinstance(cls, ast.ClassDef) and cls.name == clsname:
            for fn in cls.body:
                if isinstance(fn, kinds) and fn.name == name:
                    return fn
    return None


def ast_drops_empty_views():
    """True / False when the construction of the deque is recognised by data flow, None otherwise.
    The deque is whatever local is handed to adjust_leftover_buffer(); recognised constructions:
      deque(map(memoryview, it))                         keeps        deque(filter(f, map(memoryview, it)))       drops
      deque(v for v in map(memoryview, it) [if test])    keeps/drops  deque() + for x in it: [v = memoryview(x)] [if test:] D.append(v)
    Any other statement that edits the deque before the loop (pop, remove, clear, slicing ...) -> None."""
    fn = _find_method("src/easynetwork/lowlevel/api_sync/transports/socket.py", "SocketStreamTransport", "send_all_from_iterable")
    if fn is None:
        return None
    names = {ast.unparse(c.args[0]) for c in ast.walk(fn)
             if isinstance(c, ast.Call) and isinstance(c.func, ast.Attribute) and c.func.attr == "adjust_leftover_buffer" and c.args}
    if len(names) != 1:
        return None
    dq = names.pop()
    verdict = None
    for st in fn.body:
        targets = []
        if isinstance(st, ast.AnnAssign) and isinstance(st.target, ast.Name):
            targets, value = [st.target.id], st.value
        elif isinstance(st, ast.Assign):
            targets, value = [t.id for t in st.targets if isinstance(t, ast.Name)], st.value
        if dq in targets:
            if not (isinstance(value, ast.Call) and ast.unparse(value.func).endswith("deque")):
                return None
            if not value.args:
                verdict = "empty"
                continue
            arg = value.args[0]
            if isinstance(arg, ast.Call) and ast.unparse(arg.func) == "map" and ast.unparse(arg.args[0]) == "memoryview":
                verdict = False
            elif isinstance(arg, ast.Call) and ast.unparse(arg.func) == "filter" and len(arg.args) == 2:
                verdict = True
            elif isinstance(arg, (ast.GeneratorExp, ast.ListComp)) and len(arg.generators) == 1 \
                    and isinstance(arg.generators[0].target, ast.Name):
                g = arg.generators[0]
                if not g.ifs:
                    verdict = False
                elif len(g.ifs) == 1 and _is_truthy_test(g.ifs[0], g.target.id):
                    verdict = True
                else:
                    return None
            else:
                return None
            continue
        if isinstance(st, ast.For) and verdict == "empty" and any(
                isinstance(x, ast.Call) and ast.unparse(x.func) == f"{dq}.append" for x in ast.walk(st)):
            guarded = [n for n in st.body if isinstance(n, ast.If)
                       and any(isinstance(x, ast.Call) and ast.unparse(x.func) == f"{dq}.append" for x in ast.walk(n))]
            plain = [n for n in st.body if isinstance(n, ast.Expr) and isinstance(n.value, ast.Call)
                     and ast.unparse(n.value.func) == f"{dq}.append"]
            if plain and not guarded:
                verdict = False
            elif guarded and not plain and len(guarded) == 1 and not guarded[0].orelse:
                test = guarded[0].test
                var = next((x.id for x in ast.walk(test) if isinstance(x, ast.Name) and x.id != "len"), None)
                verdict = True if (var and _is_truthy_test(test, var)) else None
                if verdict is None:
                    return None
            else:
                return None
            continue
        # any other top-level statement that edits the deque (outside the send loop and the sendmsg closure)
        if isinstance(st, (ast.While, ast.FunctionDef)):
            if isinstance(st, ast.While) and not any(
                    isinstance(x, ast.Call) and isinstance(x.func, ast.Attribute) and x.func.attr == "_retry" for x in ast.walk(st)):
                if any(isinstance(x, ast.Name) and x.id == dq for x in ast.walk(st)):
                    return None
            continue
        if any(isinstance(x, ast.Attribute) and isinstance(x.value, ast.Name) and x.value.id == dq
               and x.attr in ("pop", "popleft", "remove", "clear", "rotate", "reverse", "extend", "extendleft", "appendleft", "insert")
               for x in ast.walk(st)):
            return None
    return verdict if isinstance(verdict, bool) else None


def ast_adapter_guards_empty_iterable():
    fn = _find_method("src/easynetwork/lowlevel/api_async/backend/_asyncio/stream/socket.py",
                      "AsyncioTransportStreamSocketAdapter", "send_all_from_iterable")
    if fn is None:
        return None

    def is_writelines(node):
        return (isinstance(node, ast.Expr) and isinstance(node.value, ast.Call) and isinstance(node.value.func, ast.Attribute)
                and node.value.func.attr == "writelines")
    if any(is_writelines(st) for st in fn.body):
        return False
    if any(isinstance(st, ast.If) and any(is_writelines(x) for x in ast.walk(st)) for st in fn.body):
        return True
    return None


def switches():
    """{name: (value, source)}; source = 'AST + behavioural (agree)' | 'behavioural (AST shape not recognised)'"""
    if "v" in _switch_cache:
        return _switch_cache["v"]
    try:
        policy, _table = probe_empty_view_policy()
        probe_fallback_table()
        guard = probe_adapter_empty_iterable()
    except runner.TranslateError:
        raise
    except Exception as exc:  # noqa: BLE001 - a probe that cannot even run is a broken tie, not a crash of the check
        raise runner.TranslateError(f"behavioural extraction of the model switches failed: {exc.__class__.__name__}: {exc}")
    out = {}
    for name, value, from_ast in (("sendmsg_drops_empty_views", policy == "all", ast_drops_empty_views()),
                                  ("asyncio_adapter_guards_empty_iterable", guard, ast_adapter_guards_empty_iterable())):
        if from_ast is None:
            out[name] = (value, "behavioural (AST shape not recognised)")
        elif from_ast != value:
            raise runner.TranslateError(f"{name}: the AST reads {from_ast} but the real code behaves as {value}")
        else:
            out[name] = (value, "AST + behavioural (agree)")
    out["fallback_table"] = (True, "behavioural (sendmsg loop iff the socket has sendmsg and SC_IOV_MAX > 0)")
    _switch_cache["v"] = out
    return out


def drops_empty_views():
    return switches()["sendmsg_drops_empty_views"][0]


def adapter_guards_empty_iterable():
    return switches()["asyncio_adapter_guards_empty_iterable"][0]


def params():
    sw = switches()
    flag, src1 = sw["sendmsg_drops_empty_views"]
    guard, src2 = sw["asyncio_adapter_guards_empty_iterable"]
    return ("(* True iff SocketStreamTransport.send_all_from_iterable drops empty views when building its deque "
            f"(the F2 repair).  Source: {src1}. *)\n"
            f"Definition sendmsg_drops_empty_views : bool := {'true' if flag else 'false'}.\n"
            "(* True iff the asyncio adapter does not call transport.writelines() with an empty list (the F9 repair).  "
            f"Source: {src2}. *)\n"
            f"Definition asyncio_adapter_guards_empty_iterable : bool := {'true' if guard else 'false'}.\n")


# ---------------------------------------------------------------------------------------------------------------
# running the implementation
def _wide_view(c):
    """A view of the same bytes with the largest item size that divides the length ('d' 8, 'I' 4, 'H' 2), else bytes."""
    c = bytes(c)
    for fmt, size in (("d", 8), ("I", 4), ("H", 2)):
        if c and len(c) % size == 0:
            return memoryview(c).cast(fmt)
    return c


def _typed(chunks, wide=True):
    """bytes / bytearray / memoryview / memoryview with itemsize > 1, determined by the case itself (every buffer the
    API accepts is a byte string to the model: the cast to bytes is part of the input typing).
    wide=False (asyncio transports): CPython's asyncio write()/writelines() count ELEMENTS of such a view against the
    BYTES the kernel took (IndexError / wrong slice); the adapter forwards chunks uncast -- side observation, see notes."""
    out = []
    for i, c in enumerate(chunks):
        k = (i + len(chunks)) % 4
        out.append(c if k == 0 else bytearray(c) if k == 1 else memoryview(c) if (k == 2 or not wide) else _wide_view(c))
    return out


def fuel_bound(chunks, sscript):
    return sum(len(c) for c in chunks) + len(sscript) + len(chunks) + 1


def _chunk_protocol():
    from easynetwork.protocol import StreamProtocol
    from easynetwork.serializers.abc import AbstractIncrementalPacketSerializer

    class ChunkSerializer(AbstractIncrementalPacketSerializer):
        """The packet IS its list of chunks (a user serializer yielding these parts)."""

        def serialize(self, packet):
            return b"".join(bytes(c) for c in packet)

        def deserialize(self, data):
            return data

        def incremental_serialize(self, packet):
            yield from packet

        def incremental_deserialize(self):
            data = yield
            return data, b""

    return StreamProtocol(ChunkSerializer())


def run_sync(inp):
    import socket as _socket
    from easynetwork.lowlevel import constants
    from easynetwork.lowlevel.api_sync.transports.socket import SocketStreamTransport, SSLStreamTransport
    from easynetwork.lowlevel.api_sync.endpoints.stream import StreamEndpoint

    path, iov, chunks, T, ri, sscript, selscript, impl = inp[:8]
    T, ri = iosim.sx_tmo(T), iosim.sx_tmo(ri)
    clock = iosim.Clock()
    sel = iosim.SelectorScript(clock, [tuple(a) for a in selscript])
    script = iosim.SockScript(clock, send=[tuple(a) for a in sscript], bound=fuel_bound(chunks, sscript))
    no_sendmsg = (path == 2 and impl != 1)
    if impl == 1:
        raw, peer = iosim.make_pair(_socket.socket, None)
        transport = SSLStreamTransport(raw, iosim.FakeSSLContext(script), iosim.secs(ri), server_side=False,
                                       server_hostname="x", standard_compatible=False, selector_factory=sel.factory)
    else:
        sock, peer = iosim.make_pair(iosim.NoSendmsgSocket if no_sendmsg else iosim.ScriptedSocket, script)
        transport = SocketStreamTransport(sock, iosim.secs(ri), selector_factory=sel.factory)
    target = transport
    if impl == 2:
        target = StreamEndpoint(transport, _chunk_protocol(), max_recv_size=1024)
    saved_iov = constants.SC_IOV_MAX
    constants.SC_IOV_MAX = iov
    outcome = 0
    start = clock.now
    try:
        with clock.installed(), iosim.alarm(120.0):
            try:
                if impl == 2:
                    target.send_packet(_typed(chunks), timeout=None if T is None else iosim.secs(T))
                elif path == 0:
                    data = b"".join(chunks)
                    transport.send_all(_wide_view(data) if (len(chunks) + len(data)) % 2 else data, iosim.secs(T))
                else:
                    transport.send_all_from_iterable(iter(_typed(chunks)), iosim.secs(T))
            except BaseException as exc:  # noqa: BLE001 - every outcome is an observable
                if isinstance(exc, (KeyboardInterrupt, SystemExit)):
                    raise
                outcome = iosim.exc_code(exc)
        dt = iosim.ticks(clock.now - start)
        wire = iosim.drain(peer)
        if wire != bytes(script.accepted):
            outcome = 40        # harness self-check: the peer must read exactly what the scripted socket accepted
    finally:
        constants.SC_IOV_MAX = saved_iov
        try:
            target.close()
        except Exception:
            pass
        peer.close()
    return [outcome, wire, sel.waits, dt if isinstance(dt, int) else -7]


def run_impl(inp):
    impl = inp[7]
    if impl in (0, 1, 2):
        return run_sync(inp)
    if impl in (3, 4, 12):
        import c04_async
        return c04_async.run(inp)
    if impl in (5, 6, 7, 9, 13):
        import c04_real
        return c04_real.run(inp)
    if impl in (10, 11):
        return _client_run(inp)
    raise ValueError(f"unknown impl {impl}")


def _as_c11(inp):
    """client-level cases are run by the C11 driver's machinery (scripted locks / gated threads)"""
    path, iov, chunks, T, ri, sscript, selscript, impl, extra = inp[:9]
    if impl == 10:
        lk, hs = extra
        return [3, hs, iov, chunks, T, ri, lk, sscript, selscript, 0]
    labels, kind = extra
    return [9, labels, kind]


def _client_run(inp):
    import c11
    return c11.run_impl(_as_c11(inp))


# ---------------------------------------------------------------------------------------------------------------
# the property, stated on the implementation
def oracle(inp):
    if inp[7] == 13:
        import realio
        import c04_real
        specs_a, specs_b, specs_c, steps, ver = inp[8]
        cat = lambda specs: b"".join(realio.chunk_bytes(c if isinstance(c, bytes) else tuple(c)) for c in specs)  # noqa: E731
        A, B, C = cat(specs_a), cat(specs_b), cat(specs_c)
        out = c04_real.run(inp, force=True)
        if out[0] in (8, 9):
            return "async TLS: send does not terminate"
        if out[0] == 0 and not out[2]:
            return ("async TLS: send_all(C) returned normally but the peer cannot decrypt the stream any more (records of a "
                    "cancelled sender were thrown away: sequence hole): bytes dropped although the send returned")
        if out[0] == 0 and out[1] not in (realio.digest(A + C), realio.digest(A + B + C)):
            return f"async TLS: send_all(C) returned but the peer decrypted {out[1]} (length, checksum), neither A+C nor A+B+C"
        return None
    if inp[7] == 12:
        import realio
        out = run_impl(inp)
        want = b"".join(realio.chunk_bytes(c if isinstance(c, bytes) else tuple(c)) for _k, chunks, _n in inp[8] for c in chunks)
        if out[0] in (8, 9):
            return "asyncio adapter: send does not terminate"
        refused = [snd for snd in inp[8] if snd[2] < 0]
        if refused:
            good = b"".join(realio.chunk_bytes(c if isinstance(c, bytes) else tuple(c))
                            for _k, chunks, n in inp[8] if n >= 0 for c in chunks)
            if out[0] == 0:
                return ("asyncio adapter: the send returned normally although the kernel refused the write (ECONNRESET) and "
                        "asyncio dropped the data: bytes lost without any error")
            if out[0] != 2:
                return f"asyncio adapter: unexpected exception class (code {out[0]}) after a refused write"
            if out[1] != good:
                return f"asyncio adapter: the peer read {out[1]!r} instead of {good!r}"
            return None
        if out[0] != 0:
            return f"asyncio adapter: unexpected exception class (code {out[0]})"
        if out[1] != want:
            return f"asyncio adapter: the peer read {out[1]!r} instead of {want!r}"
        return None
    if inp[7] in (10, 11):
        import c11
        sub = _as_c11(inp)
        f = c11.oracle(sub)
        if f is None and inp[7] == 10:
            out = c11.run_impl(sub)
            want = b"".join(inp[2])
            if out[0] == 0 and out[1] != want:
                return f"send_packet returned but the peer read {out[1]!r} instead of {want!r}"
            if out[0] != 0 and not want.startswith(out[1]):
                return f"send_packet failed after writing {out[1]!r}, not a prefix of {want!r}"
        return f
    path, iov, chunks, T, ri, sscript, selscript, impl = inp[:8]
    out = run_impl(inp)
    outcome, wire = out[0], out[1]
    if impl in (5, 6, 7, 9):
        import realio
        import c04_real
        out = c04_real.run(inp, force=True)
        outcome, wire = out[0], out[1]
        want = b"".join(realio.chunk_bytes(c) for c in chunks)
        if outcome == 0 and wire != realio.digest(want):
            return f"returned but the peer received {wire} (length, checksum) instead of {realio.digest(want)}"
        if outcome in (8, 9):
            return "send does not terminate (real socket)"
        if outcome == 1:
            return (f"TimeoutError after {realio.SHORT if realio.STUCK['flag'] else realio.LIMIT} s of real time on a healthy real "
                    "connection whose peer reads everything: the sender does not make progress")
        if outcome != 0:
            return f"unexpected exception class (code {outcome}) on a healthy real connection"
        return None
    want = b"".join(chunks)
    if outcome == 9:
        return f"send does not terminate: socket called more than {fuel_bound(chunks, sscript)} times, wire={wire!r}"
    if outcome == 8:
        return ("send does not terminate: the call is suspended for ever although every byte has been taken (nothing left "
                "that could wake it up)" if impl in (3, 4, 12) else "send does not terminate: hang outside the socket calls")
    if outcome == 0 and wire != want:
        return f"returned but the peer read {wire!r} instead of {want!r}"
    if outcome != 0 and not want.startswith(wire):
        return f"failed with code {outcome} after writing {wire!r}, not a prefix of {want!r}"
    if outcome == 1 and iosim.sx_tmo(T) is None:
        return "TimeoutError although timeout is infinite"
    if outcome == 4:
        if iosim.sx_tmo(T) is None and iosim.sx_tmo(ri) is None and any(not a[0] for a in selscript):
            return None     # documented RuntimeError: select() without timeout returned nothing (scripted impossibility)
        return "unexpected RuntimeError"
    if outcome not in (0, 1, 2, 3):
        return f"unexpected exception class (code {outcome})"
    if outcome == 3 and not (iosim.sx_tmo(T) is not None and iosim.sx_tmo(T) < 0):
        return "ValueError for a valid timeout"
    if impl in (0, 1, 2):
        # a send that would block on writing waits for writability (SSL: whatever the SSL object asked for)
        f = iosim.event_failure(out[2], [1 if a[0] in (1, 2) else 0 for a in sscript if a[0] in (1, 2, 3, 4)], "send")
        if f:
            return f
    if impl in (0, 1, 2) and outcome == 1 and not any(a[0] in (1, 2, 3, 4) for a in sscript):
        # a zero / exhausted budget means "do not wait", not "cannot complete"
        return (f"TimeoutError (timeout {iosim.sx_tmo(T)}) although no send()/sendmsg() call ever had to wait (no would-block "
                f"answer at all); wire={wire!r} of {want!r}")
    if impl in (0, 1, 2) and all(a[2] == 0 for a in sscript):
        # "within its time budget": before each wait at most what is left of T is requested (C11's statement, checked
        # here too so that a send path that ignores the remaining timeout yields a failing input)
        f = iosim.budget_failure(iosim.sx_tmo(T), out[2], [], selscript, None, outcome, "send", out[3])
        if f:
            return f
    return None


def signature(inp, failure):
    path, iov, chunks = inp[0], inp[1], inp[2]
    if failure.startswith("send does not terminate: socket called") and path == 1 and iov > 0 and inp[7] in (0, 2) \
            and any(len(c) == 0 for c in chunks):
        return F2_SIG
    if failure.startswith("unexpected exception class (code 30)") and inp[7] == 3 and len(chunks) == 0:
        return F9_SIG
    return "C04:" + failure.split(":")[0]


def shrink(inp):
    inp = list(inp)
    chunks, sscript, selscript = inp[2], inp[5], inp[6]
    for i in range(len(chunks)):
        yield inp[:2] + [chunks[:i] + chunks[i + 1:]] + inp[3:]
    for i in range(len(chunks)):
        if len(chunks[i]) > 1:
            yield inp[:2] + [chunks[:i] + [chunks[i][:-1]] + chunks[i + 1:]] + inp[3:]
    for i in range(len(sscript)):
        yield inp[:5] + [sscript[:i] + sscript[i + 1:]] + inp[6:]
    for i in range(len(selscript)):
        yield inp[:6] + [selscript[:i] + selscript[i + 1:]] + inp[7:]


# ---------------------------------------------------------------------------------------------------------------
# cases
def mk_chunks(lengths):
    out, b = [], 1
    for n in lengths:
        out.append(bytes((b + i) % 251 + 1 for i in range(n)))
        b += n
    return out


ANS = {"s1": [0, 1, 0], "s2": [0, 2, 0], "s3": [0, 3, 0], "s5": [0, 5, 0], "all": [0, 99, 0], "s0": [0, 0, 0], "eagain": [1, 0, 0], "eintr": [2, 0, 0],
       "reset": [5, 0, 0], "wantread": [3, 0, 0], "syscall": [4, 0, 0]}


def _nontrivial(chunks, sscript):
    total = sum(len(c) if isinstance(c, bytes) else c[1] for c in chunks)
    chunks = [c if isinstance(c, bytes) else b'x' * min(c[1], 1) for c in chunks]
    return bool(any(len(c) == 0 for c in chunks) or any(a[0] != 0 or a[1] < total for a in sscript))


def _case(path, iov, lengths, T, ri, sscript, selscript, impl, tags):
    chunks = mk_chunks(lengths)
    tags = list(tags) + [f"path{path}", f"impl{impl}", f"iov{iov}" if path == 1 else "iov-",
                         "empty-chunk" if any(n == 0 for n in lengths) else "no-empty",
                         "trailing-empty" if lengths and lengths[-1] == 0 else "no-trailing-empty",
                         "T=inf" if T is None else ("T=0" if T == 0 else "T<0" if T < 0 else "T>0")]
    for a in sscript:
        tags.append("ans:" + {0: "accept", 1: "eagain", 2: "eintr", 3: "wantread", 4: "syscall", 5: "reset"}[a[0]])
    return dict(input=[path, iov, chunks, iosim.tmo_sx(T), iosim.tmo_sx(ri), [list(a) for a in sscript],
                       [list(a) for a in selscript], impl],
                tags=sorted(set(tags)), nontrivial=_nontrivial(chunks, sscript))


def _rand_sel(rng, n=None):
    n = rng.randint(0, 3) if n is None else n
    return [[rng.choice([1, 1, 0]), rng.choice([0, 1, 2, 3, 8])] for _ in range(n)]


def _rand_script(rng, alphabet, n):
    out = []
    for _ in range(n):
        a = list(ANS[rng.choice(alphabet)])
        if a[0] == 0 and rng.random() < 0.3:
            a[1] = rng.randint(0, 6)
        if rng.random() < 0.2:
            a[2] = rng.choice([1, 2])
        out.append(a)
    return out


def cases(tier, rng, escalate):
    thorough = tier == "thorough" or escalate
    lens = [0, 1, 2, 5] if thorough else [0, 1, 3]
    maxchunks = 4 if thorough else 3
    maxscript = 3 if thorough else 2
    plain = ["s1", "s2", "all", "eagain", "eintr", "reset"]
    sslalpha = ["s1", "all", "eagain", "wantread", "syscall", "reset"]
    lists = [list(l) for k in range(0, maxchunks + 1) for l in itertools.product(lens, repeat=k)]
    scripts = [list(s) for k in range(0, maxscript + 1) for s in itertools.product(plain, repeat=k)]
    TS = [0, 1, 3, 8, None]
    RIS = [1, 2, None]
    # exhaustive block: sendmsg path
    for lengths in lists:
        for iov in (1, 2, 1024):
            for s in scripts:
                if not thorough and len(lengths) == 3 and len(s) == 2 and rng.random() < 0.5:
                    continue
                T = rng.choice(TS)
                yield _case(1, iov, lengths, T, rng.choice(RIS), [ANS[a] for a in s], _rand_sel(rng), 0, ["exh-sendmsg"])
    # join paths and send_all: the chunk structure is irrelevant after the join, fewer lists
    for lengths in lists:
        if len(lengths) > 2 and not thorough and rng.random() < 0.7:
            continue
        for s in scripts:
            if len(s) == maxscript and rng.random() < 0.5:
                continue
            path, iov, impl = rng.choice([(0, 1024, 0), (2, 1024, 0), (1, 0, 0), (1, -1, 0), (2, 1024, 2), (1, 1024, 2), (1, 1, 2)])
            yield _case(path, iov, lengths, rng.choice(TS), rng.choice(RIS), [ANS[a] for a in s], _rand_sel(rng), impl,
                        ["exh-join"])
    # send_all on buffers whose itemsize is > 1 (memoryview 'H' / 'I' / 'd' of the same bytes) with partial writes that are
    # not aligned on the item size; same through the join path and the SSL transport
    for n in (2, 4, 6, 8, 12, 16, 24):
        for k in range(0, 3):
            for sc in itertools.product(["s1", "s2", "s3", "s5", "eagain"], repeat=k):
                for nch in (1, 2):
                    lengths = [n] if nch == 1 else [n // 2, n - n // 2]
                    path, impl = rng.choice([(0, 0), (0, 0), (0, 1), (2, 0), (2, 1), (1, 0)])
                    yield _case(path, rng.choice([1, 2, 1024]), lengths, rng.choice([8, None]), rng.choice(RIS), [ANS[a] for a in sc],
                                _rand_sel(rng), impl, ["wide-items"])
    # runs of empty chunks around the SC_IOV_MAX window (sendmsg passes only the first SC_IOV_MAX views): at the head of
    # the packet and right after a chunk boundary, followed by data, for every SC_IOV_MAX the cases use incl. the real 1024
    for iov in (1, 2, 3, 1024):
        for run in (max(iov - 1, 1), iov, iov + 1, 2 * iov + 1):
            if iov == 1024 and run > iov + 1 and not thorough:
                continue
            for head in ([], [2]):
                for sc in ([], ["s1"], ["eagain", "s1"]):
                    yield _case(1, iov, head + [0] * run + [3] + ([0] if run % 2 else []), rng.choice([3, None]), rng.choice(RIS),
                                [ANS[a] for a in sc], _rand_sel(rng), rng.choice([0, 2]), ["iov-window"])
    # SSL socket object
    sslscripts = [list(s) for k in range(0, 3) for s in itertools.product(sslalpha, repeat=k)]
    for lengths in lists:
        if len(lengths) > 2 and rng.random() < (0.5 if thorough else 0.85):
            continue
        for s in sslscripts:
            if len(s) == 2 and rng.random() < 0.5:
                continue
            yield _case(rng.choice([0, 2]), 1024, lengths, rng.choice(TS), rng.choice(RIS), [ANS[a] for a in s],
                        _rand_sel(rng), 1, ["exh-ssl"])
    # timeouts: would-block answers against every selector answer pair
    for T in TS + [-1]:
        for ri in RIS:
            for sel in itertools.product([(1, 0), (1, 2), (0, 1), (0, 3), (0, 9)], repeat=2):
                for lengths in ([3], [1, 0], [2, 3]):
                    path, iov = rng.choice([(0, 1), (1, 1), (1, 1024), (2, 1)])
                    s = [ANS["eagain"], ANS["s1"], ANS["eintr"], ANS["eagain"]][: rng.randint(1, 4)]
                    yield _case(path, iov, lengths, T, ri, s, [list(a) for a in sel], 0, ["timeouts"])
    # asynchronous transports: asyncio adapter (impl 3, path 4) and async TLS backlog (impl 4, path 3)
    tlsalpha = ["s1", "s2", "all", "s0", "eagain", "wantread", "reset"]
    aioalpha = ["s1", "s2", "all", "s0", "eagain", "eintr"]
    for lengths in lists:
        if len(lengths) > 2 and rng.random() < (0.3 if thorough else 0.6):
            continue
        for k in range(0, 3):
            for s in itertools.product(tlsalpha, repeat=k):
                if k == 2 and rng.random() < 0.6:
                    continue
                yield _case(3, 1024, lengths, None, None, [ANS[a] for a in s], [], 4, ["exh-async-tls"])
        for _ in range(4):
            s = _rand_script(rng, aioalpha, rng.randint(0, 4))
            for a in s:
                a[2] = 0
            yield _case(4, 1024, lengths, None, None, s, [], 3, ["asyncio-adapter"])
    # real sockets / real TLS objects: outcome + digest of the received bytes
    def real_case(path, iov, specs, impl, sndbuf, piece, delay_ms, ver, ri):
        total = sum(len(c) if isinstance(c, bytes) else c[1] for c in specs)
        tags = ["real", f"path{path}", f"impl{impl}", f"iov{iov}" if path == 5 else "iov-",
                "big-payload" if total > 20000 else "small-payload",
                "empty-chunk" if any((len(c) if isinstance(c, bytes) else c[1]) == 0 for c in specs) else "no-empty"]
        return dict(input=[path, iov, [c if isinstance(c, bytes) else list(c) for c in specs], [], iosim.tmo_sx(ri), [], [], impl,
                           [sndbuf, piece, delay_ms, ver]], tags=tags, nontrivial=True)

    n_real = 25 if thorough else 8
    for i in range(n_real):
        for impl, path in ((5, 5), (6, 5), (7, 6), (9, 7)):
            k = rng.randint(1, 5)
            specs = []
            for _ in range(k):
                r = rng.random()
                if r < 0.2:
                    specs.append(b"")
                elif r < 0.5:
                    specs.append(bytes(rng.randrange(256) for _ in range(rng.randint(1, 40))))
                else:
                    big = sum(c[1] for c in specs if not isinstance(c, bytes)) >= 30000
                    specs.append((rng.randrange(1, 2 ** 30), rng.choice([300, 5000] if big else ([300, 5000, 60000, 100000] if thorough else [300, 5000, 30000]))
                                  if impl != 9 else rng.choice([300, 5000, 40000])))
            rng.shuffle(specs)
            yield real_case(path, rng.choice([1, 2, 1024]) if path == 5 else 1024, specs, impl,
                            rng.choice([0, 4096, 4096, 16384]), rng.choice([512, 4096, 65536]), rng.choice([0, 0, 20]),
                            rng.choice([12, 13]), rng.choice([None, 1024]))
    # async TLS on a real SSLObject with more than 256 KiB of ciphertext pending at once (several 100 KB chunks written in
    # one pass of the backlog loop): every flush of the outgoing BIO must send ALL of it
    for ver in (12, 13):
        specs = [(rng.randrange(1, 2 ** 30), 100000), b"", (rng.randrange(1, 2 ** 30), 100000), (rng.randrange(1, 2 ** 30), 100000),
                 bytes([1, 2, 3])]
        yield real_case(7, 1024, specs, 9, 0, 4096, 0, ver, None)
    # async TLS on a real SSLObject, a sender cancelled while it is queued on the TLS transport's send lock (path 12)
    for ver in (12, 13):
        for steps in (0, 1, 2, 5):
            for _ in range(3 if thorough else 1):
                mk = lambda: [bytes(rng.randrange(256) for _ in range(rng.choice([0, 1, 30, 1000]))) for _ in range(rng.randint(1, 3))]  # noqa: E731
                a, b, c = mk(), mk(), mk()
                if not any(a):
                    a.append(b"A")        # A must reach the wrapped transport (it is the sender that holds the lock)
                yield dict(input=[12, 0, [], [], [], [], [], 13, [a, b, c, steps, ver]], tags=["real", "async-tls-cancel", "path12",
                           "impl13", f"steps{steps}"], nontrivial=True)
    # small real cases: every list of <= 2 chunks over lengths {0,1,3}, every real transport
    for lengths in [l for l in lists if len(l) <= 2]:
        for impl, path in ((5, 5), (6, 5), (7, 6), (9, 7)):
            yield real_case(path, rng.choice([1, 2, 1024]) if path == 5 else 1024, mk_chunks(lengths), impl, 0, 4096, 0,
                            rng.choice([12, 13]), None)
    # client level: TCPNetworkClient.send_packet behind the send lock (scripted locks: held / free, the receive lock
    # held elsewhere), and lock histories under real threads
    import c11_threads
    locks = [0, 0, [1, 0], [1, 2], [0, 1], [0, 3], [1, 9]]
    for _ in range(1500 if thorough else 300):
        lengths = [rng.choice([1, 2, 3, 5]) for _ in range(rng.randint(0, 3))]
        hs, iov = rng.choice([(1, 1), (1, 2), (1, 1024), (0, 1024), (1, 0)])
        c = _case(8, iov, lengths, rng.choice(TS + [2, 5, -1]), rng.choice(RIS), _rand_script(rng, plain + ["s0"], rng.randint(0, 4)),
                  _rand_sel(rng), 10, ["client-lock"])
        c["input"].append([rng.choice(locks), hs])
        c["nontrivial"] = True
        yield c
    hist = [
        [[0, 0, 0, []], [0, 1, 0, [5]], [3, 0, 1], [1, 1], [3, 1, 1], [0, 2, 0, [5]], [3, 2, 1]],
        [[0, 0, 0, []], [0, 1, 0, []], [3, 0, 0], [1, 1], [3, 1, 1], [0, 2, 2, []], [0, 3, 0, [0]], [3, 3, 1]],
        [[0, 0, 0, []], [0, 1, 0, [5]], [2, 1], [3, 0, 1], [0, 2, 0, [0]], [3, 2, 1]],
        [[0, 0, 0, []], [0, 1, 0, [0]], [3, 0, 1], [0, 2, 0, [5]], [3, 2, 0]],
        [[0, 0, 1, []], [0, 1, 0, [5]], [3, 1, 1], [3, 0, 1]],
    ]
    seen = set()
    for _ in range(60 if thorough else 10):
        h = c11_threads.gen_history(rng, 4)
        if h and repr(h) not in seen and any(lb[0] == 0 and lb[2] == 0 for lb in h):
            seen.add(repr(h))
            hist.append(h)
    for h in hist:
        yield dict(input=[9, 0, [], [], [], [], [], 11, [h, 0]], tags=["client-threads", "path9", "impl11"], nontrivial=True)
    # asyncio adapter, several sends in a row (send_all / send_all_from_iterable mixed), partial takes by the kernel
    for _ in range(1200 if thorough else 250):
        sends = []
        for _j in range(rng.randint(1, 4)):
            kind = rng.choice([0, 1, 1])
            lengths = [rng.choice([0, 1, 2, 5, 9])] if kind == 0 else [rng.choice([0, 0, 1, 2, 3, 7]) for _ in range(rng.randint(0, 4))]
            if kind == 1 and not lengths and not adapter_guards_empty_iterable():
                lengths = [1]
            sends.append([kind, mk_chunks(lengths), rng.choice([0, 1, 2, 3, 50])])
        # distinct byte values across the sends
        b = 1
        for snd in sends:
            snd[1] = [bytes((b + i + 7 * j) % 251 + 1 for i in range(len(c))) for j, c in enumerate(snd[1])]
            b += 31
        if rng.random() < 0.3:
            # the last write is refused by the kernel (fatal error inside write()/writelines()): everything before it
            # must have been flushed, otherwise asyncio only buffers and the error cannot happen inside this call
            sends = [snd for snd in sends if sum(len(c) for c in snd[1]) > 0]     # every earlier send reaches the socket
            for snd in sends:
                snd[2] = 50
            sends.append([rng.choice([0, 1]), [bytes([200 + len(sends)]) * rng.randint(1, 3)], -1])
        yield dict(input=[10, 0, [], [], [], [], [], 12, sends], tags=["asyncio-adapter-multi", "path10", "impl12",
                   "write-refused" if sends[-1][2] < 0 else "writes-accepted",
                   "with-empty-chunk" if any(len(c) == 0 for snd in sends for c in snd[1]) else "no-empty"], nontrivial=True)
    # random volume
    n_random = 12000 if thorough else 2500
    for _ in range(n_random):
        k = rng.randint(0, 6 if thorough else 5)
        lengths = [rng.choice([0, 0, 1, 2, 3, 5, 9]) for _ in range(k)]
        impl = rng.choice([0, 0, 0, 1, 2])
        if impl == 1:
            path, iov = rng.choice([0, 2]), 1024
            s = _rand_script(rng, sslalpha + ["s0", "s2"], rng.randint(0, 6))
        else:
            path, iov = rng.choice([(0, 1024), (1, 1), (1, 2), (1, 3), (1, 1024), (1, 0), (2, 1024)])
            if impl == 2 and path == 0:
                path = 1
            s = _rand_script(rng, plain + ["s0", "eagain"], rng.randint(0, 6))
        yield _case(path, iov, lengths, rng.choice(TS + [2, 5, -1]), rng.choice(RIS + [3]), s, _rand_sel(rng, rng.randint(0, 5)),
                    impl, ["random"])


def extra(ctx):
    try:
        import realio
        sw = switches()
        return {"model_switches": {k: dict(value=v[0], source=v[1]) for k, v in sw.items()},
                "sendmsg_drops_empty_views": sw["sendmsg_drops_empty_views"][0],
                "asyncio_adapter_guards_empty_iterable": sw["asyncio_adapter_guards_empty_iterable"][0],
                "real_socket_stream": dict(realio.STATS)}
    except runner.TranslateError:
        return {}
